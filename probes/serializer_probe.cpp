// Translation unit for the checks only: libopmcommon has no unit that includes the (header-only, templated) Serializer, so
// its member templates are parsed through this file.  Nothing here is compiled into or linked with the library.
#include <opm/common/utility/Serializer.hpp>
#include <opm/common/utility/MemPacker.hpp>
