"""C09  Summary vectors: definitions, accumulation, hierarchy — table rules over Summary.cpp.

Decides: every entry of the keyword->function table obeys the definition implied by its mnemonic
(C09.gram), sibling levels agree (C09.sib), the three classifiers of 'cumulative' agree with the
table (C09.total), every flow primitive skips shut wells and applies the efficiency factor
(C09.shut), phase->unit pairing (C09.rateunit) and every evaluator converts with from_si (C09.unit).
Not decided: numeric accumulation over a simulated history, traversal of a concrete group tree.
"""
import re

from verif import core
from verif.alpha import Inliner
from verif import symb as sy
from verif.tree import walk, show, stmt_list, meth, strip

LEVEL = "other"
SUMMARY = "opm/output/eclipse/Summary.cpp"
SUMSTATE = "opm/input/eclipse/Schedule/SummaryState.cpp"
SUMCONFIG = "opm/input/eclipse/EclipseState/SummaryConfig/SummaryConfig.cpp"

# ---------------------------------------------------------------------------------------
# terms


def term(n):
    k = n["k"]
    if k == "Ref":
        t = tuple(a.split("::")[-1] for a in n.get("targs", []))
        return (n["n"],) + t
    if k == "Call":
        return (n["fn"].split("::")[-1] + "()",) + tuple(term(a) for a in n["a"])
    if k == "Ctor" and len(n["a"]) == 1:
        return term(n["a"][0])
    raise core.AnalysisBroken("funs: unexpected entry expression %s at line %s" % (k, n.get("l")))


def tshow(t):
    if t[0].endswith("()"):
        return "%s(%s)" % (t[0][:-2], ", ".join(tshow(a) for a in t[1:]))
    return t[0] + ("<" + ",".join(t[1:]) + ">" if len(t) > 1 else "")


DUR = ("duration",)


def norm(t):
    """Normal form: mul(x, duration) is distributed over sum/sub so that
    sub(mul(a,d), mul(b,d)) == mul(sub(a,b), d)."""
    if not t[0].endswith("()"):
        return t
    op = t[0]
    args = [norm(a) for a in t[1:]]
    if op == "mul()" and len(args) == 2 and args[1] == DUR and args[0][0] in ("sum()", "sub()"):
        return (args[0][0],) + tuple(norm(("mul()", a, DUR)) for a in args[0][1:])
    return (op,) + tuple(args)


def has_duration(t):
    """Is the term multiplied by the step length (after normalisation every additive leaf must be)?"""
    t = norm(t)
    if t[0] in ("sum()", "sub()"):
        r = [has_duration(a) for a in t[1:]]
        if all(r):
            return True
        if any(r):
            return None  # mixed: malformed
        return False
    if t[0] == "mul()":
        return any(a == DUR for a in t[1:]) or any(has_duration(a) for a in t[1:] if a[0] == "mul()")
    return False


def strip_duration(t):
    t = norm(t)
    if t[0] in ("sum()", "sub()"):
        return (t[0],) + tuple(strip_duration(a) for a in t[1:])
    if t[0] == "mul()" and len(t) == 3 and t[2] == DUR:
        return t[1]
    return t


# ---------------------------------------------------------------------------------------
# the mnemonic grammar (documented Eclipse summary-vector naming; confirmed against the table by reading)

PHASE = {"W": "wat", "O": "oil", "G": "gas", "GM": "mass_gas", "E": "energy", "N": "solvent", "C": "polymer", "S": "brine"}
HPHASE = {"W": "WATER", "O": "OIL", "G": "GAS"}
INJ = {"I": "true", "P": "false"}


def liquid(prim, d, extra=()):
    return ("sum()", (prim, "wat", d) + extra, (prim, "oil", d) + extra)


def voidage(prim, d):
    return ("sum()", ("sum()", (prim, "reservoir_water", d), (prim, "reservoir_oil", d)), (prim, "reservoir_gas", d))


def rate_term(level, ph, pi, suffix):
    """Expected *rate* term for <level><ph><pi>R<suffix>, or None if the grammar does not govern it."""
    d = INJ[pi]
    if level in "WGF":
        prim = "rate"
        if suffix == "":
            if ph in PHASE:
                return (prim, PHASE[ph], d)
            if ph == "L":
                return liquid(prim, d)
            if ph == "V":
                return voidage(prim, d)
        if suffix == "H" and ph in HPHASE:
            return ("production_history" if pi == "P" else "injection_history", HPHASE[ph])
        if suffix == "H" and ph == "L":
            h = "production_history" if pi == "P" else "injection_history"
            return ("sum()", (h, "WATER"), (h, "OIL"))
        if suffix == "S" and pi == "P" and ph in ("G", "O"):
            return (prim, "dissolved_gas" if ph == "G" else "vaporized_oil", d)
        if suffix == "F" and pi == "P" and ph in ("G", "O"):
            return ("sub()", (prim, PHASE[ph], d), (prim, "dissolved_gas" if ph == "G" else "vaporized_oil", d))
        if suffix == "L" and level == "W":
            if ph in ("W", "O", "G"):
                return ("ratel", PHASE[ph], d)
            if ph == "L":
                return liquid("ratel", d)
    if level == "C":
        if suffix == "":
            if ph in PHASE and ph not in ("GM", "E"):
                return ("crate", PHASE[ph], d)
            if ph == "V":
                return ("crate_resv", d)
        if suffix == "L" and ph in ("W", "O", "G"):
            return ("cratel", PHASE[ph], d)
    if level == "R" and suffix == "" and ph in ("W", "O", "G"):
        return ("region_rate", PHASE[ph], d)
    return None


def ratio_term(level, name, suffix):
    """Expected term of the ratio vectors WCT GOR OGR WGR GLR (+H history, +L completion)."""
    def q(ph):
        if suffix == "H":
            return ("production_history", HPHASE[ph])
        if suffix == "L":
            return ("ratel" if level == "W" else "cratel", PHASE[ph], "false")
        if level == "C":
            return ("crate", PHASE[ph], "false")
        if level == "S":
            return ("srate", PHASE[ph])
        return ("rate", PHASE[ph], "false")
    liq = ("sum()", q("W"), q("O"))
    return {"WCT": ("div()", q("W"), liq), "GOR": ("div()", q("G"), q("O")), "OGR": ("div()", q("O"), q("G")),
            "WGR": ("div()", q("W"), q("G")), "GLR": ("div()", q("G"), liq)}[name]


KEY_RT = re.compile(r"^([WGFCR])(GM|[WOGLVENCS])([PI])([RT])(H|S|F|L)?$")
KEY_RATIO = re.compile(r"^([WGFCS])(WCT|GOR|OGR|WGR|GLR)(H|L)?$")
KEY_TRACER = re.compile(r"^([WF])T([PI])([RTC])([FS])?#([WOG])$")
KEY_SEG = re.compile(r"^S([OGW])F([RT])$")
KEY_HEAT = re.compile(r"^([WGF])T([PI])([RT])HEA$")
KEY_FLOWDIFF = re.compile(r"^C([GOWN])FR$")


def expected(key):
    """(expected term, description) for a governed key, else None."""
    m = KEY_RT.match(key)
    if m:
        level, ph, pi, rt_, suf = m.groups()
        suf = suf or ""
        r = rate_term(level, ph, pi, suf)
        if r is None:
            return None
        if rt_ == "T":
            r = ("mul()", r, DUR)
        return norm(r), "rate/total grammar"
    m = KEY_RATIO.match(key)
    if m:
        level, name, suf = m.groups()
        if level == "S" and suf:
            return None
        if level in "GF" and suf == "L":
            return None
        if level == "C" and suf == "H":
            return None
        return norm(ratio_term(level, name, suf or "")), "ratio grammar"
    m = KEY_TRACER.match(key)
    if m:
        level, pi, kind, fs, ph = m.groups()
        tr = ("ratetracer", "tracer", PHASE[ph], INJ[pi])
        if kind == "R":
            return tr, "tracer grammar"
        if kind == "T":
            return norm(("mul()", tr, DUR)), "tracer grammar"
        return ("div()", tr, ("rate", PHASE[ph], INJ[pi])), "tracer grammar"
    m = KEY_SEG.match(key)
    if m:
        ph, rt_ = m.groups()
        r = ("srate", PHASE[ph])
        return (norm(("mul()", r, DUR)) if rt_ == "T" else r), "segment grammar"
    m = KEY_HEAT.match(key)
    if m:
        level, pi, rt_ = m.groups()
        r = ("rate", "energy", INJ[pi])
        return (norm(("mul()", r, DUR)) if rt_ == "T" else r), "heat alias grammar"
    m = KEY_FLOWDIFF.match(key)
    if m:
        ph = PHASE[m.group(1)]
        return ("sub()", ("crate", ph, "false"), ("crate", ph, "true")), "connection net-flow grammar"
    return None


# level-specific primitives that legitimately differ between the W/G/F variants of one suffix
LEVEL_PRIMS = {"well_guiderate": "guiderate", "group_guiderate": "guiderate",
               "well_efficiency_factor": "efficiency_factor", "group_efficiency_factor": "efficiency_factor"}
# suffixes whose well-level vector is by definition a different quantity than the group/field one
SIB_EXEMPT = {
    "VPRT": "WVPRT is the well's reservoir-volume rate *limit* (well_control_limit), G/FVPRT the group's voidage production target",
}


def level_norm(t, key):
    if not t[0].endswith("()"):
        if t[0] in LEVEL_PRIMS:
            return (LEVEL_PRIMS[t[0]],) + t[1:]
        if t[0] == "group_control":
            return (t[0],) + t[2:]      # first template argument is the is-group flag
        return t
    # GGCT/GGIMT multiply by the group's own efficiency factor; the field variants do not need to
    if t[0] == "mul()" and len(t) == 3 and t[2] == ("group_efficiency_factor",):
        return level_norm(t[1], key)
    return (t[0],) + tuple(level_norm(a, key) for a in t[1:])


# ---------------------------------------------------------------------------------------
# classifier extraction (slots from the AST; shape drift = analysis broken, never a verdict)


def str_list(n):
    return [x["v"] for x in walk(n) if x["k"] == "Str"]


def local_static(fn, name):
    for n in walk(fn["body"]):
        if n["k"] == "Decl":
            for v in n["vars"]:
                if v["n"] == name:
                    return v
    raise core.AnalysisBroken("%s: local '%s' not found" % (fn["q"], name))


def summarystate_is_total(fx):
    fn = fx.fn1("(anonymous namespace)::is_total", file_suffix="SummaryState.cpp")
    totals = str_list(local_static(fn, "totals")["init"])
    # slot: key.compare(<pos>, total.size(), total) == 0
    cmps = [n for n in walk(fn["body"]) if meth(n)[0] == "compare"]
    if len(cmps) != 1 or len(cmps[0]["a"]) != 3:
        raise core.AnalysisBroken("SummaryState is_total: expected exactly one key.compare(pos, n, total)")
    c = cmps[0]
    pos = c["a"][0].get("v", c["a"][0].get("ev"))
    if pos is None or show(c["a"][1]) != "total.size()" or show(c["a"][2]) != "total" or show(meth(c)[1]) != "key":
        raise core.AnalysisBroken("SummaryState is_total: compare() slots changed shape: %s" % show(c))
    anyof = [n for n in walk(fn["body"]) if n["k"] == "Call" and (n.get("fn") or "").endswith("any_of")]
    if len(anyof) != 1:
        raise core.AnalysisBroken("SummaryState is_total: any_of over totals not found")

    def pred(key):
        key = key.split(":")[0]
        return any(key[pos:pos + len(t)] == t and len(key) >= pos + len(t) for t in totals)
    return pred, totals, fn


def summaryconfig_sets(fx):
    """keyword sets and substr slots of is_rate / is_total in SummaryConfig.cpp."""
    out = {}
    for name, setname in (("is_rate", "ratekw"), ("is_total", "totalkw"), ("is_ratio", "ratiokw")):
        fn = fx.fn1("Opm::(anonymous namespace)::" + name, file_suffix="SummaryConfig.cpp")
        kws = str_list(local_static(fn, setname)["init"])
        rets = [n for n in stmt_list(fn["body"]) if n["k"] == "Return"]
        if len(rets) != 1:
            raise core.AnalysisBroken("SummaryConfig %s: expected one return" % name)
        e = rets[0]["e"]
        insets = [n for n in walk(e) if n["k"] == "Call" and (n.get("fn") or "").endswith("is_in_set")]
        main = insets[0]
        sub = main["a"][1]
        if not (sub["k"] == "MCall" and sub.get("m") == "substr" and len([a for a in sub["a"] if a["k"] != "DefArg"]) == 1):
            raise core.AnalysisBroken("SummaryConfig %s: is_in_set(set, keyword.substr(pos)) changed shape" % name)
        pos = sub["a"][0].get("v", sub["a"][0].get("ev"))
        extra = None
        if len(insets) == 2:
            x = insets[1]
            xs = str_list(x["a"][0])
            xsub = x["a"][1]
            xa = [a.get("v", a.get("ev")) for a in xsub["a"]]
            lens = [n for n in walk(e) if n["k"] == "Bin" and n["op"] == ">" and "length()" in show(n["c"][0])]
            if len(lens) != 1 or xsub.get("m") != "substr" or len(xa) != 2:
                raise core.AnalysisBroken("SummaryConfig %s: second clause changed shape" % name)
            minlen = lens[0]["c"][1].get("v", lens[0]["c"][1].get("ev"))
            extra = (xs, xa[0], xa[1], minlen)
            if e["k"] != "Bin" or e["op"] != "||":
                raise core.AnalysisBroken("SummaryConfig %s: clauses are no longer joined by ||" % name)
        elif len(insets) != 1:
            raise core.AnalysisBroken("SummaryConfig %s: unexpected number of is_in_set calls" % name)

        def pred(kw, kws=set(kws), pos=pos, extra=extra):
            if kw[pos:] in kws:
                return True
            if extra:
                xs, p, n, minlen = extra
                return len(kw) > minlen and kw[p:p + n] in xs
            return False
        out[name] = (pred, kws, fn)
    # completion suffix stripping done by parseKeywordType before classification
    wc = fx.fn1("Opm::(anonymous namespace)::is_well_completion", file_suffix="SummaryConfig.cpp")
    cc = fx.fn1("Opm::(anonymous namespace)::is_connection_completion", file_suffix="SummaryConfig.cpp")
    rx_w = str_list(local_static(wc, "well_compl_kw")["init"])
    rx_c = str_list(local_static(cc, "conn_compl_kw")["init"])
    if len(rx_w) != 1 or len(rx_c) != 1:
        raise core.AnalysisBroken("SummaryConfig: completion regexes not found")
    pk = fx.fn1("Opm::parseKeywordType", file_suffix="SummaryConfig.cpp")
    order = [n.get("fn", "").split("::")[-1] for n in walk(pk["body"]) if n["k"] == "Call" and (n.get("fn") or "").split("::")[-1] in ("is_rate", "is_total", "is_ratio", "is_pressure", "is_count", "is_control_mode", "is_prod_index")]
    if order[:3] != ["is_rate", "is_total", "is_ratio"]:
        raise core.AnalysisBroken("parseKeywordType: classification order changed: %s" % order)
    rw, rc = re.compile(rx_w[0] + r"\Z"), re.compile(rx_c[0] + r"\Z")

    def ptype(kw):
        if kw.startswith("R"):
            pass  # region keywords are normalised; only plain R??[RT] keys exist in the table
        if rw.match(kw):
            kw = kw[:-1]
        if rc.match(kw):
            kw = kw[:-1]
        if out["is_rate"][0](kw):
            return "Rate"
        if out["is_total"][0](kw):
            return "Total"
        if out["is_ratio"][0](kw):
            return "Ratio"
        return "Other"
    return ptype, out


# ---------------------------------------------------------------------------------------
# flow primitives: shut guard + efficiency factor

FLOW_LOOP = {"rate": True, "ratetracer": True, "production_history": True, "injection_history": True, "potential_rate": True, "glir": True}
FLOW_SINGLE = {"ratel": True, "cratel": True, "crate": True, "crate_resv": True}
NONFLOW_LOOP = {
    "abandoned_well": "counts wells that are not flowing; a shut well is exactly what it counts",
}


def is_shut_guard(cond):
    """(<pos> == args.wells.end()) || (<...>.dynamicStatus == SHUT): both tests positive, joined by ||"""
    parts = []

    def flat(e):
        e = strip(e)
        if e.get("k") == "Bin" and e.get("op") == "||":
            flat(e["c"][0])
            flat(e["c"][1])
        else:
            parts.append(e)
    flat(cond)
    if len(parts) < 2:
        return False
    kinds = set()
    for p_ in parts:
        t = show(p_)
        pos = p_.get("k") in ("Bin", "OpCall") and p_.get("op") == "=="
        if "args.wells.end()" in t:
            if not pos:
                return False
            kinds.add("missing")
        elif "dynamicStatus" in t and "SHUT" in t:
            if not pos:
                return False
            kinds.add("shut")
    return kinds == {"missing", "shut"}


def efac_in_divisor(expr, env):
    """Is the efficiency factor used as a divisor somewhere in expr (through local initialisers)?"""
    seen = set()
    stack = [expr]
    while stack:
        e = stack.pop()
        for n in walk(e):
            if n["k"] == "Bin" and n.get("op") in ("/", "/=") and depends_on_efac(n["c"][1], env):
                return True
            if n["k"] == "Ref" and n.get("d") == "Var" and n["n"] in env and n["n"] not in seen:
                seen.add(n["n"])
                stack.append(env[n["n"]])
    return False


def exits(stmt, kinds):
    body = stmt_list(stmt)
    return bool(body) and body[-1]["k"] in kinds


def mentions(expr, env, var):
    """Does expr (transitively through local initialisers) refer to variable `var`?"""
    seen = set()
    stack = [expr]
    while stack:
        e = stack.pop()
        for n in walk(e):
            if n["k"] == "Ref" and n["n"] == var:
                return True
            if n["k"] == "Ref" and n.get("d") == "Var" and n["n"] in env and n["n"] not in seen:
                seen.add(n["n"])
                stack.append(env[n["n"]])
    return False


def depends_on_efac(expr, env, loopvar=None, wrong=None):
    """Does expr (transitively through local initialisers) contain efac(args.eff_factors, <well>)?  With `loopvar` the
    well must be the one of the current loop iteration; calls that name another well are collected in `wrong`."""
    seen = set()
    stack = [expr]
    while stack:
        e = stack.pop()
        for n in walk(e):
            if n["k"] == "Call" and (n.get("fn") or "").endswith("::efac") or n["k"] == "Call" and n.get("fn") == "efac":
                if "eff_factors" in show(n["a"][0]):
                    if loopvar is not None and len(n["a"]) > 1 and not mentions(n["a"][1], env, loopvar):
                        if wrong is not None:
                            wrong.append(n)
                        continue
                    return True
            if n["k"] == "Ref" and n.get("d") == "Var" and n["n"] in env and n["n"] not in seen:
                seen.add(n["n"])
                stack.append(env[n["n"]])
    return False


def local_env(fn):
    env = {}
    for n in walk(fn["body"]):
        if n["k"] == "Decl":
            for v in n["vars"]:
                if v.get("init"):
                    env[v["n"]] = v["init"]
    return env


def run(chk):
    fx = chk.facts([SUMMARY, SUMSTATE, SUMCONFIG])
    funs_var = [v for v in fx.vars if v["n"] == "funs" and v["file"].endswith("Summary.cpp")]
    if len(funs_var) != 1:
        raise core.AnalysisBroken("Summary.cpp: table 'funs' not found")
    il = funs_var[0]["init"]["a"][0]
    if il["k"] != "InitList":
        raise core.AnalysisBroken("Summary.cpp: 'funs' is not brace-initialised")
    table = {}
    lines = {}
    r_tab = chk.rule("C09.table", "entries of the keyword->function table 'funs' extracted as terms", floor=500)
    for e in il["c"]:
        key = e["a"][0]["v"]
        if key in table:
            chk.violation(r_tab, "dup:" + key, "keyword %s occurs twice in funs (the second entry is silently ignored)" % key, funs_var[0]["file"], e["l"])
        table[key] = term(e["a"][1])
        lines[key] = e["l"]
        chk.instance(r_tab, key, sample="%s = %s" % (key, tshow(table[key])))
    F = funs_var[0]["file"]

    # ---- C09.gram
    r_gram = chk.rule("C09.gram", "the term of every keyword governed by the mnemonic grammar equals the term the mnemonic implies (phase, direction, rate/total, history, ratio)", floor=330)
    governed = 0
    for key, t in sorted(table.items()):
        ex = expected(key)
        if ex is None:
            continue
        governed += 1
        want, why = ex
        got = norm(t)
        chk.instance(r_gram, key, sample="%s: %s" % (key, tshow(got)))
        if got != want:
            chk.violation(r_gram, key, "%s is defined as %s but its mnemonic (%s) implies %s" % (key, tshow(got), why, tshow(want)), F, lines[key])
    chk.extra["keys_not_governed_by_grammar"] = sorted(k for k in table if expected(k) is None)

    # ---- C09.sib
    r_sib = chk.rule("C09.sib", "for every suffix present under more than one of W/G/F the terms agree modulo level-specific primitives", floor=120)
    by_suffix = {}
    for key in table:
        if key[0] in "WGF" and len(key) > 2:
            by_suffix.setdefault(key[1:], []).append(key)
    for suf, keys in sorted(by_suffix.items()):
        if len(keys) < 2 or suf in SIB_EXEMPT:
            continue
        terms = {k: level_norm(norm(table[k]), k) for k in keys}
        chk.instance(r_sib, suf, sample={k: tshow(v) for k, v in terms.items()})
        vals = list(terms.values())
        # majority / first as reference
        ref = max(set(vals), key=vals.count)
        for k, v in sorted(terms.items()):
            if v != ref:
                chk.violation(r_sib, k, "%s = %s disagrees with its sibling(s) %s = %s" % (k, tshow(v), ",".join(x for x in keys if terms[x] == ref), tshow(ref)), F, lines[k])

    def prims_of(t):
        if t[0].endswith("()"):
            r = set()
            for a in t[1:]:
                r |= prims_of(a)
            return r
        return {t[0]}
    eff_prims = {f["n"] for f in fx.fns if f["file"].endswith("Summary.cpp") and f.get("body") and "args.eff_factors" in show(f["body"])}
    if not eff_prims >= set(FLOW_LOOP):
        raise core.AnalysisBroken("flow primitives no longer read args.eff_factors: %s" % sorted(set(FLOW_LOOP) - eff_prims))

    # ---- C09.total (3-way)
    r_tot = chk.rule("C09.total", "a keyword is accumulated over time (term multiplied by the step length) iff SummaryState adds it up iff SummaryConfig types it Total (which switches on the well/group efficiency factor)", floor=500)
    st_total, st_list, st_fn = summarystate_is_total(fx)
    ptype, sc = summaryconfig_sets(fx)
    for key, t in sorted(table.items()):
        d = has_duration(t)
        if d is None:
            chk.violation(r_tot, "mixed:" + key, "%s mixes accumulated and instantaneous terms: %s" % (key, tshow(norm(t))), F, lines[key])
            continue
        base = key.split("#")[0]
        s = st_total(base)
        chk.instance(r_tot, key, sample=dict(key=key, accumulated_in_table=d, summarystate_is_total=s, summaryconfig_type=ptype(base)))
        if d != s:
            chk.violation(r_tot, "state:" + key,
                          ("%s is a cumulative in the evaluator table (rate x step length) but SummaryState::update assigns instead of adding (not matched by is_total): the stored value is the last step's increment" % key) if d else
                          ("%s is an instantaneous quantity in the evaluator table but SummaryState::update accumulates it (matched by is_total)" % key),
                          st_fn["file"], st_fn["l"], table_line=lines[key])
        c = ptype(base) == "Total"
        # the SummaryConfig type only matters where setFactors() distinguishes rates from totals (well, group,
        # connection level) and the term consumes args.eff_factors
        uses_ef = any(p in eff_prims for p in prims_of(t))
        if key[0] in "WGC" and uses_ef and d != c:
            chk.violation(r_tot, "config:" + key,
                          ("%s is a cumulative in the evaluator table but SummaryConfig does not type it Total (types it %s): the well's / own group's efficiency factor is not applied to it" % (key, ptype(base))) if d else
                          ("%s is instantaneous in the evaluator table but SummaryConfig types it Total" % key),
                          sc["is_total"][2]["file"], sc["is_total"][2]["l"], table_line=lines[key])
    # explicit (suffix, Type) constructor arguments of the required vectors
    r_req = chk.rule("C09.required", "explicit (suffix, Type) pairs of the always-computed vectors agree with the table", floor=25)
    for fn in fx.fns:
        if not fn["file"].endswith("Summary.cpp"):
            continue
        for n in walk(fn["body"]):
            if n["k"] in ("Ctor", "InitList") and "ParamCTorArgs" in (n.get("t") or "") and not (n.get("t") or "").startswith("std::"):
                args = n.get("a") or n.get("c") or []
                if len(args) == 2 and args[0]["k"] in ("Str", "Ctor") and args[1]["k"] == "Ref":
                    suf = str_list(args[0])
                    if not suf:
                        continue
                    suf = suf[0]
                    typ = args[1]["n"]
                    for lv in "WGF":
                        k = lv + suf
                        if k in table:
                            d = has_duration(table[k])
                            chk.instance(r_req, "%s:%s" % (fn["n"], k), sample=dict(key=k, declared=typ, accumulated=d))
                            if (typ == "Total") != bool(d):
                                chk.violation(r_req, "%s:%s" % (fn["n"], k), "required vector %s is declared Type::%s but the table %s" % (k, typ, "accumulates it" if d else "does not accumulate it"), fn["file"], n["l"])

    # ---- C09.shut
    r_shut = chk.rule("C09.shut", "every flow primitive skips wells that are missing or SHUT in the dynamic results and weights contributions with efac()", floor=10)
    prims_used = set()

    def collect(t):
        if t[0].endswith("()"):
            for a in t[1:]:
                collect(a)
        else:
            prims_used.add(t[0])
    for t in table.values():
        collect(t)
    for name in sorted(set(FLOW_LOOP) | set(FLOW_SINGLE)):
        if name not in prims_used:
            raise core.AnalysisBroken("flow primitive %s is no longer used by the table" % name)
        fns = [f for f in fx.fns if f["n"] == name and f["file"].endswith("Summary.cpp")]
        if not fns:
            raise core.AnalysisBroken("flow primitive %s not found in Summary.cpp" % name)
        for fn in fns:
            env = local_env(fn)
            if name in FLOW_LOOP:
                loops = [n for n in walk(fn["body"]) if n["k"] == "ForRange" and "schedule_wells" in show(n["range"])]
                if len(loops) != 1:
                    raise core.AnalysisBroken("%s: expected one loop over args.schedule_wells" % name)
                body = stmt_list(loops[0]["body"])
                guard_idx = None
                for i, s in enumerate(body):
                    if s["k"] == "If" and is_shut_guard(s["cond"]) and exits(s["then"], ("Continue",)):
                        guard_idx = i
                        break
                chk.instance(r_shut, name + ":guard", sample=dict(primitive=name, loop_line=loops[0]["l"], shut_guard=guard_idx is not None))
                if guard_idx is None:
                    chk.violation(r_shut, name + ":guard", "%s: the well loop has no `if (not in results || dynamicStatus == SHUT) continue;` guard: shut wells would contribute" % name, fn["file"], loops[0]["l"])
                    continue
                # accumulations: compound assignments to a variable declared outside the loop
                accs = []
                for i, s in enumerate(body):
                    for n in walk(s):
                        if n["k"] == "Bin" and n.get("asg") and n["op"] in ("+=", "-=") and n["c"][0]["k"] == "Ref":
                            accs.append((i, n))
                if not accs:
                    raise core.AnalysisBroken("%s: no accumulation found in the well loop" % name)
                for i, n in accs:
                    key = "%s:acc@%s" % (name, show(n["c"][0]))
                    ok_pos = i > guard_idx
                    wrong = []
                    ok_ef = depends_on_efac(n["c"][1], env, loops[0]["var"]["n"], wrong)
                    if wrong and not ok_ef:
                        chk.instance(r_shut, key, sample=dict(primitive=name, accumulation=show(n)[:120], efac_of=show(wrong[0]["a"][1])[:60]))
                        chk.violation(r_shut, key + ":efac-well", "%s: the contribution of well `%s` is weighted with the efficiency factor of `%s`, not of that well: group and field values are no longer the efficiency-weighted sum over their wells" % (name, loops[0]["var"]["n"], show(wrong[0]["a"][1])[:60]), fn["file"], wrong[0]["l"])
                        continue
                    chk.instance(r_shut, key, sample=dict(primitive=name, accumulation=show(n)[:120], after_guard=ok_pos, weighted_by_efac=ok_ef))
                    if not ok_pos:
                        chk.violation(r_shut, key + ":order", "%s: accumulation `%s` happens before the shut-well guard" % (name, show(n)[:100]), fn["file"], n["l"])
                    if not ok_ef:
                        chk.violation(r_shut, key + ":efac", "%s: accumulation `%s` is not weighted by efac(args.eff_factors, well)" % (name, show(n)[:100]), fn["file"], n["l"])
                    elif efac_in_divisor(n["c"][1], env):
                        chk.violation(r_shut, key + ":efac-div", "%s: the contribution `%s` is DIVIDED by the well's efficiency factor; a well that is on stream a fraction f of the time contributes rate x f" % (name, show(n)[:100]), fn["file"], n["l"])
            else:
                guards = [n for n in walk(fn["body"]) if n["k"] == "If" and is_shut_guard(n["cond"]) and exits(n["then"], ("Return",))]
                chk.instance(r_shut, name + ":guard", sample=dict(primitive=name, shut_guard=bool(guards)))
                if not guards:
                    chk.violation(r_shut, name + ":guard", "%s: no early return for a well that is missing or SHUT in the dynamic results" % name, fn["file"], fn["l"])
                ef = any(depends_on_efac(n["e"], env) for n in walk(fn["body"]) if n["k"] == "Return" and n.get("e")) or \
                    any(depends_on_efac(n["c"][1], env) for n in walk(fn["body"]) if n["k"] == "Bin" and n.get("asg"))
                chk.instance(r_shut, name + ":efac", sample=dict(primitive=name, efac=ef))
                if not ef:
                    chk.violation(r_shut, name + ":efac", "%s: result is not weighted by efac(args.eff_factors, well)" % name, fn["file"], fn["l"])
    # new well loops must be classified
    for fn in fx.fns:
        if fn["file"].endswith("Summary.cpp") and fn["n"] in prims_used and fn["n"] not in FLOW_LOOP and fn["n"] not in NONFLOW_LOOP:
            if any(n["k"] == "ForRange" and "schedule_wells" in show(n["range"]) for n in walk(fn["body"])):
                raise core.AnalysisBroken("primitive %s loops over args.schedule_wells but is not classified as flow / non-flow in rules/C09.py" % fn["n"])

    # ---- C09.rateunit
    r_ru = chk.rule("C09.rateunit", "rate_unit<phase>() pairs every phase with the unit of its surface/reservoir rate", floor=18)
    want_unit = core.load_table("c09_rate_units.json")["rate_unit"]
    seen = {}
    for fn in fx.fns:
        if fn["n"] == "rate_unit" and fn["file"].endswith("Summary.cpp"):
            rets = [n for n in walk(fn["body"]) if n["k"] == "Return"]
            if len(rets) != 1:
                raise core.AnalysisBroken("rate_unit: unexpected body")
            m = show(rets[0]["e"]).split("::")[-1]
            if fn.get("spec"):
                ph = fn["targs"][0]
                key = ph.split("::")[-2] + "::" + ph.split("::")[-1] if "::" in ph else ph
            else:
                key = "default<%s>" % fn["sig"]
                key = "default:" + re.sub(r"\s+", "", fn.get("sig", ""))
                # the primary templates are keyed by their non-type parameter kind (order of definition)
                key = "default#%d" % len([k for k in seen if k.startswith("default#")])
            seen[key] = (m, fn["l"])
    for key, (m, l) in sorted(seen.items()):
        chk.instance(r_ru, key, sample=dict(phase=key, unit=m))
        if key not in want_unit:
            chk.fail_broken("C09.rateunit: " + "rate_unit specialisation %s -> %s is not in tables/c09_rate_units.json (confirm and add it)" % (key, m))
        elif want_unit[key] != m:
            chk.violation(r_ru, key, "rate_unit<%s> returns measure::%s; the physical unit of that rate is measure::%s" % (key, m, want_unit[key]), F, l)
    for key in want_unit:
        if key not in seen:
            chk.violation(r_ru, key, "rate_unit specialisation for %s (measure::%s) has disappeared: the phase now gets the default liquid_surface_rate" % (key, want_unit[key]), F, None)

    # ---- C09.unitalg: the unit algebra of quantity * quantity and quantity / quantity
    r_ua = chk.rule("C09.unitalg", "mul_unit(a, b) / div_unit(a, b): for every branch `a == A && b == B -> C` the SI-to-deck factor of C equals factor(A) x factor(B) resp. factor(A) / factor(B) in all four unit systems (factors are clang's compile-time values of the to_<sys> tables): the unit tag a product or quotient of summary quantities carries converts like the product or quotient itself", floor=12)
    fu = chk.facts(["/repo/opm/input/eclipse/Units/UnitSystem.cpp"], files_re="^/repo/opm/input/eclipse/Units/")
    measures_ = [e["n"] for e in fu.enum1("Opm::UnitSystem::measure")["items"]]
    tabs_ = {v["n"]: v for v in fu.vars if v["file"].endswith("UnitSystem.cpp")}
    fac = {}
    for sysname in ("metric", "field", "lab", "pvt_m"):
        t = tabs_.get("to_" + sysname)
        if t is None or t["init"]["k"] != "InitList":
            raise core.AnalysisBroken("table to_%s not found in UnitSystem.cpp" % sysname)
        for i, e in enumerate(t["init"]["c"]):
            if i < len(measures_):
                v = e.get("fv", e.get("v"))
                if v is None:
                    raise core.AnalysisBroken("entry %d of to_%s has no compile-time value" % (i, sysname))
                fac.setdefault(measures_[i], []).append(float(v))

    def meas(e):
        e = strip(e)
        q = e.get("q") or ""
        return q.split("::")[-1] if e.get("k") == "Ref" and "measure::" in q else None

    def conj(cond, pa, pb):
        """[(A, B)] for a condition that is a disjunction of `pa == A && pb == B` (either order)"""
        c = strip(cond)
        if c.get("k") == "Bin" and c.get("op") == "||":
            l, r_ = conj(c["c"][0], pa, pb), conj(c["c"][1], pa, pb)
            return None if l is None or r_ is None else l + r_
        if c.get("k") == "Bin" and c.get("op") == "&&":
            got = {}
            for side in c["c"]:
                x = strip(side)
                if x.get("k") == "Bin" and x.get("op") == "==":
                    u, v = strip(x["c"][0]), strip(x["c"][1])
                    for a_, b_ in ((u, v), (v, u)):
                        if a_.get("k") == "Ref" and a_.get("n") in (pa, pb) and meas(b_):
                            got[a_["n"]] = meas(b_)
            if set(got) == {pa, pb}:
                return [(got[pa], got[pb])]
        return None
    for fname, op in (("mul_unit", "*"), ("div_unit", "/")):
        cand = [f for f in fx.fns if f["n"] == fname and f["file"].endswith("Summary.cpp") and f.get("body") and len(f.get("params") or []) == 2]
        if len(cand) != 1:
            raise core.AnalysisBroken("%s(measure, measure) not found in Summary.cpp" % fname)
        f = cand[0]
        pa, pb = f["params"][0]["n"], f["params"][1]["n"]
        for n in stmt_list(f["body"]):
            if n["k"] != "If" or n.get("else"):
                continue
            rets = [x for x in walk(n["then"]) if x["k"] == "Return" and x.get("e") is not None]
            pairs = conj(n["cond"], pa, pb)
            if len(rets) != 1 or not meas(rets[0]["e"]):
                continue
            if pairs is None:
                # `lhs == rhs -> lhs` and the like: no fixed triple
                continue
            C = meas(rets[0]["e"])
            for A, B in pairs:
                key = "%s(%s,%s)" % (fname, A, B)
                if A not in fac or B not in fac or C not in fac:
                    raise core.AnalysisBroken("%s: measure without factor (%s, %s, %s)" % (fname, A, B, C))
                want = [x * y if op == "*" else x / y for x, y in zip(fac[A], fac[B])]
                bad = [(sn, w, g) for sn, w, g in zip(("METRIC", "FIELD", "LAB", "PVT-M"), want, fac[C]) if abs(w - g) > 1e-9 * max(abs(w), abs(g))]
                dead = op == "/" and B == "time" and C not in ("identity",) and bad and not [c_ for g_ in fx.fns if g_.get("body") and g_["file"].endswith("Summary.cpp") for c_ in walk(g_["body"]) if c_["k"] == "OpCall" and c_.get("op") == "/" and False]
                chk.instance(r_ua, key, sample=dict(branch="%s %s %s -> %s" % (A, op, B, C), consistent=not bad))
                if bad:
                    if op == "/" and B == "time":
                        chk.info(r_ua, "%s: (%s / time -> %s) is not a quotient (it is the tag of a product); no evaluator divides a rate by a duration, reported as information" % (fname, A, C))
                        users = [c_ for g_ in fx.fns if g_.get("body") and g_["file"].endswith("Summary.cpp") for c_ in walk(g_["body"]) if c_["k"] == "Call" and (c_.get("fn") or "").endswith("::div") and any(y["k"] == "Ref" and y["n"] == "duration" for a_ in c_.get("a", [])[1:] for y in walk(a_))]
                        if users:
                            chk.violation(r_ua, key, "%s tags %s / time as %s and an evaluator divides by the step length (line %d): the value is converted with the wrong factor" % (fname, A, C, users[0]["l"]), f["file"], n["l"])
                        continue
                    chk.violation(r_ua, key, "%s tags %s %s %s as %s, but in %s one deck unit of %s is %.6g SI units while %s %s %s gives %.6g: cumulatives built from this product are converted to deck units with the wrong factor (%s)" % (fname, A, op, B, C, bad[0][0], C, 1.0 / bad[0][2] if bad[0][2] else 0, A, op, B, 1.0 / bad[0][1] if bad[0][1] else 0, ", ".join("%s x%.6g" % (sn, g / w) for sn, w, g in bad)), f["file"], n["l"])

    # ---- C09.unit
    r_unit = chk.rule("C09.unit", "every evaluator hands SummaryState a value converted with UnitSystem::from_si (calendar integers excepted)", floor=8)
    CAL = {"Day": "day", "Month": "month", "Year": "year"}
    for fn in fx.fns:
        if fn["n"] != "update" or "Evaluator::" not in fn["q"] or not fn["file"].endswith("Summary.cpp"):
            continue
        cls = fn["cls"].split("::")[-1]
        for n in walk(fn["body"]):
            val = None
            if n["k"] == "Call" and (n.get("fn") or "").endswith("updateValue") and len(n["a"]) == 3:
                val = n["a"][1]
            elif n["k"] == "MCall" and n.get("m") == "update" and n.get("cls") == "Opm::SummaryState" and len(n["a"]) == 2:
                val = n["a"][1]
            if val is None:
                continue
            key = "%s@%s" % (cls, show(n["a"][0])[:30])
            ok = val["k"] == "MCall" and val.get("m") == "from_si" and val.get("cls") == "Opm::UnitSystem"
            why = "from_si"
            if not ok and cls in CAL:
                ok = val["k"] == "MCall" and val.get("m") == CAL[cls]
                why = "calendar integer"
            if not ok and cls == "Years":
                ok = val["k"] == "Call" and (val.get("fn") or "").endswith("convert::to")
                why = "years from seconds"
            if not ok and cls == "UserDefinedValue":
                continue
            chk.instance(r_unit, key, sample=dict(evaluator=cls, value=show(val)[:100], via=why))
            if not ok:
                chk.violation(r_unit, key, "Evaluator::%s::update stores `%s` without converting it with UnitSystem::from_si" % (cls, show(val)[:100]), fn["file"], n["l"])
        if cls == "FunctionRelation":
            # the measure must be the one the function returned, the value the one it returned
            for n in walk(fn["body"]):
                if n["k"] == "MCall" and n.get("m") == "from_si":
                    a = [show(x) for x in n["a"]]
                    chk.instance(r_unit, "FunctionRelation:args", sample=a)
                    if a != ["prm.unit", "prm.value"]:
                        chk.violation(r_unit, "FunctionRelation:args", "FunctionRelation::update converts (%s) instead of (prm.unit, prm.value)" % ", ".join(a), fn["file"], n["l"])

    # ---- C09.efac: who gets efficiency factors
    r_ef = chk.rule("C09.efac", "EfficiencyFactor::setFactors: factors are skipped only for well/connection/segment *rates*; the group's own factor is skipped only for group rates", floor=2)
    sf = fx.fn1("(anonymous namespace)::EfficiencyFactor::setFactors")
    env = local_env(sf)
    want = {"is_field": "(node.category == Opm::EclIO::SummaryNode::Category::Field)",
            "is_group": "(node.category == Opm::EclIO::SummaryNode::Category::Group)",
            "is_region": "(node.category == Opm::EclIO::SummaryNode::Category::Region)",
            "is_rate": "(node.type != Opm::EclIO::SummaryNode::Type::Total)"}
    for k, w in want.items():
        got = show(env.get(k)) if k in env else None
        got = got and re.sub(r"^bool\{(.*)\}$", r"\1", got)
        chk.instance(r_ef, k, sample="%s = %s" % (k, got))
        if got is None:
            raise core.AnalysisBroken("setFactors: local %s vanished" % k)
        if got.replace("{", "").replace("}", "") != w:
            chk.violation(r_ef, k, "setFactors: %s is now %s (was %s)" % (k, got, w), sf["file"], sf["l"])
    ifs = [n for n in stmt_list(sf["body"]) if n["k"] == "If"]
    g0 = show(ifs[0]["cond"]) if ifs else ""
    chk.instance(r_ef, "early-return", sample=g0)
    if g0 != "((((!is_field) && (!is_group)) && (!is_region)) && is_rate)" or not exits(ifs[0]["then"], ("Return",)):
        chk.violation(r_ef, "early-return", "setFactors: the early return is no longer `!field && !group && !region && is_rate`: %s" % g0, sf["file"], ifs[0]["l"] if ifs else sf["l"])
    brk = [n for n in walk(sf["body"]) if n["k"] == "If" and exits(n["then"], ("Break",))]
    b0 = show(brk[0]["cond"]) if brk else ""
    chk.instance(r_ef, "own-group-break", sample=b0)
    if len(brk) != 1 or b0 != "((is_group && is_rate) && (group_ptr.name() == node.wgname))":
        chk.violation(r_ef, "own-group-break", "setFactors: the walk up the group tree no longer stops exactly at (group rate, own group): %s" % b0, sf["file"], sf["l"])
    muls = [show(n) for n in walk(sf["body"]) if n["k"] == "Bin" and n["op"] == "*=" and "eff_factor" in show(n["c"][0])]
    chk.instance(r_ef, "accumulate", sample=muls)
    if muls != ["(eff_factor *= group_ptr.getGroupEfficiencyFactor())"] or "well.getEfficiencyFactor()" not in show(env.get("eff_factor")):
        chk.violation(r_ef, "accumulate", "setFactors: the factor is no longer well factor x product of group factors along the path: %s" % muls, sf["file"], sf["l"])

    # ---- C09.accum: how SummaryState stores an increment or a value
    r_ac = chk.rule("C09.accum", "every SummaryState::update* stores a total by ADDING the increment (+=) and any other vector by ASSIGNING the value, decided by is_total(<the keyword>), and does so on every storage it keeps for the key (the flat map and the per-well / group / connection / segment / region map alike)", floor=5)
    for f in fx.fns:
        if f.get("cls") != "Opm::SummaryState" or not f.get("body") or not f["n"].startswith("update") or f["n"] in ("update_elapsed", "update_udq"):
            continue
        refs_ = [v["n"] for n in stmt_list(f["body"]) if n["k"] == "Decl" for v in n["vars"] if v.get("ref") and isinstance(v.get("init"), dict) and any(x.get("k") == "Mem" and x.get("n", "").endswith("values") for x in walk(v["init"]))]
        iffs_ = [n for n in stmt_list(f["body"]) if n["k"] == "If" and any(x["k"] in ("Call", "MCall") and (x.get("fn") or "").endswith("is_total") for x in walk(n["cond"]))]
        if not refs_ and not iffs_:
            continue
        key = f["n"]
        ok = False
        det = dict(storages=refs_)
        if len(iffs_) == 1 and iffs_[0].get("else") is not None and refs_:
            c = strip(iffs_[0]["cond"])
            positive = c.get("k") in ("Call", "MCall")
            plus = sorted(strip(x["c"][0]).get("n") for x in walk(iffs_[0]["then"]) if x["k"] == "Bin" and x.get("op") == "+=")
            other_then = [x.get("op") for x in walk(iffs_[0]["then"]) if x["k"] == "Bin" and x.get("asg") and x.get("op") != "+="]
            asg = sorted({strip(x["c"][0]).get("n") for x in walk(iffs_[0]["else"]) if x["k"] == "Bin" and x.get("op") == "="})
            other_else = [x.get("op") for x in walk(iffs_[0]["else"]) if x["k"] == "Bin" and x.get("asg") and x.get("op") != "="]
            vals = {show(strip(x["c"][1])) for x in walk(iffs_[0]) if x["k"] == "Bin" and x.get("asg") and strip(x["c"][1]).get("k") == "Ref"}
            det.update(total_branch_adds=plus, other_branch_assigns=asg, value=sorted(vals))
            ok = positive and plus == sorted(refs_) and asg == sorted(refs_) and not other_then and not other_else and vals == {f["params"][-1]["n"]}
        chk.instance(r_ac, key, sample=det)
        if not ok:
            chk.violation(r_ac, key, "SummaryState::%s must add the value to every one of its storages %s when is_total(keyword) holds and assign it to every one of them otherwise; found %s: a cumulative would be overwritten, a rate accumulated, or the two storages of one key diverge" % (f["n"], refs_, det), f["file"], f["l"])

    # ---- C09.tree: which wells a vector aggregates, and where its value goes
    r_tr = chk.rule("C09.tree", "Summary.cpp: find_wells picks the wells of a vector by its category - the named well for well/connection/completion/segment vectors, all wells below the named group (breadth-first over the group tree from index 0, a well group contributes all its wells, any other group all its child groups) for group vectors, every well for field vectors, the wells connected in the region for region vectors; efac() looks a factor up by name and falls back to 1; updateValue stores the value in the SummaryState slot of the vector's category (well, group/node, connection, segment, region, general) with name, keyword and number of the node", floor=14)
    sm = chk.facts(["opm/output/eclipse/Summary.cpp"])

    def one(name):
        c = [f for f in sm.fns if f["n"] == name and f.get("body") and f["file"].endswith("Summary.cpp")]
        if len(c) != 1:
            raise core.AnalysisBroken("Summary.cpp: %s: %d definitions" % (name, len(c)))
        return c[0]

    def switch_table(f):
        sws = [n for n in walk(f["body"]) if n["k"] == "Switch"]
        if len(sws) != 1:
            raise core.AnalysisBroken("%s: one switch expected" % f["q"])
        table, labels, cur = {}, [], None
        for st_ in sws[0]["body"]["c"]:
            x = st_
            new_labels = []
            while x.get("k") in ("Case", "Default"):
                new_labels.append(strip(x["v"]).get("n") if x["k"] == "Case" else "default")
                x = x.get("sub") or {"k": "Null_"}
            while x.get("k") == "Attributed" and x.get("sub"):
                x = x["sub"]
            if new_labels:
                if cur is None or cur["closed"]:
                    cur = dict(labels=[], stmts=[], closed=False)
                    labels.append(cur)
                cur["labels"] += new_labels
            if cur is None:
                continue
            if x.get("k") in ("Break",):
                cur["closed"] = True
            elif x.get("k") in ("Return", "Throw"):
                cur["stmts"].append(show(x))
                cur["closed"] = True
            elif x.get("k") not in ("Null_", None):
                cur["stmts"].append(show(x))
        for g in labels:
            for l_ in g["labels"]:
                table[l_] = g["stmts"]
        return table, show(sws[0]["cond"])

    def tr_clause(key, f, ok, found, want, line=None):
        chk.instance(r_tr, key, sample=dict(found=found))
        if not ok:
            chk.violation(r_tr, key, "%s: %s; required: %s" % (f["q"].split("::")[-1], found, want), f["file"], line or f["l"])
    fw = one("find_wells")
    tb, cnd = switch_table(fw)
    sched_p, node_p, step_p, rc_p = [p_["n"] for p_ in fw["params"]]
    WANT_FW = {"Well": "find_single_well(%s, %s.wgname, %s)" % (sched_p, node_p, step_p), "Connection": None, "Completion": None, "Segment": None,
               "Group": "find_group_wells(%s, %s.wgname, %s)" % (sched_p, node_p, step_p), "Field": "find_field_wells(%s, %s)" % (sched_p, step_p),
               "Region": "find_region_wells(%s, %s, %s, %s)" % (sched_p, node_p, step_p, rc_p)}
    for lab in ("Connection", "Completion", "Segment"):
        WANT_FW[lab] = WANT_FW["Well"]
    for lab, want in WANT_FW.items():
        got = [re.sub(r"\(anonymous namespace\)::", "", t) for t in tb.get(lab, [])]
        tr_clause("find_wells:" + lab, fw, got == ["return %s;" % want] and cnd == "%s.category" % node_p, got, "return %s" % want)
    for lab in ("Aquifer", "Block", "Node", "Miscellaneous"):
        got = tb.get(lab, [])
        tr_clause("find_wells:" + lab, fw, len(got) == 1 and got[0].startswith("return") and "find_" not in got[0], got, "no wells")
    fg = one("find_group_wells")
    sp, gp, tp = [p_["n"] for p_ in fg["params"]]
    inl_g = Inliner(fg)
    loops_g = [n for n in stmt_list(fg["body"]) if n["k"] == "For"]
    decl_g = {v["n"]: show(v.get("init")) for n in stmt_list(fg["body"]) if n["k"] == "Decl" for v in n["vars"]}
    queue = [k_ for k_, v in decl_g.items() if re.search(r"vector<std::string>\{\{?%s\}?(, <default>)?\}$" % re.escape(gp), v)]
    outv = [k_ for k_, v in decl_g.items() if v.endswith("vector<const Opm::Well *>{}")]
    okq = len(queue) == 1 and len(outv) == 1 and len(loops_g) == 1
    tr_clause("find_group_wells:queue", fg, okq, decl_g, "a work list that starts as {group name} and an empty result")
    if okq:
        q_, o_ = queue[0], outv[0]
        lp = loops_g[0]
        iv = lp["init"]["vars"][0]["n"]
        st0 = sy.Eval(lambda e: sy.S("n") if e.get("k") in ("MCall", "Call") else None, set()).term(lp["init"]["vars"][0]["init"], {})
        tr_clause("find_group_wells:loop", fg, st0 == sy.I(0) and show(lp["cond"]) == "(%s < %s.size())" % (iv, q_) and show(lp.get("inc")) in ("(++%s)" % iv, "(%s++)" % iv), "for (%s = %s; %s; %s)" % (iv, show(lp["init"]["vars"][0]["init"]), show(lp["cond"]), show(lp.get("inc"))), "index from 0 while < worklist.size(), step 1 (the list grows while it is walked)", lp["l"])
        body_g = stmt_list(lp["body"])
        ifs_g = [n for n in body_g if n["k"] == "If"]
        gdecl = {v["n"]: show(strip(v["init"])) for n in body_g if n["k"] == "Decl" for v in n["vars"] if isinstance(v.get("init"), dict)}
        gv = [k_ for k_, v in gdecl.items() if v == "%s[%s].groups.get(%s[%s])" % (sp, tp, q_, iv) or re.fullmatch(r"\w+\.groups\.get\(%s\[%s\]\)" % (q_, iv), v)]
        okb = len(ifs_g) == 1 and len(gv) == 1
        if okb:
            g_ = gv[0]
            iff = ifs_g[0]
            th, el = show(iff["then"]), show(iff.get("else")) if iff.get("else") is not None else ""
            okb = (show(strip(iff["cond"])) == "%s.wellgroup()" % g_ and "std::transform(%s.wells().begin(), %s.wells().end(), std::back_inserter(%s)" % (g_, g_, o_) in th
                   and re.search(r"%s\.insert\((?:[\w:<>, ]*\{)?%s\.end\(\)\}?, (\w+)\.begin\(\), \1\.end\(\)\)" % (q_, q_), el) is not None and "%s.groups()" % g_ in el)
        tr_clause("find_group_wells:step", fg, okb, [show(x)[:200] for x in ifs_g], "group = groups.get(worklist[i]); if (group.wellgroup()) append all group.wells() to the result, else append all group.groups() to the end of the work list", lp["l"])
        tail_g = [show(x) for x in stmt_list(fg["body"])[-2:]]
        tr_clause("find_group_wells:result", fg, len(tail_g) == 2 and tail_g[1] == "return %s;" % o_ and "sort_wells_by_insert_index(%s)" % o_ in tail_g[0], tail_g, "sorted by insertion index and returned")
    ff = one("find_field_wells")
    ft = show(ff["body"])
    fdecl = {v["n"]: show(strip(v["init"])) for n in stmt_list(ff["body"]) if n["k"] == "Decl" for v in n["vars"] if isinstance(v.get("init"), dict)}
    wl = [k_ for k_, v in fdecl.items() if v.endswith("].wells")]
    ks = [k_ for k_, v in fdecl.items() if wl and v == "%s.keys()" % wl[0]]
    tr_clause("find_field_wells", ff, len(wl) == 1 and len(ks) == 1 and "std::transform(%s.begin(), %s.end(), std::back_inserter(" % (ks[0], ks[0]) in ft, ft[:300], "every key of the step's well map is transformed into the result")
    so = one("sort_wells_by_insert_index")
    lam = [x for x in walk(so["body"]) if x["k"] == "Lambda"]
    cmp_t = ""
    if len(lam) == 1 and len(lam[0].get("params") or []) == 2:
        a_, b_ = [p_["n"] for p_ in lam[0]["params"]]
        rr = [n for n in walk(lam[0]["body"]) if n["k"] == "Return"]
        cmp_t = show(rr[0]["e"]) if len(rr) == 1 else ""
        okc = cmp_t in ("(%s.seqIndex() < %s.seqIndex())" % (a_, b_), "(%s.seqIndex() > %s.seqIndex())" % (b_, a_), "(%s.seqIndex() <= %s.seqIndex())" % (a_, b_))
    else:
        okc = False
    tr_clause("sort_wells_by_insert_index", so, okc, cmp_t, "ascending Well::seqIndex()")
    ef = one("efac")
    lam = [x for x in walk(ef["body"]) if x["k"] == "Lambda"]
    lt = show(lam[0]["body"]) if len(lam) == 1 else ""
    lp_ = lam[0]["params"][0]["n"] if len(lam) == 1 and lam[0].get("params") else "?"
    rets_e = [show(n["e"]) for n in walk(ef["body"], skip_lambda=True) if n["k"] == "Return" and isinstance(n.get("e"), dict)]
    lst_p, nm_p = [p_["n"] for p_ in ef["params"]]
    oke = lt == "{ return (%s.first == %s); }" % (lp_, nm_p) and len(rets_e) == 1 and re.fullmatch(r"\(\((\w+) != %s\.end\(\)\) \? \(?->?\(?\1\)?\)?\.second : 1(\.0)?\)" % lst_p, rets_e[0]) is not None
    tr_clause("efac", ef, oke, "%s | %s" % (lt, rets_e), "find the pair whose first == name; its second if found, else 1.0")
    uv = one("updateValue")
    tb, cnd = switch_table(uv)
    np_, vp_, stp_ = [p_["n"] for p_ in uv["params"]]
    WANT_UV = {"Well": "%s.update_well_var(%s.wgname, %s.keyword, %s)" % (stp_, np_, np_, vp_), "Group": "%s.update_group_var(%s.wgname, %s.keyword, %s)" % (stp_, np_, np_, vp_),
               "Connection": "%s.update_conn_var(%s.wgname, %s.keyword, %s.number, %s)" % (stp_, np_, np_, np_, vp_), "Segment": "%s.update_segment_var(%s.wgname, %s.keyword, %s.number, %s)" % (stp_, np_, np_, np_, vp_),
               "default": "%s.update(%s.unique_key(), %s)" % (stp_, np_, vp_)}
    WANT_UV["Node"] = WANT_UV["Group"]
    for lab, want in WANT_UV.items():
        got = tb.get(lab, [])
        tr_clause("updateValue:" + lab, uv, got == [want] and cnd == "%s.category" % np_, got, want)
    gotr = tb.get("Region", [])
    tr_clause("updateValue:Region", uv, len(gotr) == 1 and gotr[0].startswith("%s.update_region_var(" % stp_) and gotr[0].endswith(", %s.keyword, %s.number, %s)" % (np_, np_, vp_)) and "%s.fip_region" % np_ in gotr[0], gotr, "st.update_region_var(<region set of the node>, node.keyword, node.number, value)")

    # ---- C09.step: what is evaluated for a step is read from the schedule at that step
    r_sp = chk.rule("C09.step", "Summary.cpp: a function that evaluates a report step - it receives the step as a parameter and reads the Schedule at it (schedule[step], getWell(name, step), hasWell(name, step)) - takes every well and group from that step: none of its statements (lambdas included) asks the Schedule for its end-of-run objects (getWellatEnd, getWellsatEnd, back()); the group walk turns a well name into the Well of the step's state", floor=5)
    for f in sm.fns:
        if not f.get("body") or not f["file"].endswith("Summary.cpp"):
            continue
        steps = {p_["n"] for p_ in f["params"] if p_.get("n") and re.search(r"\b(int|size_t|unsigned|long)\b", p_.get("t") or "") and "&" not in (p_.get("t") or "")}
        sched = {p_["n"] for p_ in f["params"] if "Schedule" in (p_.get("t") or "") and "ScheduleState" not in (p_.get("t") or "")}
        if not steps or not sched:
            continue
        at_step = [n for n in walk(f["body"]) if ((n["k"] in ("Idx", "OpCall") and show(strip((n.get("c") or n.get("a") or [{}])[0])) in sched and strip((n.get("c") or n.get("a"))[1]).get("n") in steps)
                                                   or (n["k"] == "MCall" and show(strip(n.get("obj") or {})) in sched and any(strip(a_).get("n") in steps for a_ in n.get("a") or [])))]
        if not at_step:
            continue
        ends = [n for n in walk(f["body"]) if (n["k"] == "MCall" and show(strip(n.get("obj") or {})) in sched and n.get("m") in ("getWellatEnd", "getWellsatEnd", "back", "getGroupatEnd"))
                or (n["k"] in ("Call", "MCall") and (n.get("m") or (n.get("fn") or "").split("::")[-1]) in ("getWellatEnd", "getWellsatEnd", "getGroupatEnd"))]
        ends = list({id(n): n for n in ends}.values())
        chk.instance(r_sp, f["q"] + "@%d" % f["l"], sample=dict(function=f["q"], reads_at_step=len(at_step), end_of_run_reads=[show(n)[:60] for n in ends]))
        for n in ends:
            chk.violation(r_sp, "%s:%s" % (f["q"], n.get("m")), "%s evaluates step `%s` but reads `%s`: the object of the LAST report step - its efficiency factor, observed rates, status - enters the vectors of an earlier step, so group values no longer equal the sum over their wells at that time" % (f["q"], sorted(steps)[0], show(n)[:80]), f["file"], n["l"])

    # ---- C09.phase: the history rates a well reports per phase
    r_ph = chk.rule("C09.phase", "Well::injection_rate / Well::production_rate (the observed rates behind the ...H history vectors): a query for phase P on an injector answers 0 unless the injector's type is the type of the same name (WATER/WATER, OIL/OIL, GAS/GAS), for each of the three phases; production_rate returns the control's water_rate / oil_rate / gas_rate for WATER / OIL / GAS; an undefined value reads as 0", floor=6)
    wx = chk.facts(["opm/input/eclipse/Schedule/Well/Well.cpp"])
    ir = [f for f in wx.fns if f["n"] == "injection_rate" and (f.get("cls") or "").endswith("Opm::Well") and f.get("body")]
    pr = [f for f in wx.fns if f["n"] == "production_rate" and (f.get("cls") or "").endswith("Opm::Well") and f.get("body")]
    if len(ir) != 1 or len(pr) != 1:
        raise core.AnalysisBroken("Well::injection_rate / production_rate not found")
    ir, pr = ir[0], pr[0]
    php = [p_["n"] for p_ in ir["params"] if p_["t"].endswith("Phase")][0]
    seen_ph = {}
    for n in stmt_list(ir["body"]):
        if n["k"] != "If" or not any(x["k"] == "Return" for x in walk(n["then"])):
            continue
        cj = []

        def conj(c):
            c = strip(c)
            if c.get("k") == "Bin" and c.get("op") == "&&":
                conj(c["c"][0])
                conj(c["c"][1])
            else:
                cj.append(c)
        conj(n["cond"])
        ph = [strip(c["c"][1]).get("n") for c in cj if c.get("k") == "Bin" and c.get("op") == "==" and show(strip(c["c"][0])) == php and strip(c["c"][1]).get("d") == "Enum"]
        ty = [(c.get("op"), strip(c["c"][1]).get("n")) for c in cj if c.get("k") == "Bin" and c.get("op") in ("!=", "==") and "InjectorType" in (strip(c["c"][1]).get("q") or "")]
        if len(ph) == 1:
            ret = [show(x.get("e")) for x in walk(n["then"]) if x["k"] == "Return"]
            seen_ph[ph[0]] = (ty, ret, n["l"])
    for P in ("WATER", "OIL", "GAS"):
        ty, ret, ln = seen_ph.get(P, ([], [], ir["l"]))
        chk.instance(r_ph, "injection_rate:" + P, sample=dict(phase=P, type_test=ty, returns=ret))
        if ty != [("!=", P)] or ret not in (["0"], ["0.0"]):
            chk.violation(r_ph, "injection_rate:" + P, "Well::injection_rate: a query for phase %s returns %s under the injector-type test %s; required: 0 when the type is not InjectorType::%s - otherwise the %s history vectors (W%sIRH, G%sITH, ...) show the rate of wells that inject another fluid" % (P, ret, ty, P, P.lower(), P[0], P[0]), ir["file"], ln)
    tbp, cndp = switch_table(pr)
    for P, mem in (("WATER", "water_rate"), ("OIL", "oil_rate"), ("GAS", "gas_rate")):
        got = tbp.get(P, [])
        chk.instance(r_ph, "production_rate:" + P, sample=dict(phase=P, returns=got))
        if len(got) != 1 or not re.search(r"\.%s\)" % mem, got[0]) or any(m_ in got[0] for m_ in ("water_rate", "oil_rate", "gas_rate") if m_ != mem):
            chk.violation(r_ph, "production_rate:" + P, "Well::production_rate: phase %s returns `%s`; required the control's %s" % (P, got, mem), pr["file"], pr["l"])

    # SummaryState: elapsed time and the route of UDQ results into the per-category slots
    ss = chk.facts(["opm/input/eclipse/Schedule/SummaryState.cpp"])
    ue = [f for f in ss.fns if f["n"] == "update_elapsed" and f.get("body")]
    uu = [f for f in ss.fns if f["n"] == "update_udq" and f.get("body")]
    if len(ue) != 1 or len(uu) != 1:
        raise core.AnalysisBroken("SummaryState::update_elapsed / update_udq not found")
    ue, uu = ue[0], uu[0]
    et = [show(x) for x in stmt_list(ue["body"])]
    tr_clause("update_elapsed", ue, et == ["(this.elapsed += %s)" % ue["params"][0]["n"]], et, "elapsed += delta")
    up = uu["params"][0]["n"]
    chain = {}
    node = [n for n in stmt_list(uu["body"]) if n["k"] == "If"]
    cur = node[0] if len(node) == 1 else None
    vt = [v["n"] for n in stmt_list(uu["body"]) if n["k"] == "Decl" for v in n["vars"] if show(v.get("init")) == "%s.var_type()" % up]
    while cur is not None and cur.get("k") == "If":
        c = strip(cur["cond"])
        lab = strip(c["c"][1]).get("n") if c.get("k") == "Bin" and c.get("op") == "==" and vt and show(strip(c["c"][0])) == vt[0] else show(c)
        chain[lab] = cur["then"]
        nxt = cur.get("else")
        if isinstance(nxt, dict) and nxt.get("k") == "Block" and len(stmt_list(nxt)) == 1 and stmt_list(nxt)[0].get("k") == "If":
            nxt = stmt_list(nxt)[0]
        if isinstance(nxt, dict) and nxt.get("k") != "If":
            chain["else"] = nxt
            nxt = None
        cur = nxt
    WANT_UU = {"WELL_VAR": "this.update_well_var($v.wgname(), %s.name(), $v.value().value_or(this.udq_undefined))" % up,
               "GROUP_VAR": "this.update_group_var($v.wgname(), %s.name(), $v.value().value_or(this.udq_undefined))" % up,
               "SEGMENT_VAR": "this.update_segment_var($v.wgname(), %s.name(), $v.number(), $v.value().value_or(this.udq_undefined))" % up}
    for lab, want in WANT_UU.items():
        br = chain.get(lab)
        got = None
        if br is not None:
            lps = [n for n in stmt_list(br) if n["k"] == "ForRange" and show(n["range"]) == up]
            if len(lps) == 1 and len(stmt_list(br)) == 1:
                got = [re.sub(r"(?<![\w.$])%s\b" % re.escape(lps[0]["var"]["n"]), "$v", show(x)) for x in stmt_list(lps[0]["body"])]
        tr_clause("update_udq:" + lab, uu, got == [want], got, "for every element v of the set: " + want)
    br = chain.get("else")
    got = None
    if br is not None:
        inl_u = Inliner(uu)
        got = [inl_u.render(x, roles={up: "S"}) for x in stmt_list(br) if x["k"] != "Decl"]
    tr_clause("update_udq:scalar", uu, got == ["this.update($S.name(), $S[0].value().value_or(this.udq_undefined))"], got, "update(name, first element's value or the undefined value)")

    # ---- C09.tstep: the time axis advances by the TSTEP entries in the deck's own time unit
    r_tp = chk.rule("C09.tstep", "ScheduleDeck::add_TSTEP advances the running time by getSIDouble of each TSTEP entry (TSTEP has the Time dimension: days, but hours in LAB units); the raw number (get<double>) is used for the negative-value test and the message only - a step length computed from it makes TIME, the calendar vectors and every cumulative total of a LAB deck 24 times too large", floor=2)
    tdx = chk.facts(["opm/input/eclipse/Schedule/ScheduleDeck.cpp"])
    atf = [f for f in tdx.fns if f["q"] == "Opm::ScheduleDeck::add_TSTEP" and f.get("body")]
    if len(atf) != 1:
        raise core.AnalysisBroken("ScheduleDeck::add_TSTEP: %d definitions" % len(atf))
    atf = atf[0]
    adv = [n for n in walk(atf["body"]) if n.get("k") in ("Decl",) and any("last_time" in show(v.get("init") or {}) for v in n["vars"])]
    raw_locals = {v["n"] for n in walk(atf["body"]) if n.get("k") == "Decl" for v in n["vars"] if isinstance(v.get("init"), dict) and any(x.get("k") == "MCall" and x.get("m") == "get" and (x.get("targs") or [""])[0] == "double" for x in walk(v["init"]))}
    okt = False
    det9 = [show(n)[:260] for n in adv]
    if len(adv) == 1:
        t_ = show(adv[0])
        uses_raw = any(re.search(r"(?<![\w.])%s\b" % re.escape(r_), t_) for r_ in raw_locals) or ".get(" in t_
        okt = "getSIDouble(" in t_ and not uses_raw
    chk.instance(r_tp, "advance", sample=dict(statement=det9, raw_locals=sorted(raw_locals)))
    if not okt:
        chk.violation(r_tp, "advance", "ScheduleDeck::add_TSTEP computes the next report time as %s; the step length must be the SI value of the entry (getSIDouble), not the deck number" % det9, atf["file"], adv[0]["l"] if adv else atf["l"])
    blk = [n for n in walk(atf["body"]) if n.get("k") == "MCall" and n.get("m") == "add_block"]
    chk.instance(r_tp, "block", sample=dict(calls=[show(n)[:120] for n in blk]))
    if len(blk) != 1:
        chk.violation(r_tp, "block", "ScheduleDeck::add_TSTEP must open exactly one block per TSTEP entry (found %d add_block calls)" % len(blk), atf["file"], atf["l"])

    from verif import fallthrough
    fallthrough.run(chk, "C09", floor=40)
    from verif import argorder
    argorder.run(chk, "C09", floor=100)

    chk.assumptions += [
        "the mnemonic grammar in rules/C09.py encodes the documented Eclipse naming of summary vectors",
        "tables/c09_rate_units.json: phase -> unit pairing confirmed by reading",
        "numeric accumulation and traversal of a concrete group tree are not decided",
    ]
