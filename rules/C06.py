"""C06  Peaceman relation for COMPDAT — three structural clauses (claimed narrowly).

Decides: (a) dimensional homogeneity of every assignment to a CTF quantity and of the Peaceman helpers
(C06.dim); (b) re-entering COMPDAT for an existing cell replaces that connection in place and carries
completion number, sort value, segment and perforation range over (C06.replace); (c) every function that
rebuilds a well's connection set visits every connection and adds each exactly once, in order, matching or
not (C06.rebuild).  NOT decided: the numeric relation CF (ln(r0/rw) + S) = 2 pi Kh, the constant 0.28, the
direction permutation, equality of explicit and computed values - a dimensionally consistent wrong formula
passes.
"""
import json
import os
import re
from fractions import Fraction

from verif import core
from verif.tree import walk, walk_fn, show, stmt_list, meth, strip

LEVEL = "other"
WC = "opm/input/eclipse/Schedule/Well/WellConnections.cpp"
WELL = "opm/input/eclipse/Schedule/Well/Well.cpp"
CONN = "opm/input/eclipse/Schedule/Well/Connection.cpp"
RST = "opm/io/eclipse/rst/connection.cpp"

# base dimensions (L, M, T) of the named unit dimensions used by COMPDAT / COMPTRAJ items
BASE = {"1": (0, 0, 0), "Length": (1, 0, 0), "Time": (0, 0, 1), "Pressure": (-1, 1, -2), "Viscosity": (-1, 1, -1),
        "Permeability": (2, 0, 0), "ReservoirVolume": (3, 0, 0), "GasSurfaceVolume": (3, 0, 0), "LiquidSurfaceVolume": (3, 0, 0)}
ANY = "any"      # numeric literals / sentinels
L1, L2, L3, ONE = (1, 0, 0), (2, 0, 0), (3, 0, 0), (0, 0, 0)
FIELDS = {"CF": L3, "Kh": L3, "Ke": L2, "rw": L1, "r0": L1, "re": L1, "connection_length": L1, "skin_factor": ONE, "peaceman_denom": ONE}
CELL = {"dimensions": L1, "permx": L2, "permy": L2, "permz": L2, "ntg": ONE, "poro": ONE, "depth": L1}


def dim_of_string(s):
    num, _, den = s.partition("/")
    d = [Fraction(0)] * 3
    for part, sg in ((num, 1), (den, -1)):
        for t in [x for x in part.split("*") if x]:
            if t not in BASE:
                return None
            for i in range(3):
                d[i] += sg * BASE[t][i]
    return tuple(d)


def dmul(a, b, sg=1):
    if a is None or b is None:
        return None
    if a == ANY:
        return b if sg == 1 else tuple(-x for x in b) if b != ANY else ANY
    if b == ANY:
        return a
    return tuple(Fraction(x) + sg * Fraction(y) for x, y in zip(a, b))


def dscale(a, q):
    if a in (None, ANY):
        return a
    return tuple(Fraction(x) * q for x in a)


def dshow(d):
    if d in (None, ANY):
        return str(d)
    names = ["L", "M", "T"]
    s = "*".join("%s^%s" % (n, e) for n, e in zip(names, d) if e != 0)
    return s or "1"


class Dims:
    def __init__(self, fn, items, chk, rule, params=None):
        self.fn, self.items, self.chk, self.rule = fn, items, chk, rule
        self.env = dict(params or {})
        self.checked = 0

    def bad(self, n, msg):
        self.chk.violation(self.rule, "%s:%s" % (self.fn["n"], re.sub(r"\W+", "_", msg)[:60]), "%s: %s" % (self.fn["q"], msg), self.fn["file"], n.get("l"))

    def dim(self, e):
        e = strip(e)
        k = e["k"]
        if k in ("Int", "Flt"):
            return ANY
        if k == "Ref":
            if e["n"] in self.env:
                return self.env[e["n"]]
            q = e.get("q") or ""
            if q.startswith("Opm::unit::") and q.split("::")[-1] in ("feet", "meter", "inch"):
                return L1
            return None
        if k in ("Mem", "DMem"):
            if e["n"] in FIELDS and "ctf" in show(e.get("b")).lower():
                return FIELDS[e["n"]]
            if e["n"] in FIELDS and (e.get("cls") or "").endswith("CTFProperties"):
                return FIELDS[e["n"]]
            if e["n"] in CELL:
                return CELL[e["n"]]
            return None
        if k in ("Idx",):
            return self.dim(e["c"][0])
        if k == "OpCall" and e["op"] == "[]":
            return self.dim(e["a"][0])
        if k == "Un" and e["op"] in ("-", "+"):
            return self.dim(e["c"][0])
        if k == "Cond":
            a, b = self.dim(e["c"][1]), self.dim(e["c"][2])
            return a if a not in (None, ANY) else b
        if k == "Bin":
            op = e["op"]
            a, b = self.dim(e["c"][0]), self.dim(e["c"][1])
            if op == "*":
                return dmul(a, b, 1)
            if op == "/":
                return dmul(a, b, -1)
            if op in ("+", "-"):
                self.same(e, a, b, "operands of `%s`" % show(e)[:70])
                return a if a not in (None, ANY) else b
            if op in ("<", ">", "<=", ">=", "==", "!="):
                self.same(e, a, b, "compared quantities in `%s`" % show(e)[:70])
                return ONE
            if op in ("&&", "||"):
                return ONE
            return None
        if k == "InitList":
            ds = [self.dim(x) for x in e.get("c", [])]
            known = [d for d in ds if d not in (None, ANY)]
            return known[0] if known and all(d == known[0] for d in known) else None
        if k in ("Ctor",) and len(e.get("a", [])) == 1:
            return self.dim(e["a"][0])
        if k in ("Call", "MCall"):
            fn = (e.get("fn") or show(e.get("callee"))).split("::")[-1]
            args = e.get("a", [])
            if fn == "getSIDouble":
                it = [x["v"] for x in walk(e.get("obj") or {}) if x["k"] == "Str"]
                if not it:
                    it = [self.itemvars.get(x["n"]) for x in walk(e.get("obj") or {}) if x["k"] == "Ref" and x["n"] in getattr(self, "itemvars", {})]
                if it and it[0] in self.items:
                    return self.items[it[0]]
                return None
            if fn == "sqrt":
                return dscale(self.dim(args[0]), Fraction(1, 2))
            if fn == "pow" and len(args) == 2 and strip(args[1])["k"] in ("Int", "Flt"):
                return dscale(self.dim(args[0]), Fraction(strip(args[1])["v"]))
            if fn in ("log", "exp", "log10"):
                d = self.dim(args[0])
                if d not in (None, ANY, ONE) and tuple(d) != ONE:
                    self.bad(e, "argument of %s, `%s`, has dimension %s; it must be dimensionless" % (fn, show(args[0])[:60], dshow(d)))
                return ONE
            if fn in ("min", "max", "fabs", "abs"):
                ds = [self.dim(a) for a in args]
                if len(ds) == 2:
                    self.same(e, ds[0], ds[1], "arguments of %s" % fn)
                known = [d for d in ds if d not in (None, ANY)]
                return known[0] if known else None
            if fn == "effectiveRadius":
                return L1
            if fn == "peacemanDenominator":
                return ONE
            if fn == "effectiveExtent":
                return L1
            if fn == "permComponents":
                return L2
            if fn == "inverse_peaceman":
                want = [L3, L3, L1, ONE]
                for a, w in zip(args, want):
                    d = self.dim(a)
                    if d not in (None, ANY) and tuple(d) != w:
                        self.bad(e, "inverse_peaceman(cf, kh, rw, skin) is called with `%s` of dimension %s where %s is expected" % (show(a)[:40], dshow(d), dshow(w)))
                return L1
            return None
        return None

    def same(self, n, a, b, what):
        if a in (None, ANY) or b in (None, ANY):
            return
        self.checked += 1
        if tuple(a) != tuple(b):
            self.bad(n, "%s have different dimensions: %s vs %s" % (what, dshow(a), dshow(b)))

    def run(self):
        self.itemvars = {}
        for n in walk_fn(self.fn):
            if n["k"] == "Decl":
                for v in n["vars"]:
                    init = v.get("init")
                    if init is None:
                        continue
                    # `const auto& KhItem = record.getItem("Kh")`
                    i0 = strip(init)
                    if i0["k"] == "MCall" and i0.get("m") == "getItem":
                        s = [x["v"] for x in walk(i0) if x["k"] == "Str"]
                        if s:
                            self.itemvars[v["n"]] = s[0]
                        continue
                    d = self.dim(init)
                    if d not in (None,):
                        self.env[v["n"]] = d
            elif n["k"] == "Bin" and n.get("asg"):
                lhs, rhs = n["c"]
                a, b = self.dim(lhs), self.dim(rhs)
                if n["op"] == "=":
                    if a not in (None, ANY) and b not in (None, ANY):
                        self.checked += 1
                        self.chk.instance(self.rule, "%s:%s@%s" % (self.fn["n"], show(lhs)[:30], n["l"]), sample=dict(function=self.fn["n"], assignment=show(n)[:90], lhs=dshow(a), rhs=dshow(b)))
                        if tuple(a) != tuple(b):
                            self.bad(n, "`%s` (%s) is assigned `%s` of dimension %s" % (show(lhs)[:40], dshow(a), show(rhs)[:70], dshow(b)))
                    elif a in (None,) and strip(lhs)["k"] == "Ref" and b is not None:
                        self.env[strip(lhs)["n"]] = b
                elif n["op"] in ("*=", "/="):
                    if a not in (None, ANY) and b not in (None, ANY, ONE) and tuple(b) != ONE:
                        self.checked += 1
                        self.bad(n, "`%s` (%s) is scaled in place by `%s` of dimension %s" % (show(lhs)[:40], dshow(a), show(rhs)[:50], dshow(b)))
                elif n["op"] in ("+=", "-="):
                    self.same(n, a, b, "operands of `%s`" % show(n)[:60])
            elif n["k"] == "Return" and n.get("e") is not None and self.ret is not None:
                d = self.dim(n["e"])
                if d not in (None, ANY):
                    self.checked += 1
                    self.chk.instance(self.rule, "%s:return@%s" % (self.fn["n"], n["l"]), sample=dict(function=self.fn["n"], returns=show(n["e"])[:90], dim=dshow(d), expected=dshow(self.ret)))
                    if tuple(d) != tuple(self.ret):
                        self.bad(n, "returns `%s` of dimension %s; the function yields %s" % (show(n["e"])[:70], dshow(d), dshow(self.ret)))
    ret = None


def run(chk):
    fx = chk.facts([WC, WELL, CONN, RST])
    kwroot = os.path.join(chk.root if os.path.isdir(os.path.join(chk.root, "opm/input/eclipse/share/keywords")) else core.REPO, "opm/input/eclipse/share/keywords")
    items = {}
    for kw in ("000_Eclipse100/C/COMPDAT", "900_OPM/C/COMPTRAJ"):
        p = os.path.join(kwroot, kw)
        if not os.path.exists(p):
            continue
        d = json.loads(re.sub(r"(\d)\.([eE,}\s])", r"\1.0\2", open(p).read()), strict=False)
        for it in d.get("items", []):
            if it.get("dimension"):
                dd = dim_of_string(it["dimension"])
                if dd is not None:
                    items.setdefault(kw.split("/")[-1], {})[it["name"]] = dd
    if "COMPDAT" not in items:
        raise core.AnalysisBroken("COMPDAT keyword definition not found")

    # ---- C06.dim
    r_dim = chk.rule("C06.dim", "every assignment to r0, rw, re, Kh, CF, Ke, connection length and the Peaceman denominator, every +/-/comparison and every log/exp argument in the COMPDAT code is dimensionally homogeneous", floor=20)
    total = 0
    for q, kw, params, ret in (
        ("Opm::WellConnections::loadCOMPDAT", "COMPDAT", {}, None),
        ("Opm::WellConnections::loadCOMPTRAJ", "COMPTRAJ", {}, None),
        # parameter dimensions by POSITION (parameter names are free): (K, D), (r0, rw, skin), (direction, ntg, extent), (cf, kh, rw, skin)
        ("Opm::(anonymous namespace)::effectiveRadius", None, [L2, L1], L1),
        ("Opm::(anonymous namespace)::peacemanDenominator", None, [L1, L1, ONE], ONE),
        ("Opm::(anonymous namespace)::effectiveExtent", None, [None, ONE, L1], L1),
        ("Opm::RestartIO::RstConnection::inverse_peaceman", None, [L3, L3, L1, ONE], L1),
    ):
        fs = fx.fn(q)
        if q.endswith("peacemanDenominator"):
            fs = [f for f in fs if len(f["params"]) == 3]
        if not fs:
            fs = [f for f in fx.fns if f["n"] == q.split("::")[-1] and f["file"].endswith(("WellConnections.cpp", "connection.cpp")) and len(f["params"]) == len(params)]
        if len(fs) != 1:
            raise core.AnalysisBroken("%s: expected one definition, found %d" % (q, len(fs)))
        if isinstance(params, list):
            if len(params) != len(fs[0]["params"]):
                raise core.AnalysisBroken("%s: %d parameters, the dimension table has %d" % (q, len(fs[0]["params"]), len(params)))
            params = {p_["n"]: d_ for p_, d_ in zip(fs[0]["params"], params) if d_ is not None}
        D = Dims(fs[0], items.get(kw or "COMPDAT", {}), chk, r_dim, params)
        D.ret = ret
        D.run()
        total += D.checked
    chk.extra["dimension_obligations_checked"] = total

    # ---- C06.replace
    r_rep = chk.rule("C06.replace", "re-entering COMPDAT/COMPTRAJ for a cell that already has a connection overwrites that one element and carries completion number, sort value, segment and perforation range over", floor=2)
    for q in ("Opm::WellConnections::loadCOMPDAT", "Opm::WellConnections::loadCOMPTRAJ"):
        f = fx.fn1(q)
        key = q.split("::")[-1]
        # the iterator to the existing connection: the local initialised from a find_if over this->m_connections
        its = [v for n in walk(f["body"]) if n["k"] == "Decl" for v in n["vars"] if isinstance(v.get("init"), dict)
               and any(c.get("k") == "Call" and (c.get("fn") or "").split("<")[0].endswith("find_if") for c in walk(v["init"])) and "m_connections" in show(v["init"])]
        if len(its) != 1:
            raise core.AnalysisBroken("%s: the look-up of an existing connection (find_if over m_connections) was not recognised (%d candidates)" % (key, len(its)))
        P = its[0]["n"]

        def on_prev(e):
            """method name if e is <prev>-><method>()"""
            e = strip(e)
            while e.get("k") in ("Ctor", "InitList", "Temp", "Bind") and len([a for a in (e.get("a") or e.get("c") or []) if a.get("k") != "DefArg"]) == 1:
                e = strip([a for a in (e.get("a") or e.get("c")) if a.get("k") != "DefArg"][0])
            m_, o_ = meth(e)
            if m_ and o_ is not None:
                o2 = strip(o_)
                while o2.get("k") in ("Un", "OpCall", "Paren") and (o2.get("c") or o2.get("a")):
                    o2 = strip((o2.get("c") or o2.get("a"))[0])
                if o2.get("k") == "Ref" and o2.get("n") == P:
                    return m_
            return None
        carried = {}
        for n in walk(f["body"]):
            if n["k"] == "Decl":
                for v in n["vars"]:
                    if isinstance(v.get("init"), dict) and on_prev(v["init"]):
                        carried.setdefault(on_prev(v["init"]), []).append(v["n"])

        def is_deref_prev(e):
            e = strip(e)
            if e.get("k") in ("Un", "OpCall") and e.get("op") == "*":
                x = strip((e.get("c") or e.get("a"))[0])
                return x.get("k") == "Ref" and x.get("n") == P
            return False
        over = [n for n in walk(f["body"]) if (n["k"] in ("OpCall", "Bin")) and n.get("op") == "=" and is_deref_prev((n.get("a") or n.get("c"))[0])]
        chk.instance(r_rep, key, sample=dict(function=key, overwrite_sites=len(over), carried_over={m_: v_ for m_, v_ in carried.items()}))
        if len(over) != 1:
            chk.violation(r_rep, key + ":site", "%s: expected exactly one in-place overwrite `*existing = Connection{...}`, found %d" % (key, len(over)), f["file"], f["l"])
            continue
        want = {"complnum": "completion number", "sort_value": "sort value", "segment": "segment number", "perf_range": "perforation range"}
        missing = [w for m_, w in want.items() if len(carried.get(m_, [])) != 1]
        for w in missing:
            chk.violation(r_rep, key + ":" + w.replace(" ", "_"), "%s: the %s of the existing connection is no longer saved before the connection is overwritten" % (key, w), f["file"], f["l"])
        if missing:
            continue
        v_cn, v_sv, v_sg, v_pr = (carried[m_][0] for m_ in ("complnum", "sort_value", "segment", "perf_range"))
        rhs = (over[0].get("a") or over[0].get("c"))[1]
        ctor = [x for x in walk(rhs) if x["k"] in ("Ctor", "InitList") and len(x.get("a", x.get("c", []))) >= 10]
        names = [show(strip(a)) for a in (ctor[0].get("a") or ctor[0].get("c"))] if ctor else []
        if v_cn not in names or v_sv not in names:
            chk.violation(r_rep, key + ":ctor", "%s: the replacement connection is not built with the old completion number and sort value (%s)" % (key, names), f["file"], over[0]["l"])
        us = [c for c in walk(f["body"]) if c["k"] == "MCall" and c.get("m") == "updateSegment" and any(x.get("k") == "Ref" and x.get("n") == P for x in walk(c.get("obj") or {}))]
        uargs = [show(strip(a)) for a in us[0]["a"]] if us else []
        if len(us) != 1 or len(uargs) < 4 or uargs[0] != v_sg or uargs[2] != v_sv or v_pr not in uargs[3]:
            chk.violation(r_rep, key + ":segment", "%s: segment/perforation range of the replaced connection are not restored (updateSegment%s)" % (key, uargs), f["file"], f["l"])
        # a connection is ADDED when the look-up finds nothing and REPLACED in place otherwise
        br = [n for n in walk(f["body"]) if n["k"] == "If" and n.get("else") is not None and any(x.get("k") == "Ref" and x.get("n") == P for x in walk(n["cond"])) and any(meth(x)[0] in ("end", "cend") for x in walk(n["cond"]))]
        okb = False
        if len(br) == 1:
            c_ = strip(br[0]["cond"])
            eq = c_.get("k") in ("Bin", "OpCall") and c_.get("op") == "=="
            ne = c_.get("k") in ("Bin", "OpCall") and c_.get("op") == "!="
            add_in_then = any(meth(x)[0] == "addConnection" for x in walk(br[0]["then"]))
            add_in_else = any(meth(x)[0] == "addConnection" for x in walk(br[0]["else"]))
            over_in_then = any(x is over[0] for x in walk(br[0]["then"]))
            over_in_else = any(x is over[0] for x in walk(br[0]["else"]))
            okb = (eq and add_in_then and over_in_else and not add_in_else) or (ne and add_in_else and over_in_then and not add_in_then)
        chk.instance(r_rep, key + ":branch", sample=dict(function=key, test=show(br[0]["cond"])[:80] if br else None, ok=okb))
        if not okb:
            chk.violation(r_rep, key + ":branch", "%s must add a new connection exactly when the look-up of the cell ends at end() and overwrite the found element otherwise (test: %s): with the branches swapped an existing connection is duplicated and a missing one is written through end()" % (key, show(br[0]["cond"])[:80] if br else "not found"), f["file"], br[0]["l"] if br else f["l"])
        # nothing else writes the container
        other = []
        for c in walk(f["body"]):
            if c["k"] == "MCall" and strip(c.get("obj") or {}).get("k") == "Mem" and strip(c["obj"])["n"] == "m_connections" and not c.get("const") and c.get("m") not in ("begin", "end", "size"):
                other.append(c["m"])
        if other:
            chk.violation(r_rep, key + ":other", "%s also modifies m_connections through %s: other connections may be reordered or dropped" % (key, other), f["file"], f["l"])

    # ---- C06.rebuild
    r_reb = chk.rule("C06.rebuild", "every Well function that rebuilds the connection set iterates all connections and adds each one exactly once on every path, in the original order, with the original ordering mode and well head", floor=8)
    n_fn = 0
    for f in fx.fns:
        if f.get("cls") != "Opm::Well" or not f.get("body"):
            continue
        news = [v for n in walk(f["body"]) if n["k"] == "Decl" for v in n["vars"] if isinstance(v.get("init"), dict)
                and any(c.get("k") == "Call" and (c.get("fn") or "").split("<")[0].endswith("make_shared") and "WellConnections" in (c.get("fn") or "") + " ".join(c.get("targs") or []) for c in walk(v["init"]))]
        if not news:
            continue
        NEWC = news[0]["n"]
        init = show(news[0]["init"])
        loops = [n for n in walk(f["body"]) if n["k"] == "ForRange" and "this.connections" in show(n["range"])]
        if not loops:
            # constructs from a copy of the whole container: nothing can be lost
            if "this.connections" in init or "(*this.connections)" in init:
                continue
            continue
        n_fn += 1
        key = f["n"]
        mk = [c for c in walk(news[0]["init"]) if c["k"] == "Call" and (c.get("fn") or "").endswith("make_shared")]
        margs = [show(a) for a in mk[0]["a"]] if mk else []
        ok_ctor = margs == ["this.connections.ordering()", "this.headI", "this.headJ"] or margs == ["(->this.connections).ordering()", "this.headI", "this.headJ"]
        lp = loops[0]
        body = stmt_list(lp["body"])
        lv = lp["var"]["n"]
        def is_add(c):
            return c["k"] == "MCall" and c.get("m") == "add" and any(x.get("k") == "Ref" and x.get("n") == NEWC for x in walk(c.get("obj") or {}))

        def eff(s_):
            k_ = s_["k"]
            if k_ == "If":
                r = paths(stmt_list(s_["then"])) | (paths(stmt_list(s_["else"])) if s_.get("else") else {(0, "fall")})
                return r
            if k_ == "Block":
                return paths(stmt_list(s_))
            if k_ == "Continue":
                return {(0, "continue")}
            if k_ in ("Return", "Break"):
                return {(0, "exit")}
            if k_ == "Throw" or any(x["k"] == "Throw" for x in walk(s_) if s_["k"] not in ("If", "Block")):
                return set()
            return {(sum(1 for c in walk(s_) if is_add(c)), "fall")}

        def paths(stmts):
            cur = {(0, "fall")}
            for s_ in stmts:
                nxt = set()
                for c_, st_ in cur:
                    if st_ != "fall":
                        nxt.add((c_, st_))
                        continue
                    for dc, st2 in eff(s_):
                        nxt.add((c_ + dc, st2))
                cur = nxt
            return cur
        ps = paths(body)
        direct = [s for s in body if is_add(s)]
        nested = [c for s in body if s not in direct for c in walk(s) if is_add(c)]
        exits = [p_ for p_ in ps if p_[1] == "exit"]
        ok_paths = bool(ps) and all(c_ == 1 for c_, st_ in ps) and not exits
        copies = {v["n"] for n in walk(lp["body"]) if n["k"] == "Decl" for v in n["vars"] if v.get("init") is not None and show(strip(v["init"])) == lv and not v.get("ref")}
        arg_ok = all(show(strip(c["a"][0])) in ({lv} | copies) for c in direct + nested)
        chk.instance(r_reb, key, sample=dict(function=key, ctor_args=margs, unconditional_adds=len(direct), nested_adds=len(nested), early_exits=len(exits)))
        if len(loops) != 1:
            chk.violation(r_reb, key + ":loops", "Well::%s iterates the connections %d times while rebuilding" % (key, len(loops)), f["file"], f["l"])
        if not ok_paths:
            chk.violation(r_reb, key + ":paths", "Well::%s does not add every connection exactly once on every path through the loop body (adds per path: %s): connections that do not match the record would be dropped or duplicated" % (key, sorted(ps)), f["file"], lp["l"])
        if not arg_ok:
            chk.violation(r_reb, key + ":arg", "Well::%s adds something other than the visited connection" % key, f["file"], lp["l"])
        if not ok_ctor:
            chk.violation(r_reb, key + ":ctor", "Well::%s builds the new connection set with (%s) instead of the old ordering mode and well head" % (key, ", ".join(margs)), f["file"], news[0]["l"])
        rng = show(lp["range"]).replace("(->this.connections)", "this.connections")
        if rng not in ("(*this.connections)",):
            chk.violation(r_reb, key + ":range", "Well::%s iterates `%s`, not the whole connection set" % (key, rng), f["file"], lp["l"])
        ups = [c for c in walk(f["body"]) if c["k"] == "MCall" and c.get("m") == "updateConnections"]
        if len(ups) != 1 or not any(x.get("k") == "Ref" and x.get("n") == NEWC for x in walk(ups[0]["a"][0])):
            chk.violation(r_reb, key + ":install", "Well::%s does not install the rebuilt set with updateConnections(new_connections, ...)" % key, f["file"], f["l"])
    chk.extra["rebuild_functions"] = n_fn

    # ---- C06.match: which connections a record targets
    r_ma = chk.rule("C06.match", "connection selectors of Well.cpp (WPIMULT, WELOPEN, COMPLUMP, WINJCLN, ...): match_eq/ge/le compare the connection's I with item I, J with J, K with K*, the completion number with C1/C2/FIRST/LAST; lower bounds use match_ge, upper bounds match_le", floor=15)
    ACC = {"I": "getI", "J": "getJ", "K": "getK", "K1": "getK", "K2": "getK", "K_UPPER": "getK", "K_LOWER": "getK", "C1": "complnum", "C2": "complnum", "FIRST": "complnum", "LAST": "complnum"}
    OPS = {"I": "match_eq", "J": "match_eq", "K": "match_eq", "K1": "match_ge", "K_UPPER": "match_ge", "C1": "match_ge", "FIRST": "match_ge", "K2": "match_le", "K_LOWER": "match_le", "C2": "match_le", "LAST": "match_le"}
    for f in fx.fns:
        if not f["file"].endswith(WELL) or not f.get("body"):
            continue
        for n in walk_fn(f):
            if n["k"] != "Call" or (n.get("fn") or "").split("::")[-1] not in ("match_eq", "match_ge", "match_le") or len(n.get("a", [])) < 3:
                continue
            fn_ = n["fn"].split("::")[-1]
            acc = meth(strip(n["a"][0]))[0]
            a2 = n["a"][2]
            item = None
            lits = [x["v"] for x in walk(a2) if x["k"] == "Str"]
            if lits:
                item = lits[0]
            else:
                refs = [x for x in walk(a2) if x["k"] == "Ref" and (x.get("q") or "").endswith("::itemName")]
                if refs:
                    item = refs[0]["q"].split("::")[-2]
            key = "%s:%s@%s" % (f["q"].split("::")[-1], item, n["l"])
            if item is None or acc is None:
                chk.info(r_ma, "%s: selector `%s` not of the form match(c.<accessor>(), record, <item>)" % (f["q"], show(n)[:80]))
                continue
            chk.instance(r_ma, key, sample=dict(function=f["q"], item=item, compares=acc, with_=fn_))
            if item not in ACC:
                chk.fail_broken("C06.match: record item %s used in %s is not in the selector table of rules/C06.py" % (item, f["q"]))
                continue
            if acc != ACC[item]:
                chk.violation(r_ma, key, "%s compares the connection's %s() with record item %s; item %s selects on %s(): the record then targets other connections than the ones it names" % (f["q"], acc, item, item, ACC[item]), f["file"], n["l"])
            if fn_ != OPS[item]:
                chk.violation(r_ma, key + ":op", "%s uses %s for record item %s (expected %s)" % (f["q"], fn_, item, OPS[item]), f["file"], n["l"])

    # ---- C06.frame: net-to-gross scales the VERTICAL cell extent: index 2 of a triple that is still in the grid's
    # x,y,z order, never of one that has been permuted into the completion's order
    r_fr = chk.rule("C06.frame", "net-to-gross multiplies component [2] of a triple in grid (x,y,z) order, not of one permuted into completion order; a function that receives ntg uses it", floor=5)
    # which parameters carry a net-to-gross ratio: those that receive the cell's `ntg` member (or such a parameter) at a call site
    ntg_params = {}
    grew = True
    while grew:
        grew = False
        for f in fx.fns:
            if not f["file"].endswith(WC) or not f.get("body"):
                continue
            mine = {f["params"][i]["n"] for i in ntg_params.get(f["q"], ()) if i < len(f.get("params") or [])}
            for c in walk_fn(f):
                if c["k"] in ("Call", "MCall") and c.get("fn"):
                    for i, a_ in enumerate(c.get("a") or []):
                        a0 = strip(a_)
                        if (a0.get("k") == "Mem" and a0.get("n") == "ntg") or (a0.get("k") == "Ref" and a0.get("n") in mine):
                            if i not in ntg_params.setdefault(c["fn"], set()):
                                ntg_params[c["fn"]].add(i)
                                grew = True
    for f in fx.fns:
        if not f["file"].endswith(WC) or not f.get("body"):
            continue
        # variables holding a permuted triple: initialised / assigned from elements subscripted with p[..], p from directionIndices
        perm_idx = set()
        permuted = set()
        for n in walk_fn(f):
            if n["k"] == "Decl":
                for v in n["vars"]:
                    i = v.get("init")
                    if i is not None and any(c.get("k") == "Call" and (c.get("fn") or "").endswith("directionIndices") for c in walk(i)):
                        perm_idx.add(v["n"])
        def is_permuted_expr(e):
            for x in walk(e):
                if x["k"] in ("Idx", "OpCall"):
                    idx = x["c"][1] if x["k"] == "Idx" else (x["a"][1] if x.get("op") == "[]" and len(x.get("a", [])) == 2 else None)
                    if idx is not None and any(y["k"] == "Ref" and y["n"] in perm_idx for y in walk(idx)):
                        return True
                if x["k"] == "Call" and (x.get("fn") or "").split("::")[-1] in ("effectiveExtent", "permComponents"):
                    return True
            return False
        changed = True
        while changed:
            changed = False
            for n in walk_fn(f):
                if n["k"] == "Decl":
                    for v in n["vars"]:
                        if v.get("init") is not None and v["n"] not in permuted and (is_permuted_expr(v["init"]) or any(y["k"] == "Ref" and y["n"] in permuted and y is strip(v["init"]) for y in walk(v["init"]))):
                            permuted.add(v["n"])
                            changed = True
                elif n["k"] == "Bin" and n.get("asg") and n["op"] == "=" and strip(n["c"][0])["k"] == "Ref" and strip(n["c"][0])["n"] not in permuted and is_permuted_expr(n["c"][1]):
                    permuted.add(strip(n["c"][0])["n"])
                    changed = True
        ntg_names = {f["params"][i]["n"] for i in ntg_params.get(f["q"], ()) if i < len(f.get("params") or [])}
        if ntg_names:
            uses = [x for x in walk_fn(f) if x["k"] == "Ref" and x["n"] in ntg_names]
            chk.instance(r_fr, "%s:uses-ntg" % f["q"].split("::")[-1], sample=dict(function=f["q"], uses=len(uses)))
            if not uses:
                chk.violation(r_fr, "%s:uses-ntg" % f["q"].split("::")[-1], "%s receives the cell's net-to-gross ratio but never uses it: the vertical extent / thickness is not reduced" % f["q"], f["file"], f["l"])
        for n in walk_fn(f):
            if n["k"] != "Bin" or n["op"] not in ("*", "*="):
                continue
            a, b = strip(n["c"][0]), strip(n["c"][1])
            def is_ntg(x):
                return (x["k"] == "Ref" and x["n"] in ntg_names) or (x["k"] == "Mem" and x["n"] == "ntg")
            other = b if is_ntg(a) else a if is_ntg(b) else None
            if other is None:
                continue
            key = "%s@%d" % (f["q"].split("::")[-1], n["l"])
            sub = None
            if other["k"] == "Idx":
                sub = (strip(other["c"][0]), strip(other["c"][1]))
            elif other["k"] == "OpCall" and other.get("op") == "[]" and len(other.get("a", [])) == 2:
                sub = (strip(other["a"][0]), strip(other["a"][1]))
            if sub is None:
                chk.instance(r_fr, key, nontrivial=False, sample=dict(function=f["q"], expr=show(n)[:80], note="net-to-gross multiplies a scalar"))
                chk.info(r_fr, "%s: net-to-gross multiplies `%s`, not a component of a triple - not governed" % (key, show(other)[:60]))
                continue
            base, idx = sub
            bname = base.get("n")
            frame = "completion order" if bname in permuted else "grid order"
            chk.instance(r_fr, key, sample=dict(function=f["q"], expr=show(n)[:80], triple=bname, frame=frame, index=show(idx)))
            if idx["k"] != "Int" or idx["v"] != 2:
                chk.violation(r_fr, key, "%s applies net-to-gross to component [%s] of %s: NTG scales the vertical extent, component [2] of a grid-ordered triple" % (f["q"], show(idx), bname), f["file"], n["l"])
            elif bname in permuted:
                chk.violation(r_fr, key, "%s applies net-to-gross to %s[2] after %s has been permuted into the completion's order: for X/Y completions this scales the extent along the well bore instead of the vertical one (Kh, r0 and CF of a defaulted COMPDAT then deviate from the Peaceman values)" % (f["q"], bname, bname), f["file"], n["l"])
    # ---- C06.peaceman: CF x (ln(r0/rw) + S) = 2 pi Kh on every path through loadCOMPDAT
    r_pm = chk.rule("C06.peaceman", "loadCOMPDAT: on every path from the explicit/defaulted decision to the label where the connection is finished, the stored transmissibility factor, permeability-thickness and Peaceman denominator satisfy CF x denominator = angle x Kh - decided as an identity between monomials over (angle, the deck's CF and Kh, the computed denominator, Ke, the effective extent): whichever of CF / Kh is defaulted is derived from the other through the denominator, and the stored denominator is the one that links them; the denominator is ln(r0/rw) + skin", floor=5)
    lcb = fx.fn1("Opm::WellConnections::loadCOMPDAT")
    floop = [n for n in stmt_list(lcb["body"]) if n["k"] == "For"]
    if len(floop) != 1:
        raise core.AnalysisBroken("loadCOMPDAT: layer loop not found")
    body_ = list(floop[0]["body"]["c"]) if floop[0]["body"].get("k") == "Block" else [floop[0]["body"]]
    lab = [i for i, s_ in enumerate(body_) if "Label" in s_["k"]]
    happy = [i for i, s_ in enumerate(body_) if s_["k"] == "If" and any(x["k"] == "Goto" for x in walk(s_))]
    if len(lab) != 1 or len(happy) != 1 or happy[0] > lab[0]:
        raise core.AnalysisBroken("loadCOMPDAT: the happy-path test / CF_done label were not recognised")

    # the equivalent radius: defaulted from the cell only on the computing path; on the explicit CF & Kh path it stays
    # unset until the block at the label derives it from CF and Kh
    r_r0 = chk.rule("C06.r0path", "loadCOMPDAT: the default `r0 = effectiveRadius(K, D)` (under r0 < 0) is taken AFTER the explicit-CF-and-Kh test has jumped to the finishing label, so that for explicit CF and Kh with a defaulted r0 the block at the label derives r0 from CF, Kh, rw and skin (inverse Peaceman) - otherwise the stored r0 is the cell's radius and CF (ln(r0 / rw) + S) = 2 pi Kh fails for the stored values; and that block exists under `r0 < 0`", floor=2)
    dflt = [i for i, s_ in enumerate(body_) if s_["k"] == "If" and re.search(r"\.r0 < 0", show(s_["cond"])) and "effectiveRadius" in show(s_["then"])]
    inv_ = [i for i, s_ in enumerate(body_) if s_["k"] == "If" and re.search(r"\.r0 < 0", show(s_["cond"])) and "inverse_peaceman" in show(s_["then"])]
    if not inv_:
        # the statement right after the label may be carried by the Label node itself
        inv_ = [i for i, s_ in enumerate(body_) if "Label" in s_["k"] and re.search(r"\.r0 < 0", show(s_)) and "inverse_peaceman" in show(s_)]
    chk.instance(r_r0, "default", sample=dict(default_at=dflt, shortcut_at=happy, label_at=lab))
    if len(dflt) != 1 or not (happy[0] < dflt[0] < lab[0]):
        chk.violation(r_r0, "default", "loadCOMPDAT takes the default equivalent radius at statement(s) %s of the layer loop, the explicit CF / Kh shortcut is statement %s and the finishing label statement %s: the default must lie between them" % (dflt, happy[0], lab[0]), lcb["file"], body_[dflt[0]]["l"] if dflt else lcb["l"])
    chk.instance(r_r0, "derive", sample=dict(derive_at=inv_))
    if len(inv_) != 1 or inv_[0] < lab[0]:
        chk.violation(r_r0, "derive", "loadCOMPDAT no longer derives a defaulted r0 from CF and Kh (inverse_peaceman under r0 < 0) at the finishing label (found at %s, label at %s)" % (inv_, lab[0]), lcb["file"], lcb["l"])

    def mono_mul(a, b, sg=1):
        if a is None or b is None:
            return None
        r = dict(a)
        for k_, v_ in b.items():
            r[k_] = r.get(k_, 0) + sg * v_
            if r[k_] == 0:
                del r[k_]
        return r

    def mono(e, env, loc):
        e = strip(e)
        k_ = e.get("k")
        if k_ == "Bin" and e.get("op") in ("*", "/") and not e.get("asg"):
            return mono_mul(mono(e["c"][0], env, loc), mono(e["c"][1], env, loc), 1 if e["op"] == "*" else -1)
        if k_ == "Mem" and strip(e.get("b") or {}).get("k") == "Ref" and (strip(e["b"]).get("t") or "").endswith("CTFProperties"):
            return dict(env.get(e["n"], {e["n"] + "0": 1}))
        if k_ == "Ref" and e.get("n") in loc:
            return dict(loc[e["n"]])
        if k_ == "Ref" and e.get("d") == "Var":
            return {e["n"]: 1}
        if k_ in ("Idx", "OpCall") and (e.get("op") in (None, "[]")):
            return {show(e).replace(" ", ""): 1}
        return None
    results = []

    def run_paths(stmts, env, loc):
        """all (env, ended_by_goto) at the end of stmts"""
        states = [(env, loc, False)]
        for st in stmts:
            nxt = []
            for env_, loc_, done in states:
                if done:
                    nxt.append((env_, loc_, True))
                    continue
                if st["k"] == "Goto":
                    nxt.append((env_, loc_, True))
                elif st["k"] == "Bin" and st.get("asg") and st.get("op") == "=" and strip(st["c"][0]).get("k") == "Mem" and strip(st["c"][0])["n"] in ("CF", "Kh", "peaceman_denom", "Ke"):
                    e2 = dict(env_)
                    e2[strip(st["c"][0])["n"]] = mono(st["c"][1], env_, loc_)
                    nxt.append((e2, loc_, False))
                elif st["k"] == "If":
                    l2 = dict(loc_)
                    ini = st.get("init")
                    if isinstance(ini, dict):
                        for d_ in walk(ini):
                            if d_["k"] == "Decl":
                                for v_ in d_["vars"]:
                                    if isinstance(v_.get("init"), dict) and any(x["k"] == "Call" and (x.get("fn") or "").endswith("peacemanDenominator") for x in walk(v_["init"])):
                                        l2[v_["n"]] = {"D": 1}
                    for br_ in (st["then"], st.get("else")):
                        if br_ is None:
                            nxt.append((env_, l2, False))
                        else:
                            nxt += run_paths(stmt_list(br_), dict(env_), l2)
                elif st["k"] == "Block":
                    nxt += run_paths(stmt_list(st), dict(env_), loc_)
                else:
                    nxt.append((env_, loc_, False))
            states = nxt
        return states
    finals = run_paths(body_[happy[0]:lab[0]], {}, {})
    seen_p = 0
    n_path = 0
    for env_, loc_, done in finals:
        n_path += 1
        if "peaceman_denom" not in env_:
            chk.instance(r_pm, "path%d:unset" % n_path, sample=dict(path=n_path, assigned=sorted(env_)))
            chk.violation(r_pm, "unset:%s" % ",".join(sorted(env_)), "loadCOMPDAT: a path from the explicit/defaulted decision to CF_done (the one assigning %s) never stores the Peaceman denominator: the connection keeps the value-initialised 0 and CF (ln(r0/rw) + S) = 2 pi Kh does not hold for what is stored" % (sorted(env_) or "nothing"), lcb["file"], body_[happy[0]]["l"])
            continue
        seen_p += 1
        cf = env_.get("CF", {"CF0": 1})
        kh = env_.get("Kh", {"Kh0": 1})
        dn = env_["peaceman_denom"]
        key = "path%d" % seen_p
        lhs = mono_mul(cf, dn)
        rhs = mono_mul({"angle": 1}, kh)
        desc = dict(CF=cf, Kh=kh, denominator=dn)
        chk.instance(r_pm, key, sample=dict(path=seen_p, values={k_: " ".join("%s^%d" % kv for kv in sorted(v_.items())) if v_ else "?" for k_, v_ in desc.items()}, identity=lhs == rhs))
        if None in (cf, kh, dn):
            raise core.AnalysisBroken("loadCOMPDAT: a CF / Kh / denominator assignment is not a product or quotient of the modelled quantities (path %d)" % seen_p)
        if lhs != rhs:
            chk.violation(r_pm, key, "loadCOMPDAT: on path %d the connection ends with CF = %s, Kh = %s, denominator = %s, for which CF x denominator = %s but angle x Kh = %s: the stored values no longer satisfy CF (ln(r0/rw) + S) = 2 pi Kh" % (seen_p, cf, kh, dn, lhs, rhs), lcb["file"], body_[happy[0]]["l"])
    if seen_p < 4:
        raise core.AnalysisBroken("loadCOMPDAT: only %d paths assign the Peaceman denominator (expected the happy path and the three defaulting cases)" % seen_p)
    pd = [f for f in fx.fns if f["n"] == "peacemanDenominator" and f.get("body") and len(f.get("params") or []) == 3]
    if len(pd) != 1:
        raise core.AnalysisBroken("peacemanDenominator(r0, rw, skin) not found")
    rp = [r_ for r_ in walk(pd[0]["body"]) if r_["k"] == "Return" and r_.get("e") is not None]
    a_, b_, c_ = (p_["n"] for p_ in pd[0]["params"])
    txt = show(strip(rp[0]["e"])).replace(" ", "") if rp else ""
    rwm = "std::min(%s,%s)" % (b_, a_)          # the wellbore radius, capped by r0 so that the logarithm stays non-negative
    rwm2 = "std::min(%s,%s)" % (a_, b_)
    okd = txt.replace("std::log", "log") in ["(log((%s/%s))+%s)" % (a_, d_, c_) for d_ in (b_, rwm, rwm2)] + ["(%s+log((%s/%s)))" % (c_, a_, d_) for d_ in (b_, rwm, rwm2)]
    chk.instance(r_pm, "denominator", sample=dict(returns=txt))
    if not okd:
        chk.violation(r_pm, "denominator", "peacemanDenominator(r0, rw, skin) returns %s; the Peaceman denominator is ln(r0 / rw) + skin (rw possibly capped by r0)" % txt, pd[0]["file"], pd[0]["l"])

    # inverse_peaceman(cf, kh, rw, skin) inverts the same relation: r0 = rw exp(2 pi kh / cf - skin)
    ip = fx.fn1("Opm::RestartIO::RstConnection::inverse_peaceman")
    from verif import symb as sy_
    pcf, pkh, prw, psk = (p_["n"] for p_ in ip["params"])

    def leaf_ip(e):
        if e.get("k") == "Ref" and e.get("d") == "Parm":
            return sy_.S({pcf: "cf", pkh: "kh", prw: "rw", psk: "skin"}[e["n"]])
        if e.get("k") == "Flt" and abs(float(e["v"]) - 3.14159265) < 1e-6:
            return sy_.S("pi")
        if e.get("k") == "Flt" and abs(float(e["v"]) - 6.2831853) < 1e-6:
            return sy_.mul(sy_.I(2), sy_.S("pi"))
        if e.get("k") == "Call" and (e.get("fn") or "").split("::")[-1] == "exp" and e.get("a"):
            t = ev_ip.term(e["a"][0], env_ip)
            return sy_.S("exp(%s)" % sy_.show_term(t)) if t is not None else None
        return None
    ev_ip = sy_.Eval(leaf_ip, {v["n"] for n in walk(ip["body"]) if n["k"] == "Decl" for v in n["vars"]})
    env_ip = ev_ip.run([n for n in stmt_list(ip["body"]) if n["k"] != "Return"], {})
    rets_ip = [r_ for r_ in stmt_list(ip["body"]) if r_["k"] == "Return" and r_.get("e") is not None]
    got_ip = ev_ip.term(rets_ip[0]["e"], env_ip) if rets_ip else None
    expo = sy_.add(sy_.div(sy_.mul(sy_.I(2), sy_.S("pi"), sy_.S("kh")), sy_.S("cf")), sy_.mul(sy_.I(-1), sy_.S("skin")))
    want_ip = sy_.mul(sy_.S("rw"), sy_.S("exp(%s)" % sy_.show_term(expo)))
    chk.instance(r_pm, "inverse", sample=dict(returns=sy_.show_term(got_ip)))
    if got_ip != want_ip:
        chk.violation(r_pm, "inverse", "inverse_peaceman(cf, kh, rw, skin) returns %s; solving cf (ln(r0/rw) + skin) = 2 pi kh for r0 gives %s: the r0 stored for connections with explicit CF and Kh no longer satisfies the relation" % (sy_.show_term(got_ip), sy_.show_term(want_ip)), ip["file"], ip["l"])

    # the wellbore radius is set on both sides of the "diameter given?" decision (COMPDAT and COMPTRAJ loaders)
    for lf in [f for f in fx.fns if f["n"] in ("loadCOMPDAT", "loadCOMPTRAJ") and f.get("body") and f["file"].endswith("WellConnections.cpp")]:
        for n in walk(lf["body"]):
            if n["k"] != "If" or not isinstance(n.get("cond"), dict) or "hasValue(0)" not in show(n["cond"]) or "iameter" not in show(n["cond"]):
                continue
            def sets(br):
                return [show(strip(x["c"][0])) for x in walk(br) if x["k"] == "Bin" and x.get("asg") and x["op"] == "="] if br is not None else []
            t_, e_ = sets(n["then"]), sets(n.get("else"))
            common = set(t_) & set(e_)
            key = "%s:radius@%d" % (lf["n"], n["l"])
            chk.instance(r_pm, key, sample=dict(function=lf["q"], given=t_, defaulted=e_))
            if not common:
                chk.violation(r_pm, key, "%s: the wellbore radius is assigned %s when the diameter is given and %s when it is defaulted: on one side it keeps its value-initialised 0, and ln(r0/rw) is taken of a zero radius" % (lf["q"], t_ or "nothing", e_ or "nothing"), lf["file"], n["l"])

    # ---- C06.zero: the record's one-based cell numbers
    r_zr = chk.rule("C06.zero", "COMPDAT: I, J, K1, K2 are one-based in the record and zero-based in the connection: each is the item's integer minus 1 (I and J fall back to the well head when defaulted or 0), and the connections are created for every layer k = K1 .. K2 inclusive", floor=5)
    lc = fx.fn1("Opm::WellConnections::loadCOMPDAT")
    itemvar = {}
    for n in walk(lc["body"]):
        if n["k"] == "Decl":
            for v in n["vars"]:
                i0 = strip(v.get("init") or {})
                if i0.get("k") == "MCall" and i0.get("m") == "getItem":
                    lit = [x["v"] for x in walk(i0) if x["k"] == "Str"]
                    if lit:
                        itemvar[v["n"]] = lit[0]

    def item_of(e):
        """record item whose integer e reads, if e is <item>.get<int>(0)"""
        e = strip(e)
        if e.get("k") in ("MCall", "Call") and (e.get("m") == "get" or (e.get("fn") or "").endswith("DeckItem::get")):
            o = strip(e.get("obj") or {})
            if o.get("k") == "Ref" and o.get("n") in itemvar:
                return itemvar[o["n"]]
            lit = [x["v"] for x in walk(o) if x["k"] == "Str"]
            if lit:
                return lit[0]
        return None
    seen_z = {}
    for n in walk(lc["body"]):
        if n["k"] != "Decl":
            continue
        for v in n["vars"]:
            if not isinstance(v.get("init"), dict):
                continue
            for x in walk(v["init"]):
                if x["k"] == "Bin" and x.get("op") in ("-", "+") and item_of(x["c"][0]) in ("I", "J", "K1", "K2"):
                    seen_z[item_of(x["c"][0])] = (v["n"], x["op"], strip(x["c"][1]).get("v"), x["l"])
            if item_of(v["init"]) in ("I", "J", "K1", "K2") and item_of(v["init"]) not in seen_z:
                seen_z[item_of(v["init"])] = (v["n"], None, None, n["l"])
    for it in ("I", "J", "K1", "K2"):
        got = seen_z.get(it)
        chk.instance(r_zr, "item:" + it, sample=dict(item=it, local=got[0] if got else None, op=got[1] if got else None, offset=got[2] if got else None))
        if not got or got[1] != "-" or got[2] != 1:
            chk.violation(r_zr, "item:" + it, "loadCOMPDAT turns item %s into a cell index as `item %s %s`; the record counts from 1 and the grid from 0, so it must be item - 1: the connection lands in a neighbouring cell" % (it, got[1] if got else "", got[2] if got else "(not found)"), lc["file"], got[3] if got else lc["l"])
    kl = [n for n in stmt_list(lc["body"]) if n["k"] == "For"]
    okk = False
    if len(kl) == 1 and seen_z.get("K1") and seen_z.get("K2"):
        ini = [(v["n"], show(strip(v.get("init") or {}))) for d in walk(kl[0].get("init") or {}) if d["k"] == "Decl" for v in d["vars"]]
        cnd = show(strip(kl[0]["cond"])).replace(" ", "")
        inc = show(kl[0].get("inc") or {})
        okk = len(ini) == 1 and ini[0][1] == seen_z["K1"][0] and cnd == "(%s<=%s)" % (ini[0][0], seen_z["K2"][0]) and "++" in inc
        chk.instance(r_zr, "layers", sample=dict(init=ini, cond=cnd, step=inc))
    if not okk:
        chk.violation(r_zr, "layers", "loadCOMPDAT must create a connection in every layer K1 <= k <= K2 of the record (for (k = K1; k <= K2; ++k))", lc["file"], kl[0]["l"] if kl else lc["l"])

    # ---- C06.fresh: a defaulting sentinel is set in the iteration that tests it
    r_fs = chk.rule("C06.fresh", "in the connection-building loops (one iteration per cell of a COMPDAT/COMPTRAJ record), a quantity that is tested against a numeric sentinel and then given its default from the current cell (if (x.r0 < 0) x.r0 = f(cell)) has been assigned earlier in the SAME iteration - its variable is declared in the loop body or an unconditional assignment precedes the test - unless the value is meant to outlive the loop (it is read after it)", floor=4)

    def loc_of(e):
        """('base', 'base.f.g') of a Ref / Mem chain on a local variable, else None."""
        e = strip(e)
        path = []
        while isinstance(e, dict) and e.get("k") == "Mem" and e.get("b") is not None:
            path.append(e["n"])
            e = strip(e["b"])
        if isinstance(e, dict) and e.get("k") == "Ref" and e.get("d") in ("Var", "Parm"):
            return e["n"], ".".join([e["n"]] + path[::-1]), e.get("dl")
        return None

    def assigns(n):
        if n["k"] == "Bin" and n.get("asg"):
            return loc_of(n["c"][0])
        if n["k"] == "OpCall" and n.get("op") in ("=", "+=", "-=", "*=", "/=") and n.get("a"):
            return loc_of(n["a"][0])
        return None
    LOOPS = ("For", "While", "ForRange", "Do")
    for f in fx.fns:
        if not f["file"].endswith(WC) or not f.get("body"):
            continue
        all_nodes = list(walk(f["body"]))
        for lp in all_nodes:
            if lp["k"] not in LOOPS:
                continue
            tops = stmt_list(lp["body"])
            l0, l1 = lp["l"], max([x.get("l", 0) for x in walk(lp["body"])] or [lp["l"]])
            decl_in = {v["n"] for t in walk(lp["body"]) if t["k"] == "Decl" for v in t["vars"]}
            goto_pos = [i for i, t in enumerate(tops) if any(x["k"] == "Goto" for x in walk(t))]
            for ti, t in enumerate(tops):
                inner_loops = [x for x in walk(t) if x["k"] in LOOPS]
                skip = set()
                for il in inner_loops:
                    skip.update(id(x) for x in walk(il["body"]))
                for iff in walk(t, skip_lambda=True):
                    if iff["k"] != "If" or id(iff) in skip or not isinstance(iff.get("cond"), dict):
                        continue
                    tested = []
                    for c in walk(iff["cond"]):
                        if c["k"] == "Bin" and c.get("op") in ("<", ">", "<=", ">="):
                            a_, b_ = strip(c["c"][0]), strip(c["c"][1])
                            for x, y in ((a_, b_), (b_, a_)):
                                yy = strip(y["c"][0]) if y.get("k") == "Un" and y.get("op") == "-" else y
                                if yy.get("k") in ("Int", "Flt") and loc_of(x):
                                    tested.append(loc_of(x))
                    for base, path, dl in tested:
                        sets = [x for br in (iff["then"], iff.get("else")) if br for x in walk(br, skip_lambda=True) if assigns(x) and assigns(x)[1] == path]
                        if not sets:
                            continue
                        key = "%s:%s@%d" % (f["q"].split("::")[-1], path, iff["l"])
                        after = any(x["k"] == "Ref" and x["n"] == base and x.get("dl") == dl and x.get("l", 0) > l1 for x in all_nodes)
                        fresh = base in decl_in
                        is_label = t["k"] not in ("If", "Block", "Bin", "Decl") and "Label" in t["k"]
                        limit = min([ti] + ([g for g in goto_pos] if is_label else []))
                        pre = [u for u in tops[:limit] if assigns(u) and assigns(u)[1] in (path, base)]
                        chk.instance(r_fs, key, sample=dict(function=f["q"], quantity=path, test_line=iff["l"], declared_in_iteration=fresh, assigned_before_test=[u["l"] for u in pre], read_after_loop=after))
                        if not pre and not after:
                            chk.violation(r_fs, key, "%s: `%s` is tested against its sentinel at line %d and defaulted from the current cell, but nothing in the loop body (line %d) sets it unconditionally before the test%s" % (f["q"], path, iff["l"], lp["l"], ": its variable is freshly value-initialised in every iteration, so the sentinel (a negative number) is never there and the record's explicit/defaulted distinction is lost" if fresh else " and its variable is declared outside the loop: from the second iteration on the test sees the previous cell's value, so the default of the first cell is kept for every later cell of the record"), f["file"], iff["l"])

    # ---- C06.perm: the axis permutation of a completion direction
    r_pm2 = chk.rule("C06.perm", "WellConnections.cpp directionIndices(direction): for X, Y and Z the returned triple is a permutation of the axes (0, 1, 2) whose LAST element is the axis of the completion itself (X: 0, Y: 1, Z: 2) - the first two, the perpendicular axes, may come in either order because the Peaceman radius and Kh are symmetric in them; permComponents and effectiveExtent pick components [p[0]], [p[1]], [p[2]] in that order; effectiveRadius is Peaceman's anisotropic equivalent radius (symbolic comparison)", floor=6)
    di = [f for f in fx.fns if f["n"] == "directionIndices" and f.get("body") and f["file"].endswith("WellConnections.cpp")]
    if len(di) != 1:
        raise core.AnalysisBroken("directionIndices not found")
    di = di[0]
    sws = [n for n in walk(di["body"]) if n["k"] == "Switch"]
    if len(sws) != 1:
        raise core.AnalysisBroken("directionIndices: switch over the direction not found")
    got_p = {}
    pending = []
    for st_ in sws[0]["body"]["c"]:
        x = st_
        while x.get("k") == "Case":
            pending.append(strip(x["v"]).get("n"))
            x = x.get("sub") or {}
        if x.get("k") == "Return" and isinstance(x.get("e"), dict):
            vals = [int(y["v"]) for y in walk(x["e"]) if y["k"] == "Int"]
            for lab in pending:
                got_p[lab] = (vals, x["l"])
            pending = []
    for lab, ax in (("X", 0), ("Y", 1), ("Z", 2)):
        vals, ln = got_p.get(lab, ([], di["l"]))
        chk.instance(r_pm2, "directionIndices:" + lab, sample=dict(direction=lab, indices=vals))
        if sorted(vals) != [0, 1, 2] or vals[2] != ax:
            chk.violation(r_pm2, "directionIndices:" + lab, "directionIndices(Direction::%s) returns %s; required a permutation of (0, 1, 2) ending in %d, the axis of the completion: otherwise a %s completion takes its length, its perpendicular extents and permeabilities from the wrong axes and the defaulted Kh, r0 and CF are not the Peaceman values of the cell" % (lab, vals, ax, lab), di["file"], ln)
    for nm in ("permComponents", "effectiveExtent"):
        pf = [f for f in fx.fns if f["n"] == nm and f.get("body") and f["file"].endswith("WellConnections.cpp")]
        if len(pf) != 1:
            raise core.AnalysisBroken("%s not found" % nm)
        pf = pf[0]
        pv = [v["n"] for n in walk(pf["body"]) if n["k"] == "Decl" for v in n["vars"] if "directionIndices(" in show(v.get("init"))]
        arr = pf["params"][-1]["n"]
        rets = [x for x in walk(pf["body"]) if x["k"] == "Return" and isinstance(x.get("e"), dict)]
        picks = re.findall(r"%s\[%s\[(\d)\]\]" % (arr, pv[0] if pv else "?"), show(rets[-1]["e"])) if rets else []
        chk.instance(r_pm2, nm, sample=dict(function=pf["q"], picks=picks))
        if picks != ["0", "1", "2"]:
            chk.violation(r_pm2, nm, "%s returns components %s of `%s` through the direction indices; required [p[0]], [p[1]], [p[2]] in this order" % (nm, picks, arr), pf["file"], pf["l"])

    # effectiveRadius: Peaceman's equivalent radius for an anisotropic cell
    er = [f for f in fx.fns if f["n"] == "effectiveRadius" and f.get("body") and f["file"].endswith("WellConnections.cpp")]
    if len(er) != 1:
        raise core.AnalysisBroken("effectiveRadius not found")
    er = er[0]
    from verif import symb as sy6
    kp, dp = er["params"][0]["n"], er["params"][1]["n"]

    def F6(nm, *a):
        return sy6.S("%s(%s)" % (nm, ",".join(sy6.show_term(t) for t in a)))

    def leaf6(e):
        if e.get("k") in ("Idx", "OpCall") and len(e.get("c") or e.get("a") or []) == 2:
            b_, i_ = [strip(x) for x in (e.get("c") or e.get("a"))]
            if b_.get("k") == "Ref" and b_.get("n") in (kp, dp) and i_.get("k") == "Int":
                return sy6.S("%s%d" % ("K" if b_["n"] == kp else "D", int(i_["v"])))
        if e.get("k") == "Call" and e.get("a") is not None:
            nm = (e.get("fn") or "").split("::")[-1]
            if nm in ("sqrt", "pow"):
                args = [ev6.term(a_, env6) for a_ in e["a"]]
                if None not in args:
                    return F6(nm, *args)
        return None
    ev6 = sy6.Eval(leaf6, {v["n"] for n in walk(er["body"]) if n["k"] == "Decl" for v in n["vars"]})
    env6 = {}
    for n in walk(er["body"]):
        if n["k"] == "Decl":
            for v in n["vars"]:
                if isinstance(v.get("init"), dict):
                    env6[v["n"]] = ev6.term(v["init"], env6)
    rets6 = [x for x in walk(er["body"]) if x["k"] == "Return" and isinstance(x.get("e"), dict)]
    got6 = ev6.term(rets6[-1]["e"], env6) if rets6 else None
    K0, K1, D0, D1 = (sy6.S(x) for x in ("K0", "K1", "D0", "D1"))
    k01, k10 = sy6.div(K0, K1), sy6.div(K1, K0)
    num6 = F6("sqrt", sy6.add(sy6.mul(F6("sqrt", k10), sy6.mul(D0, D0)), sy6.mul(F6("sqrt", k01), sy6.mul(D1, D1))))
    den6 = sy6.add(F6("pow", k01, sy6.S("0.25")), F6("pow", k10, sy6.S("0.25")))
    want6 = sy6.mul(sy6.S("0.28"), sy6.div(num6, den6))
    chk.instance(r_pm2, "effectiveRadius", sample=dict(returns=sy6.show_term(got6)))
    if got6 is None or not sy6.same_ratio(got6, want6):
        chk.violation(r_pm2, "effectiveRadius", "effectiveRadius returns %s; Peaceman's equivalent radius is 0.28 sqrt(sqrt(K1/K0) D0^2 + sqrt(K0/K1) D1^2) / ((K0/K1)^(1/4) + (K1/K0)^(1/4))" % sy6.show_term(got6), er["file"], er["l"])

    # ---- C06.stable: re-ordering an ordered connection set leaves it as it is
    r_st = chk.rule("C06.stable", "TRACK ordering (WellConnections::orderTRACK swaps the result of a nearest-connection scan into each position; every update of a well re-orders) is idempotent: the scan runs upward from the first unplaced position and replaces its candidate only on a strictly smaller key (smaller I/J distance, or equal I/J distance and strictly smaller depth difference), so of equally near connections the one already in place stays", floor=4)
    ot = fx.fn("Opm::WellConnections::orderTRACK")
    if len(ot) != 1:
        raise core.AnalysisBroken("WellConnections::orderTRACK not found")
    ot = ot[0]
    scans = {n.get("m") for n in walk(ot["body"]) if n["k"] == "MCall" and show(strip(n.get("obj") or {})) == "this" and n.get("m") not in (None,) and "size_t" in (n.get("t") or "") + "size_t" and any(x["k"] == "Decl" and any(isinstance(v.get("init"), dict) and strip(v["init"]) is n for v in x["vars"]) for x in walk(ot["body"]))}
    scans = {m_ for m_ in scans if fx.fn("Opm::WellConnections::" + m_)}
    if len(scans) != 1:
        raise core.AnalysisBroken("orderTRACK: the scan function whose result is swapped into place was not identified (%s)" % sorted(scans))
    sc = fx.fn("Opm::WellConnections::" + list(scans)[0])[0]
    rets = [n for n in walk(sc["body"]) if n["k"] == "Return" and isinstance(n.get("e"), dict)]
    res = strip(rets[-1]["e"]).get("n") if rets and strip(rets[-1]["e"]).get("k") == "Ref" else None
    loops_s = [n for n in stmt_list(sc["body"]) if n["k"] == "For"]
    if res is None or len(loops_s) != 1:
        raise core.AnalysisBroken("%s: result variable / scan loop not found" % sc["q"])
    lp = loops_s[0]
    lv = lp["init"]["vars"][0]["n"]
    start = show(lp["init"]["vars"][0].get("init"))
    up = start in [p_["n"] for p_ in sc["params"]] and show(lp["cond"]) == "(%s < this.m_connections.size())" % lv and show(lp.get("inc")) in ("(++%s)" % lv, "(%s++)" % lv)
    chk.instance(r_st, "scan:direction", sample=dict(function=sc["q"], start=start, cond=show(lp["cond"]), step=show(lp.get("inc"))))
    if not up:
        chk.violation(r_st, "scan:direction", "%s no longer scans upward from its start position to the end of m_connections (for (%s = %s; %s; %s))" % (sc["q"], lv, start, show(lp["cond"]), show(lp.get("inc"))), sc["file"], lp["l"])
    outer = {v["n"] for n in stmt_list(sc["body"]) if n["k"] == "Decl" for v in n["vars"]}
    found = []

    def rec(n, conds):
        if n.get("k") == "Bin" and n.get("asg") and n.get("op") == "=" and strip(n["c"][0]).get("n") == res and strip(n["c"][0]).get("k") == "Ref":
            found.append((n, list(conds)))
        if n.get("k") == "If" and isinstance(n.get("cond"), dict):
            if isinstance(n.get("then"), dict):
                rec(n["then"], conds + [(n["cond"], n)])
            if isinstance(n.get("else"), dict):
                rec(n["else"], conds)
            return
        from verif.tree import children as _ch
        for c in _ch(n):
            rec(c, conds)
    rec(lp["body"], [])
    if not found:
        raise core.AnalysisBroken("%s: no assignment to the result `%s` in the scan loop" % (sc["q"], res))
    for asg, conds in found:
        key = "scan:replace@%s" % "&".join(show(c)[:30] for c, _ in conds)
        ok = show(strip(asg["c"][1])) == lv and bool(conds)
        why = ""
        for i_, (c, iff) in enumerate(conds):
            c = strip(c)
            op = c.get("op")
            kids = c.get("c") or []
            if c.get("k") != "Bin" or len(kids) != 2:
                ok, why = False, "condition `%s` is not a comparison" % show(c)
                break
            a_, b_ = strip(kids[0]), strip(kids[1])
            if op == ">":
                a_, b_, op = b_, a_, "<"
            runmin = b_.get("k") == "Ref" and b_.get("n") in outer
            if op == "<" and runmin:
                # the running minimum is updated to the new key in this branch
                upd = any(x["k"] == "Bin" and x.get("asg") and x["op"] == "=" and strip(x["c"][0]).get("n") == b_["n"] for x in walk(iff["then"]))
                if not upd:
                    ok, why = False, "the running minimum `%s` is not updated where the candidate is replaced" % b_["n"]
                    break
            elif op == "==" and i_ < len(conds) - 1 and (runmin or (a_.get("k") == "Ref" and a_.get("n") in outer)):
                continue
            else:
                ok, why = False, "the candidate is replaced under `%s`" % show(c)
                break
        if ok and strip(conds[-1][0]).get("op") not in ("<", ">"):
            ok, why = False, "the innermost condition `%s` is not a strict comparison" % show(conds[-1][0])
        chk.instance(r_st, key, sample=dict(function=sc["q"], line=asg["l"], conditions=[show(c) for c, _ in conds]))
        if not ok:
            chk.violation(r_st, key, "%s replaces its candidate at line %d although the new connection is not strictly nearer (%s): of two equally near connections the LATER one wins, so re-ordering an already ordered connection set - which every COMPDAT / WPIMULT / WELOPEN on the well does - permutes connections that were not targeted" % (sc["q"], asg["l"], why), sc["file"], asg["l"])
    sw = [n for n in walk(ot["body"]) if n["k"] == "Call" and (n.get("fn") or "").endswith("swap")]
    chk.instance(r_st, "orderTRACK:swap", sample=dict(swaps=[show(n) for n in sw]))

    # ---- C06.wpimultsel: which WPIMULT records are well-wide
    r_ws = chk.rule("C06.wpimultsel", "handleWPIMULT treats a record as well-wide (factor applied to every connection, at the end of the step) only when ALL its selection items - I, J, K, FIRST, LAST: every item after WELL and WELLPI, up to the end of the record - are defaulted or negative; a record that gives any of them goes to Well::handleWPIMULT, which scales only the connections it selects.  The keyword definition is read to confirm that the selection items are exactly items 3..7", floor=2)
    import json as _json
    hx6 = chk.facts(["opm/input/eclipse/Schedule/Well/WellPropertiesKeywordHandlers.cpp"])
    hw = [f for f in hx6.fns if f["n"] == "handleWPIMULT" and f.get("body") and f["file"].endswith("WellPropertiesKeywordHandlers.cpp")]
    if len(hw) != 1:
        raise core.AnalysisBroken("handleWPIMULT (keyword handler): %d definitions" % len(hw))
    hw = hw[0]
    kwp = os.path.join(chk.root if os.path.isdir(os.path.join(chk.root, "opm/input/eclipse/share/keywords")) else core.REPO, "opm/input/eclipse/share/keywords/000_Eclipse100/W/WPIMULT")
    try:
        names_ = [it_["name"] for it_ in _json.load(open(kwp))["items"]]
    except Exception as e_:
        raise core.AnalysisBroken("WPIMULT keyword definition unreadable: %s" % e_)
    chk.instance(r_ws, "keyword", sample=dict(items=names_))
    if names_ != ["WELL", "WELLPI", "I", "J", "K", "FIRST", "LAST"]:
        chk.violation(r_ws, "keyword", "the WPIMULT definition has items %s; the handler's `begin() + 2 .. end()` range assumes WELL, WELLPI followed by the five selection items" % names_, hw["file"], hw["l"])
    calls_ = [n for n in walk(hw["body"]) if n.get("k") == "Call" and (n.get("fn") or "").endswith("std::all_of")]
    okr = False
    det6 = [show(n)[:200] for n in calls_]
    if len(calls_) == 1 and len(calls_[0]["a"]) == 3:
        a0, a1, a2 = [strip(x) for x in calls_[0]["a"]]
        m0 = re.fullmatch(r"\(?(\w+)\.begin\(\) \+ 2\)?", show(a0)) or re.fullmatch(r"operator\+\((\w+)\.begin\(\), 2\)", show(a0))
        t1 = show(a1)
        lam = a2 if a2.get("k") == "Lambda" else None
        lb = [show(x) for x in stmt_list(lam["body"])] if lam is not None else []
        pn6 = lam["params"][0]["n"] if lam is not None and lam.get("params") else "?"
        okr = bool(m0) and t1 in ("%s.end()" % (m0.group(1) if m0 else "?"),) and lb in (["return (%s.defaultApplied(0) || (%s.get(0) < 0));" % (pn6, pn6)], ["return ((%s.get(0) < 0) || %s.defaultApplied(0));" % (pn6, pn6)])
        det6 = dict(first=show(a0), last=t1, predicate=lb)
    chk.instance(r_ws, "range", sample=dict(found=det6))
    if not okr:
        chk.violation(r_ws, "range", "handleWPIMULT decides 'well-wide' from %s; required: all_of(record.begin() + 2, record.end(), defaulted or negative) - with a shorter range a record that selects by completion numbers only is applied to every connection of the well" % det6, hw["file"], calls_[0]["l"] if calls_ else hw["l"])

    from verif import fallthrough
    fallthrough.run(chk, "C06", floor=16)
    from verif import argorder
    argorder.run(chk, "C06", floor=25)

    chk.assumptions += ["dimension table FIELDS/CELL in rules/C06.py (CF and Kh are L^3 in SI, Ke L^2, radii and lengths L, skin and the Peaceman denominator dimensionless); numeric literals are dimension-polymorphic (sentinels such as -1.0)"]
