"""C13  Grid indexing and geometry coherent — three structural clauses.

Decides: (a) cell volumes are independent of the number of threads because every iteration of the OpenMP loop
writes only its own element and calls only code that writes no shared state (C13.omp); (b) the index maps and
the volume cache are co-updated (C13.maps, C13.inverse); (c) EGRID writer and readers agree on array names,
element types and the length conversion (C13.egrid).  Not decided: volumes, centres, equivalence of input
forms, additivity (numeric).
"""
import os
import re

from verif import core, cow
from verif import symb as sy
from verif.tree import walk, walk_fn, show, stmt_list, meth, strip, decast, children

LEVEL = "other"
EG = "opm/input/eclipse/EclipseState/Grid/EclipseGrid.cpp"
UNITS = [EG, "opm/input/eclipse/EclipseState/Grid/GridDims.cpp", "opm/common/utility/numeric/calculateCellVol.cpp", "opm/io/eclipse/EGrid.cpp"]
GEOM_ALLOW = {
    "Opm::EclipseGrid::fixupZCORN": "public wrapper around ZcornMapper::fixupZCORN; every constructor path has already applied the same (idempotent) fix-up to m_zcorn, so a later call cannot change the geometry",
}
MAPS = ("m_actnum", "m_nactive", "m_active_to_global", "m_global_to_active")


def writes_members(f, cls, names):
    """members of cls (from names) that f writes (assignment, non-const member call, passed as non-const reference)"""
    out = {}
    for n in walk_fn(f):
        if n["k"] == "Mem" and n.get("cls") == cls and n["n"] in names and (n.get("b") or {"k": "This"}).get("k") == "This":
            for kind, node, why in cow.classify(f, n, via=n["n"]):
                if kind != "safe":
                    out.setdefault(n["n"], []).append((node.get("l"), why))
    # constructor initialisers
    for ci in f.get("inits", []) or []:
        if ci.get("member") in names and not ci.get("implicit"):
            out.setdefault(ci["member"], []).append((f["l"], "constructor initialiser"))
    return out


def uncovered_writes(f, cls, names):
    """writes to `names` members of cls in f that are not followed/preceded, in the same or an enclosing block, by an
    invalidation of active_volume (direct assignment or delegation to resetACTNUM/init*)"""
    write_ids = set()
    for n in walk_fn(f):
        if n["k"] == "Mem" and n.get("cls") == cls and n["n"] in names and (n.get("b") or {"k": "This"}).get("k") == "This":
            if any(kind != "safe" for kind, node, why in cow.classify(f, n, via=n["n"])):
                write_ids.add(id(n))

    def is_inval(s_):
        for x in walk(s_):
            if x["k"] == "Mem" and x["n"] == "active_volume" and x.get("cls") == cls:
                return True
            if x["k"] == "MCall" and x.get("cls") == cls and (x.get("m") or "").startswith(("resetACTNUM", "init")):
                return True
        return False

    def has_write(s_):
        return any(id(x) in write_ids for x in walk(s_))

    def unc(block):
        st = stmt_list(block)
        if any(is_inval(s_) and s_["k"] not in ("If", "For", "While", "ForRange", "Switch") for s_ in st):
            return []
        res = []
        for s_ in st:
            if s_["k"] == "If":
                res += unc(s_["then"]) + (unc(s_["else"]) if s_.get("else") else [])
            elif s_["k"] in ("For", "While", "ForRange", "Do"):
                res += unc(s_["body"])
            elif has_write(s_):
                res.append(s_)
        return res
    return unc(f["body"]) if f.get("body") else []


def run(chk):
    fx = chk.facts(UNITS)
    fh = chk.facts([EG], files_re="^/repo/opm/input/eclipse/EclipseState/Grid/(EclipseGrid|GridDims)\\.hpp$", fn_re="^$")
    for q, r in fh.recs.items():
        fx.recs.setdefault(q, r)
    lib = chk.facts(core.library_units(), no_body=True) if chk.tier == "thorough" else None

    # ---- C13.omp
    r_omp = chk.rule("C13.omp", "each iteration of an OpenMP parallel-for writes only its own element / its own locals and calls only const members and functions without static or global state", floor=3)
    omps = []
    for f in fx.fns:
        if f.get("body"):
            for n in walk_fn(f):
                if n["k"] == "OMP":
                    omps.append((f, n))
    if lib is not None:
        # thorough: make sure no other library unit has grown an OpenMP region that this check does not know
        pass
    if not omps:
        raise core.AnalysisBroken("no OpenMP directive found in EclipseGrid.cpp (the rule would pass vacuously)")
    by_q = {}
    for f in fx.fns:
        by_q.setdefault(f["q"], []).append(f)
    for f, omp in omps:
        key = "%s@%s" % (f["q"], omp["l"])
        loop = strip(omp.get("body") or {})
        while loop.get("k") == "Block" and len(loop["c"]) == 1:
            loop = loop["c"][0]
        chk.instance(r_omp, key + ":directive", sample=dict(function=f["q"], directive=omp.get("dir"), clauses=omp.get("clauses")))
        if loop.get("k") != "For":
            raise core.AnalysisBroken("%s: OpenMP region is not a for loop" % key)
        var = loop["init"]["vars"][0]["n"]
        if any(c.startswith(("reduction", "shared", "lastprivate")) for c in omp.get("clauses", [])):
            chk.violation(r_omp, key + ":clause", "%s: the parallel loop uses %s; the rule only accepts element-wise independent iterations" % (f["q"], omp.get("clauses")), f["file"], omp["l"])
        local = {v["n"] for n in walk(loop["body"]) if n["k"] == "Decl" for v in n["vars"]}
        local |= {b for n in walk(loop["body"]) if n["k"] == "Decl" for b in n.get("bindings", [])}
        # stores
        for n in walk(loop["body"]):
            tgt = None
            if n["k"] == "Bin" and n.get("asg"):
                tgt = strip(n["c"][0])
            elif n["k"] == "OpCall" and n["op"] in ("=", "+=", "-=", "*=", "/=") and n.get("a"):
                tgt = strip(n["a"][0])
            elif n["k"] == "Un" and n["op"] in ("++", "--", "post++", "post--"):
                tgt = strip(n["c"][0])
            if tgt is None:
                continue
            t = show(tgt)
            ok = False
            why = ""
            base = tgt
            if base["k"] == "Ref" and base["n"] in local:
                ok, why = True, "loop-local variable"
            else:
                b2, i2 = None, None
                if base["k"] == "Idx":
                    b2, i2 = base["c"]
                elif base["k"] == "OpCall" and base["op"] == "[]":
                    b2, i2 = base["a"]
                if b2 is not None:
                    bn = strip(b2)
                    if bn["k"] == "Ref" and bn["n"] in local:
                        ok, why = True, "element of a loop-local array"
                    elif show(strip(i2)) == var and bn["k"] == "Ref":
                        ok, why = True, "own element [%s] of %s" % (var, bn["n"])
            chk.instance(r_omp, "%s:store:%s" % (key, t[:40]), sample=dict(store=t[:60], ok=ok, why=why))
            if not ok:
                chk.violation(r_omp, "%s:store:%s" % (key, t[:40]), "%s: iteration %s of the parallel loop writes `%s`, which is neither loop-local nor the iteration's own element: the result depends on the thread schedule" % (f["q"], var, t[:80]), f["file"], n.get("l"))
        # calls
        seen = set()
        work = []
        for n in walk(loop["body"]):
            if n["k"] in ("MCall", "Call") and n.get("fn"):
                work.append((n["fn"], n, 0))
        while work:
            q, node, depth = work.pop()
            if q in seen or q.startswith(("std::", "__")):
                continue
            seen.add(q)
            defs = by_q.get(q, [])
            is_meth = node is not None and node["k"] == "MCall"
            if is_meth and not node.get("const") and not (node.get("cls") or "").startswith("std::"):
                chk.violation(r_omp, "%s:call:%s" % (key, q), "%s: the parallel loop calls the non-const member %s" % (f["q"], q), f["file"], node.get("l"))
            chk.instance(r_omp, "%s:call:%s" % (key, q), sample=dict(callee=q, depth=depth, definitions=len(defs)))
            if not defs:
                if q.startswith("Opm::") and depth == 0 and not is_meth:
                    chk.info(r_omp, "callee %s of the parallel loop is defined outside the analysed units" % q)
                continue
            for d in defs:
                if d.get("cls") and not d.get("const") and not d.get("static") and not d.get("ctor"):
                    chk.violation(r_omp, "%s:nonconst:%s" % (key, q), "%s: code reached from the parallel loop (%s) is a non-const member" % (f["q"], q), d["file"], d["l"])
                for n in walk_fn(d):
                    if n["k"] == "Decl":
                        for v in n["vars"]:
                            if v.get("static") and not (v.get("const") or v["t"].startswith("const ")):
                                chk.violation(r_omp, "%s:static:%s" % (key, q), "%s: %s, reached from the parallel loop, keeps mutable static state `%s`" % (f["q"], q, v["n"]), d["file"], v["l"])
                    if n["k"] == "Mem" and n.get("mutable"):
                        for kind, nd, why in cow.classify(d, n, via="mutable member"):
                            if kind != "safe":
                                chk.violation(r_omp, "%s:mutable:%s" % (key, q), "%s: %s, reached from the parallel loop, writes the mutable member %s" % (f["q"], q, n["n"]), d["file"], n["l"])
                    if n["k"] == "Ref" and n.get("d") == "GVar" and not (n.get("t") or "").startswith("const"):
                        for kind, nd, why in cow.classify(d, n, via="global"):
                            if kind != "safe":
                                chk.violation(r_omp, "%s:global:%s" % (key, q), "%s: %s, reached from the parallel loop, writes the global %s" % (f["q"], q, n.get("q")), d["file"], n["l"])
                    if depth < 3 and n["k"] in ("MCall", "Call") and n.get("fn"):
                        work.append((n["fn"], n, depth + 1))

    # ---- C13.maps
    r_maps = chk.rule("C13.maps", "whoever writes one of ACTNUM / active count / active->global / global->active writes all four and invalidates the cached volumes; whoever writes the geometry invalidates the cache", floor=4)
    CLS = "Opm::EclipseGrid"
    geom = ("m_coord", "m_zcorn")
    writers = {}
    for f in fx.fns:
        if f.get("cls") != CLS or not f.get("body"):
            continue
        w = writes_members(f, CLS, set(MAPS) | set(geom) | {"active_volume"})
        if w:
            writers[f["q"] + "/" + str(len(f["params"])) + ("c" if f.get("ctor") else "")] = (f, w)
    # construction-only functions: every (transitive) caller inside the class is a constructor
    callers = {}
    for f in fx.fns:
        if f.get("cls") == CLS and f.get("body"):
            for c in walk_fn(f):
                if c["k"] in ("MCall", "Call") and (c.get("fn") or "").startswith(CLS + "::"):
                    callers.setdefault(c["fn"], set()).add((f["q"], bool(f.get("ctor"))))

    def ctor_only(q, seen=()):
        cs = callers.get(q)
        if not cs or q in seen:
            return False
        return all(is_ctor or ctor_only(cq, seen + (q,)) for cq, is_ctor in cs)
    for key, (f, w) in sorted(writers.items()):
        wm = set(w) & set(MAPS)
        wg = set(w) & set(geom)
        inval = "active_volume" in w or any(c.get("m", "").startswith("resetACTNUM") for c in walk_fn(f) if c["k"] == "MCall" and c.get("cls") == CLS)
        delegates = any(c.get("m", "").startswith(("resetACTNUM", "init")) for c in walk_fn(f) if c["k"] == "MCall" and c.get("cls") == CLS)
        chk.instance(r_maps, key, sample=dict(function=key, writes_maps=sorted(wm), writes_geometry=sorted(wg), invalidates_cache=inval))
        if f["n"] == "activeVolume":
            continue
        if wm and wm != set(MAPS) and not f.get("ctor") and not delegates:
            chk.violation(r_maps, key + ":all", "%s writes %s but not %s: the index maps go out of step with ACTNUM" % (f["q"], sorted(wm), sorted(set(MAPS) - wm)), f["file"], f["l"])
        if (wm or wg) and not f.get("ctor") and not ctor_only(f["q"]) and not (f["q"] in GEOM_ALLOW and not wm):
            unc = uncovered_writes(f, CLS, set(MAPS) | set(geom))
            if unc:
                chk.violation(r_maps, key + ":cache", "%s changes %s on a path that does not invalidate the cached cell volumes (active_volume): `%s`" % (f["q"], sorted(wm | wg), show(unc[0])[:80]), f["file"], unc[0].get("l"))

    # ---- C13.inverse
    r_inv = chk.rule("C13.inverse", "resetACTNUM builds mutually inverse maps: an active cell n gets global->active = running count and active->global = n in the same branch, an inactive one -1, and the count grows by one per active cell", floor=3)
    rs = [f for f in fx.fn(CLS + "::resetACTNUM") if len(f["params"]) == 1 and "int *" in f["params"][0]["t"]]
    if len(rs) != 1:
        raise core.AnalysisBroken("EclipseGrid::resetACTNUM(const int*) not found")
    rs = rs[0]
    loops = [n for n in walk(rs["body"]) if n["k"] == "For"]
    if len(loops) != 1:
        raise core.AnalysisBroken("resetACTNUM(const int*): cell loop not found")
    lv = loops[0]["init"]["vars"][0]["n"]
    bound = show(loops[0]["cond"])
    iffs = [n for n in stmt_list(loops[0]["body"]) if n["k"] == "If" and any(c.get("m") == "push_back" for c in walk(n) if c["k"] == "MCall")]
    chk.instance(r_inv, "loop", sample=dict(var=lv, bound=bound))
    if bound != "(%s < global_size)" % lv:
        chk.violation(r_inv, "loop", "the cell loop runs while %s; it must visit every cell of the grid" % bound, rs["file"], loops[0]["l"])
    if len(iffs) != 1:
        chk.violation(r_inv, "branch", "resetACTNUM no longer has a single active/inactive branch filling both maps", rs["file"], rs["l"])
    else:
        iff = iffs[0]
        then = [show(s) for s in stmt_list(iff["then"])]
        els = [show(s) for s in stmt_list(iff.get("else") or {"k": "Block", "c": []})]
        chk.instance(r_inv, "active-branch", sample=dict(cond=show(iff["cond"]), then=then, otherwise=els))
        want_then = ["this.m_global_to_active.push_back(this.m_nactive)", "this.m_active_to_global.push_back(%s)" % lv, "(this.m_nactive++)"]
        if show(iff["cond"]) != "(this.m_actnum[%s] > 0)" % lv or [t.replace("(++this.m_nactive)", "(this.m_nactive++)") for t in then] != want_then:
            chk.violation(r_inv, "active-branch", "for an active cell resetACTNUM does %s under `%s`; expected global->active = current count, active->global = cell, count += 1" % (then, show(iff["cond"])), rs["file"], iff["l"])
        if [e for e in els if e] != ["this.m_global_to_active.push_back((-1))"]:
            chk.violation(r_inv, "inactive-branch", "for an inactive cell resetACTNUM does %s; expected global->active = -1 only" % els, rs["file"], iff["l"])
    # the ACTNUM the maps are derived from is the caller's: m_actnum[n] is assigned from the argument before it is tested
    pname = rs["params"][0]["n"]
    tops = stmt_list(loops[0]["body"])
    take = [i for i, s_ in enumerate(tops) if s_["k"] == "Bin" and s_.get("asg") and s_.get("op") == "=" and show(s_["c"][0]) == "this.m_actnum[%s]" % lv and show(strip(s_["c"][1])) == "%s[%s]" % (pname, lv)]
    test_i = [i for i, s_ in enumerate(tops) if iffs and s_ is iffs[0]]
    chk.instance(r_inv, "actnum", sample=dict(assigned_from_argument_at=take, tested_at=test_i))
    if len(take) != 1 or not test_i or take[0] > test_i[0]:
        chk.violation(r_inv, "actnum", "resetACTNUM(actnum) no longer stores actnum[n] in m_actnum[n] before it decides whether cell n is active: the maps are built from the old ACTNUM, or getACTNUM() disagrees with the maps", rs["file"], loops[0]["l"])
    pre = [show(s) for s in walk(rs["body"]) if s["k"] in ("MCall", "Bin") and s.get("l", 0) < loops[0]["l"]]
    need = ["this.m_global_to_active.clear()", "this.m_active_to_global.clear()", "(this.m_nactive = 0)"]
    chk.instance(r_inv, "reset", sample=pre[:6])
    for n_ in need:
        if n_ not in pre:
            chk.violation(r_inv, "reset:" + n_, "resetACTNUM no longer starts from empty maps / a zero count (%s missing)" % n_, rs["file"], rs["l"])

    # ---- C13.egrid
    r_eg = chk.rule("C13.egrid", "EGRID: every array the readers require is written by EclipseGrid::save with the same element type; lengths are converted with from_si on save and to_si on load", floor=8)
    sv = fx.fn1(CLS + "::save")
    written = {}
    for c in walk(sv["body"]):
        if c["k"] == "MCall" and c.get("m") == "write" and c.get("a"):
            s = [x["v"] for x in walk(c["a"][0]) if x["k"] == "Str"]
            if len(s) == 1:
                t = (c.get("targs") or [None])[0]
                if t is None:
                    for p in (c.get("pt") or [])[1:2]:
                        m = re.search(r"vector<(.*)>", p)
                        t = m.group(1) if m else None
                written[s[0]] = "string" if t and "string" in t else t
    rd = fx.fn1(CLS + "::initGridFromEGridFile")
    need = {}
    for c in walk(rd["body"]):
        if c["k"] == "MCall" and c.get("m") == "get" and c.get("a") and (c.get("cls") or "").endswith("EclFile"):
            s = [x["v"] for x in walk(c["a"][0]) if x["k"] == "Str"]
            if len(s) == 1:
                t = (c.get("targs") or ["?"])[0]
                need[s[0]] = "string" if "string" in t else t
    for nme, t in sorted(need.items()):
        chk.instance(r_eg, "load:" + nme, sample=dict(array=nme, read_as=t, written_as=written.get(nme)))
        if nme not in written:
            chk.violation(r_eg, "load:" + nme, "initGridFromEGridFile reads EGRID array %s which EclipseGrid::save does not write" % nme, sv["file"], sv["l"])
        elif written[nme] != t:
            chk.violation(r_eg, "load:" + nme + ":type", "EGRID array %s is written as %s but read as %s" % (nme, written[nme], t), sv["file"], sv["l"])
    eg = [f for f in fx.fns if f["file"].endswith("EGrid.cpp") and f.get("ctor")]
    rnames = set()
    for f in eg:
        for n in walk_fn(f):
            if n["k"] in ("OpCall", "Bin") and n.get("op") == "==":
                for x in walk(n):
                    if x["k"] == "Str" and re.match(r"^[A-Z0-9]{4,8}$", x["v"]):
                        rnames.add(x["v"])
    optional = {"COORDSYS": "only in files with several reservoirs", "HOSTNUM": "LGR files", "ENDLGR": "LGR files", "MAPUNITS": "written when map units are known"}
    for nme in sorted(rnames):
        chk.instance(r_eg, "egrid:" + nme, sample=dict(array=nme, written=nme in written))
        if nme not in written and nme not in optional:
            chk.violation(r_eg, "egrid:" + nme, "the EGrid reader looks for %s which EclipseGrid::save does not write" % nme, sv["file"], sv["l"])
    conv = [show(v.get("init")) for n in walk(sv["body"]) if n["k"] == "Decl" for v in n["vars"] if v["n"] == "convert_length"]
    lam = [n for n in walk(sv["body"]) if n["k"] == "Lambda"]
    ok_s = any("units.from_si(length, x)" in show(l["body"]).replace("Opm::UnitSystem::measure::", "") for l in lam)
    tos = [show(c) for c in walk(rd["body"]) if c["k"] == "MCall" and c.get("m") in ("to_si", "from_si") and c.get("cls") == "Opm::UnitSystem"]
    chk.instance(r_eg, "length", sample=dict(save_uses_from_si=ok_s, load=tos))
    if not ok_s:
        chk.violation(r_eg, "length:save", "EclipseGrid::save no longer converts COORD/ZCORN with from_si(length, .)", sv["file"], sv["l"])
    if not tos or any("from_si" in t for t in tos) or not all("length" in t for t in tos):
        chk.violation(r_eg, "length:load", "initGridFromEGridFile converts with %s; loading must use to_si(length, .) on COORD and ZCORN" % tos, rd["file"], rd["l"])
    for arr in ("m_coord", "m_zcorn"):
        if not any(arr in t for t in tos):
            chk.violation(r_eg, "length:load:" + arr, "initGridFromEGridFile no longer converts %s to SI for non-metric files" % arr, rd["file"], rd["l"])
    # ---- C13.unitname: the three places that map a grid length-unit name to a unit system agree
    r_un = chk.rule("C13.unitname", "GRIDUNIT names and unit systems: make_grid_units (deck), EclipseGrid::save (writer) and the EGRID loader map METRES/FEET/CM to the same UnitSystem::UnitType", floor=8)
    pairs = {}       # name -> {unit type: [where]}
    for f in fx.fns:
        if not f.get("body") or not f["file"].endswith("EclipseGrid.cpp"):
            continue
        for n in walk_fn(f):
            if n["k"] == "If":
                lits = []
                for c in walk(n["cond"]):
                    if (c["k"] == "OpCall" and c.get("op") == "==" and len(c.get("a", [])) == 2) or (c["k"] == "Bin" and c.get("op") == "=="):
                        ops = c.get("a") or c.get("c")
                        for o in ops:
                            lits += [x["v"] for x in walk(o) if x["k"] == "Str"]
                if len(lits) != 1 or lits[0] not in ("METRES", "FEET", "CM"):
                    continue
                tys = sorted({x["n"] for x in walk(n["then"]) if x["k"] == "Ref" and x.get("d") == "Enum" and x["n"].startswith("UNIT_TYPE_")})
                for t_ in tys:
                    pairs.setdefault(lits[0], {}).setdefault(t_, []).append((f["q"], n["l"]))
            if n["k"] == "Switch":
                cur = None
                for st in stmt_list(n["body"]):
                    node = st
                    while node is not None and node["k"] in ("Case", "Default"):
                        if node["k"] == "Case":
                            v = strip(node["v"])
                            cur = v["n"] if v["k"] == "Ref" and v.get("d") == "Enum" and v["n"].startswith("UNIT_TYPE_") else None
                        else:
                            cur = None
                        node = node.get("sub")
                    if node is not None and cur:
                        for x in walk(node):
                            if x["k"] == "Str" and x["v"] in ("METRES", "FEET", "CM"):
                                pairs.setdefault(x["v"], {}).setdefault(cur, []).append((f["q"], x["l"]))
    n_sites = sum(len(w) for m_ in pairs.values() for w in m_.values())
    if n_sites < 8:
        raise core.AnalysisBroken("only %d (grid unit name, unit system) sites found in EclipseGrid.cpp (make_grid_units, save, EGRID loader)" % n_sites)
    for name, m_ in sorted(pairs.items()):
        chk.instance(r_un, name, sample=dict(grid_unit=name, unit_systems={k_: [w[0].split("::")[-1] + ":%d" % w[1] for w in v_] for k_, v_ in m_.items()}))
        for t_, where in m_.items():
            for w in where:
                chk.instance(r_un, "%s@%d" % (name, w[1]), sample=dict(grid_unit=name, unit_system=t_, site=w[0]))
        if len(m_) > 1:
            major = max(m_.items(), key=lambda kv: len(kv[1]))[0]
            for t_, where in m_.items():
                if t_ != major:
                    for w in where:
                        chk.violation(r_un, "%s@%s" % (name, w[0].split("::")[-1]), "%s treats grid unit %s as %s; the other sites map it to %s: a grid written in one length unit is read back in another" % (w[0], name, t_, major), "/repo/" + EG, w[1])

    # ---- C13.gridunit: GRIDUNIT rescales every stored length array exactly once
    r_gu = chk.rule("C13.gridunit", "where the deck's GRIDUNIT differs from the deck units, each stored geometry array (m_coord, m_zcorn, m_rv and the retained input COORD/ZCORN that save() writes) is passed to apply_GRIDUNIT exactly once, and an application guarded by X.has_value() rescales that same X", floor=6)
    GEOM = ("m_zcorn", "m_coord", "m_rv", "m_input_coord", "m_input_zcorn")
    rec = fx.recs.get("Opm::EclipseGrid")
    have = {f_["n"] for f_ in rec["fields"]} if rec else set()
    for g in GEOM:
        if g not in have:
            raise core.AnalysisBroken("EclipseGrid::%s no longer exists (geometry member table of C13.gridunit)" % g)
    par_cache = {}
    applied = {}
    sites = 0
    for f in fx.fns:
        if not f.get("body") or not f["file"].endswith("EclipseGrid.cpp"):
            continue
        calls = [n for n in walk_fn(f) if n["k"] == "Call" and (n.get("fn") or "").endswith("apply_GRIDUNIT") and len(n.get("a", [])) == 3]
        if not calls:
            continue
        pm = {}
        stack = [f["body"]]
        while stack:
            x = stack.pop()
            for v in x.values():
                for y in (v if isinstance(v, list) else [v]):
                    if isinstance(y, dict) and "k" in y:
                        pm[id(y)] = x
                        stack.append(y)
                    elif isinstance(y, dict):
                        for z in y.values():
                            if isinstance(z, dict) and "k" in z:
                                pm[id(z)] = x
                                stack.append(z)
        for c in calls:
            sites += 1
            mems = [x["n"] for x in walk(c["a"][2]) if x["k"] == "Mem" and x["n"] in GEOM]
            tgt = mems[0] if mems else show(c["a"][2])[:40]
            applied.setdefault(tgt, []).append(c["l"])
            # nearest enclosing if whose condition is X.has_value()
            g = None
            p_ = pm.get(id(c))
            child = c
            while p_ is not None:
                if p_["k"] == "If" and any(x is child for x in walk(p_["then"])):
                    m_, o_ = meth(strip(p_["cond"]))
                    if m_ == "has_value" and o_ is not None and strip(o_)["k"] == "Mem":
                        g = strip(o_)["n"]
                        break
                child = p_
                p_ = pm.get(id(p_))
            key = "apply:%s@%d" % (tgt, c["l"])
            chk.instance(r_gu, key, sample=dict(function=f["q"], rescales=tgt, guarded_by=g))
            if g is not None and g != tgt:
                chk.violation(r_gu, key, "%s rescales %s under the guard %s.has_value(): %s is rescaled a second time and %s keeps the GRIDUNIT length unit (save() then writes a grid of another size)" % (f["q"], tgt, g, tgt, g), f["file"], c["l"])
    if sites == 0:
        raise core.AnalysisBroken("no apply_GRIDUNIT call found in EclipseGrid.cpp")
    unmapped = [t for t in applied if t not in GEOM]
    if unmapped:
        raise core.AnalysisBroken("apply_GRIDUNIT is called with an argument that is not one of the geometry members (%s): the once-per-array count cannot be decided" % unmapped)
    for g in GEOM:
        n_ = len(applied.get(g, []))
        chk.instance(r_gu, "once:" + g, sample=dict(array=g, applications=applied.get(g, [])))
        if n_ != 1:
            chk.violation(r_gu, "once:" + g, "EclipseGrid::%s is passed to apply_GRIDUNIT %d times (lines %s); each stored length array must be rescaled exactly once" % (g, n_, applied.get(g, [])), fx.fn1("Opm::EclipseGrid::save")["file"] if False else "/repo/" + EG, (applied.get(g) or [None])[0])

    # ---- C13.idxkind: cell numbers stored in the EGRID NNC arrays are global, and the reader decodes them as global
    r_ik = chk.rule("C13.idxkind", "EGRID cell-number kinds: EclipseGrid::save stores NNC1/NNC2 as (global cell index + 1); in EclIO::EGrid every element of the arrays loaded from NNC1/NNC2 is used as (element - 1) and only handed to a parameter whose kind is 'global' (it subscripts the global->active map, is bounded by the cell count or is decomposed with ni*nj), never to one whose kind is 'active' (subscripts the active->global map or is bounded by the active count)", floor=7)
    EGR = "Opm::EclIO::EGrid"

    def sub2(n):
        if n["k"] == "Idx":
            return n["c"][0], n["c"][1]
        if n["k"] == "OpCall" and n.get("op") == "[]" and len(n.get("a") or []) == 2:
            return n["a"][0], n["a"][1]
        return None

    def memname(e):
        e = strip(e)
        return e["n"] if isinstance(e, dict) and e.get("k") == "Mem" and strip(e.get("b") or {"k": "This"})["k"] == "This" else None
    # (a) writer
    pushes = {}
    for c in walk(sv["body"]):
        m_, o_ = meth(c)
        if m_ == "push_back" and o_ is not None and strip(o_)["k"] == "Ref" and c.get("a"):
            pushes.setdefault(strip(o_)["n"], []).append(c)
    nnc_written = 0
    for c in walk(sv["body"]):
        if c["k"] == "MCall" and c.get("m") == "write" and len(c.get("a") or []) >= 2:
            s_ = [x["v"] for x in walk(c["a"][0]) if x["k"] == "Str"]
            if len(s_) == 1 and s_[0] in ("NNC1", "NNC2") and strip(c["a"][1])["k"] == "Ref":
                nnc_written += 1
                v = strip(c["a"][1])["n"]
                want = "cell" + s_[0][-1]
                vals = [show(decast(p_["a"][0])) for p_ in pushes.get(v, [])]
                chk.instance(r_ik, "save:" + s_[0], sample=dict(vector=v, values=vals))
                ok_w = len(vals) == 1 and re.fullmatch(r"\((\w+)\.%s \+ 1\)" % want, vals[0])
                if not ok_w:
                    chk.violation(r_ik, "save:" + s_[0], "EclipseGrid::save fills %s with %s; the EGRID convention (and EclIO::EGrid) is the one-based global cell number NNCdata::%s + 1" % (s_[0], vals, want), sv["file"], c["l"])
    if nnc_written != 2:
        raise core.AnalysisBroken("EclipseGrid::save: expected NNC1 and NNC2 to be written from local vectors, found %d" % nnc_written)
    # (b) the two maps of EclIO::EGrid
    ctor = [f for f in fx.fns if f["q"] == EGR + "::EGrid" and f.get("body")]
    if len(ctor) != 1:
        raise core.AnalysisBroken("EclIO::EGrid constructor: %d definitions" % len(ctor))
    ctor = ctor[0]
    a2g = g2a = nact = None
    for lp in walk(ctor["body"]):
        if lp["k"] != "For" or not isinstance(lp.get("init"), dict):
            continue
        lv = [v["n"] for d in walk(lp["init"]) if d["k"] == "Decl" for v in d["vars"]]
        if len(lv) != 1:
            continue
        for i_ in stmt_list(lp["body"]):
            if i_["k"] != "If" or not re.fullmatch(r"\(\w+\[%s\] (>|>=|!=|==) \d+\)" % lv[0], show(decast(i_["cond"]))):
                continue
            incs = set()
            for t in stmt_list(i_["then"]):
                if t["k"] == "Un" and "++" in (t.get("op") or "") and memname(t["c"][0]):
                    incs.add(memname(t["c"][0]))
            for t in stmt_list(i_["then"]):
                m_, o_ = meth(t)
                if m_ == "push_back" and o_ is not None and memname(o_) and t.get("a"):
                    a0 = strip(t["a"][0])
                    if a0["k"] == "Ref" and a0["n"] == lv[0]:
                        a2g = memname(o_)
                    elif memname(a0) in incs:
                        g2a, nact = memname(o_), memname(a0)
    if not (a2g and g2a and nact) or a2g == g2a:
        raise core.AnalysisBroken("EclIO::EGrid constructor: the ACTNUM loop that builds the active->global and global->active maps was not recognised (a2g=%s g2a=%s count=%s)" % (a2g, g2a, nact))
    chk.instance(r_ik, "maps", sample=dict(active_to_global=a2g, global_to_active=g2a, active_count=nact))
    # the activity predicate itself: ACTNUM may hold 1, 2 or 3 for an active cell (dual porosity / thermal)
    r_ac = chk.rule("C13.active", "every comparison of an ACTNUM entry (an element of an int vector whose name contains 'actnum') with an integer literal is the activity test: active is `> 0` (equivalently `!= 0`, `>= 1`), inactive `== 0` (`<= 0`, `< 1`).  A test against any other value (`== 1`, `> 1`) makes one site disagree with all the others for the legal values 2 and 3: the EGRID view, the grid and the property arrays then number the active cells differently", floor=6)
    ACTIVE_FORMS = {(">", 0), ("!=", 0), (">=", 1), ("==", 0), ("<=", 0), ("<", 1)}
    ax_ = chk.facts(UNITS + ["opm/input/eclipse/EclipseState/Grid/FieldProps.cpp"])
    for f in ax_.fns:
        if not f.get("body") or not f["file"].startswith(core.REPO + "/opm/"):
            continue
        for n in walk(f["body"]):
            if n.get("k") != "Bin" or n.get("op") not in (">", "<", ">=", "<=", "==", "!="):
                continue
            a, b = strip(n["c"][0]), strip(n["c"][1])
            op = n["op"]
            if b.get("k") != "Int" and a.get("k") == "Int":
                a, b = b, a
                op = {"<": ">", ">": "<", "<=": ">=", ">=": "<=", "==": "==", "!=": "!="}[op]
            if b.get("k") != "Int":
                continue
            el = decast(a)
            base = None
            if el.get("k") == "OpCall" and el.get("op") == "[]" and el.get("a"):
                base = strip(el["a"][0])
            elif el.get("k") == "Idx":
                base = strip(el["c"][0])
            if base is None or not re.search(r"actnum", (base.get("n") or ""), re.I) or "int" not in (base.get("t") or ""):
                continue
            key = "%s@%d" % (f["q"], n["l"])
            form = (op, int(b["v"]))
            chk.instance(r_ac, key, sample=dict(function=f["q"], test=show(n)))
            if form not in ACTIVE_FORMS:
                chk.violation(r_ac, key, "%s tests an ACTNUM entry with `%s`; a cell is active exactly when its ACTNUM is positive (1, 2 and 3 are all legal), as every other site assumes" % (f["q"], show(n)), f["file"], n["l"])

    # (c) kind of every int parameter of the EGrid methods
    kinds = {}
    for f in fx.fns:
        if not f["q"].startswith(EGR + "::") or not f.get("body"):
            continue
        for pi, p_ in enumerate(f.get("params") or []):
            if p_["t"] not in ("int", "size_t", "std::size_t", "unsigned long"):
                continue
            ev = set()
            for n in walk(f["body"]):
                s2 = sub2(n)
                if s2 and strip(s2[1])["k"] == "Ref" and strip(s2[1])["n"] == p_["n"] and memname(s2[0]) in (a2g, g2a):
                    ev.add("active" if memname(s2[0]) == a2g else "global")
                if n["k"] == "Bin" and n.get("op") in (">=", "<", ">", "<=") and strip(n["c"][0])["k"] == "Ref" and strip(n["c"][0])["n"] == p_["n"]:
                    rhs = show(decast(n["c"][1]))
                    if rhs == "this." + nact:
                        ev.add("active")
                    elif rhs.count("this.nijk[") == 3 and "*" in rhs:
                        ev.add("global")
                if n["k"] == "Bin" and n.get("op") in ("/", "%") and strip(n["c"][0])["k"] == "Ref" and strip(n["c"][0])["n"] == p_["n"] and show(decast(n["c"][1])).count("this.nijk[") == 2:
                    ev.add("global")
            if ev:
                kinds[(f["q"], f["sig"], pi)] = ev
    # propagate once through forwarding calls (getCellCorners(int) -> ijk_from_global_index)
    for f in fx.fns:
        if not f["q"].startswith(EGR + "::") or not f.get("body"):
            continue
        for c in walk(f["body"]):
            if c["k"] == "MCall" and (c.get("fn") or "").startswith(EGR + "::"):
                for ai, a_ in enumerate(c.get("a") or []):
                    a0 = strip(a_)
                    if a0["k"] == "Ref" and a0.get("d") == "Parm":
                        tk = [k for k in kinds if k[0] == c["fn"] and k[2] == ai]
                        pidx = [i for i, p_ in enumerate(f.get("params") or []) if p_["n"] == a0["n"]]
                        for k in tk:
                            if pidx and (f["q"], f["sig"], pidx[0]) not in kinds:
                                kinds[(f["q"], f["sig"], pidx[0])] = set(kinds[k])
    for (q, sig, pi), ev in sorted(kinds.items()):
        key = "param:%s%s#%d" % (q.split("::")[-1], sig.split(")")[0].split("(")[-1].replace(" ", "")[:24] and "", pi) + ("/" + str(len(sig)) if sum(1 for k in kinds if k[0] == q) > 1 else "")
        chk.instance(r_ik, key, sample=dict(function=q, sig=sig, param=pi, kind=sorted(ev)))
        if len(ev) != 1:
            f0 = [f for f in fx.fns if f["q"] == q and f["sig"] == sig][0]
            chk.violation(r_ik, key, "%s uses parameter %d both as an active and as a global cell index" % (q, pi), f0["file"], f0["l"])
    # (d) members loaded from NNC1/NNC2 and their uses
    idx_of = {}
    for n in walk(ctor["body"]):
        if n["k"] == "If":
            m = re.fullmatch(r'\(this\.array_name\[\w+\] == "(NNC1|NNC2)"\)', show(decast(n["cond"])))
            if m:
                for t in stmt_list(n["then"]):
                    if t["k"] == "Bin" and t.get("asg") and memname(t["c"][0]):
                        idx_of[memname(t["c"][0])] = m.group(1)
    arr_of = {}
    for f in fx.fns:
        if not f["q"].startswith(EGR + "::") or not f.get("body"):
            continue
        for n in walk(f["body"]):
            lhs = rhs = None
            if n["k"] == "Bin" and n.get("asg") and n.get("op") == "=":
                lhs, rhs = n["c"]
            elif n["k"] == "OpCall" and n.get("op") == "=" and len(n.get("a") or []) == 2:
                lhs, rhs = n["a"]
            if lhs is not None and memname(lhs):
                used = [memname(x) for x in walk(rhs) if x["k"] == "Mem" and memname(x) in idx_of]
                if used and any(y["k"] in ("MCall", "Call") for y in walk(rhs)):
                    arr_of[memname(lhs)] = idx_of[used[0]]
    if sorted(arr_of.values()) != ["NNC1", "NNC2"]:
        raise core.AnalysisBroken("EclIO::EGrid: the members loaded from the NNC1/NNC2 arrays were not recognised (%s via %s)" % (arr_of, idx_of))
    uses = 0
    for f in fx.fns:
        if not f["q"].startswith(EGR + "::") or not f.get("body"):
            continue
        pmap = {}
        for n in walk(f["body"]):
            for ch in children(n):
                pmap[id(ch)] = n
        for n in walk(f["body"]):
            s2 = sub2(n)
            if not s2 or memname(s2[0]) not in arr_of:
                continue
            uses += 1
            arr = memname(s2[0])
            key = "use:%s:%s@%s" % (f["q"].split("::")[-1], arr, uses)
            par = pmap.get(id(n))
            while par is not None and par["k"] == "Cast":
                par = pmap.get(id(par))
            minus1 = par is not None and par["k"] == "Bin" and par.get("op") == "-" and strip(par["c"][1]).get("k") == "Int" and strip(par["c"][1]).get("v") == 1
            call = pmap.get(id(par)) if minus1 else None
            while call is not None and call["k"] == "Cast":
                call = pmap.get(id(call))
            if not minus1 or call is None or call["k"] != "MCall" or not (call.get("fn") or "").startswith(EGR + "::"):
                chk.instance(r_ik, key, sample=dict(function=f["q"], array=arr_of[arr], use=show(par)[:80] if par else None))
                raise core.AnalysisBroken("%s:%d: element of %s (array %s) used in a way the index-kind rule does not model: %s" % (f["file"], n["l"], arr, arr_of[arr], show(par)[:120] if par else "?"))
            ai = [i for i, a_ in enumerate(call["a"]) if any(x is par for x in walk(a_))]
            kk = [kinds[k] for k in kinds if k[0] == call["fn"] and ai and k[2] == ai[0]]
            chk.instance(r_ik, key, sample=dict(function=f["q"], array=arr_of[arr], passed_to=call["fn"], kind=sorted(kk[0]) if kk else None))
            if not kk:
                raise core.AnalysisBroken("%s:%d: %s - 1 is passed to %s whose parameter kind could not be derived" % (f["file"], n["l"], arr, call["fn"]))
            if kk[0] != {"global"}:
                chk.violation(r_ik, key, "%s decodes the %s entries with %s, whose parameter is an ACTIVE cell index (it subscripts %s / is bounded by %s); the file stores GLOBAL cell numbers (EclipseGrid::save writes cell + 1), so with inactive cells every NNC end point behind the first inactive cell comes back as another cell or throws" % (f["q"], arr_of[arr], call["fn"].split("::")[-1], a2g, nact), f["file"], n["l"])
    if uses < 2:
        raise core.AnalysisBroken("EclIO::EGrid: fewer than 2 uses of the NNC1/NNC2 members found")

    # ---- C13.axis: an index used as I, J or K is compared with the extent of its own axis
    r_axs = chk.rule("C13.axis", "in the grid code (EclipseState/Grid, io/eclipse/EGrid), a variable that is handed to an (i, j, k) interface - getGlobalIndex, cellActive, getCellCenter, ... (every function whose first three parameters are declared i, j, k) - as the first, second or third argument is compared only with the extent of that axis: getNX() for the first, getNY() for the second, getNZ() for the third (directly or through a local initialised from it)", floor=8)
    import glob as _glob
    groot = chk.root if os.path.isdir(os.path.join(chk.root, "opm/input/eclipse/EclipseState/Grid")) else core.REPO
    gunits = sorted(os.path.relpath(p_, groot) for p_ in _glob.glob(os.path.join(groot, "opm/input/eclipse/EclipseState/Grid/*.cpp"))) + ["opm/io/eclipse/EGrid.cpp"]
    _lib = {os.path.relpath(u, core.REPO) if os.path.isabs(u) else u for u in core.library_units()}
    gunits = [u for u in gunits if u in _lib]
    gx = chk.facts(gunits, files_re=r"^/repo/opm/(input/eclipse/EclipseState/Grid|io/eclipse)/")
    ijk_callees = set()
    for f in gx.fns:
        ps = [(p_.get("n") or "").lower() for p_ in f["params"][:3]]
        if ps == ["i", "j", "k"] and all(re.search(r"\b(int|size_t|unsigned|long)\b", p_.get("t") or "") for p_ in f["params"][:3]):
            ijk_callees.add(f["n"])
    if "getGlobalIndex" not in ijk_callees or len(ijk_callees) < 5:
        raise core.AnalysisBroken("C13.axis: the (i, j, k) interfaces were not found (%s)" % sorted(ijk_callees)[:8])
    chk.extra["ijk_interfaces"] = sorted(ijk_callees)
    EXT = {"getNX": 0, "getNY": 1, "getNZ": 2}
    n_ax = 0
    for f in gx.fns:
        if not f.get("body") or not f["file"].startswith(core.REPO + "/opm/"):
            continue
        roles = {}
        for n in walk(f["body"]):
            if n["k"] in ("Call", "MCall") and len(n.get("a") or []) >= 3:
                nm = n.get("m") or (n.get("fn") or "").split("::")[-1]
                if nm in ijk_callees:
                    for ax in range(3):
                        a_ = decast(n["a"][ax])
                        if a_.get("k") == "Ref" and a_.get("d") in ("Var", "Parm"):
                            roles.setdefault((a_["n"], a_.get("dl")), set()).add(ax)
        if not roles:
            continue
        ext_locals = {}
        for n in walk(f["body"]):
            if n["k"] == "Decl":
                for v in n["vars"]:
                    if isinstance(v.get("init"), dict):
                        i_ = decast(v["init"])
                        nm_ = (i_.get("m") or (i_.get("fn") or "").split("::")[-1]) if i_.get("k") in ("Call", "MCall") else None
                        if nm_ in EXT and not (i_.get("a") or []):
                            ext_locals[(v["n"], v.get("l"))] = EXT[nm_]
        for n in walk(f["body"]):
            if n["k"] != "Bin" or n.get("op") not in ("<", "<=", ">", ">=", "==", "!=") or len(n.get("c") or []) != 2:
                continue
            for a_, b_ in ((n["c"][0], n["c"][1]), (n["c"][1], n["c"][0])):
                a_ = decast(a_)
                if a_.get("k") != "Ref" or (a_.get("n"), a_.get("dl")) not in roles:
                    continue
                rs = roles[(a_["n"], a_.get("dl"))]
                exts = {EXT[x.get("m") or (x.get("fn") or "").split("::")[-1]] for x in walk(b_) if x["k"] in ("Call", "MCall") and (x.get("m") or (x.get("fn") or "").split("::")[-1]) in EXT}
                exts |= {ext_locals[(x["n"], x.get("dl"))] for x in walk(b_) if x["k"] == "Ref" and (x.get("n"), x.get("dl")) in ext_locals}
                if len(rs) != 1 or len(exts) != 1:
                    continue
                n_ax += 1
                ax, ex = list(rs)[0], list(exts)[0]
                key = "%s:%s@%s" % (f["q"].split("::")[-1], a_["n"], show(n)[:40])
                chk.instance(r_axs, key, sample=dict(function=f["q"], line=n["l"], variable=a_["n"], used_as="IJK"[ax], comparison=show(n)))
                if ax != ex:
                    chk.violation(r_axs, key, "%s: `%s` is used as the %s index (argument %d of an (i, j, k) interface) but is compared with the extent of the %s axis in `%s`: on a grid with different extents cells inside the grid are rejected (or cells outside it accepted)" % (f["q"], a_["n"], "IJK"[ax], ax + 1, "IJK"[ex], show(n)), f["file"], n["l"])

    # ---- C13.pind: where the four pillars and the eight corner depths of a cell sit in COORD and ZCORN
    r_pi = chk.rule("C13.pind", "getCellCorners (EclipseGrid and both EclIO::EGrid versions): the COORD offsets of the cell's four pillars are base + 6 ((j + b)(nx + 1) + (i + a)) for (a, b) = (0,0), (1,0), (0,1), (1,1) - base the reservoir shift of the EGRID file version, 0 otherwise - and the ZCORN offsets of its corners are 8 k nx ny + 4 c nx ny + 4 j nx + 2 b nx + 2 i + a for corner (a, b, c); compared as polynomials after evaluating the index arithmetic symbolically (push_back sequences and the loop that adds the bottom face are unrolled)", floor=3)

    def corner_index_terms(f):
        axes = {}
        extents = set()
        for p_ in f["params"]:
            if "array<int, 3>" in (p_.get("t") or ""):
                if not axes:
                    axes[p_["n"]] = ("i", "j", "k")       # the cell's (i, j, k); a second triple holds the grid's extents
                else:
                    extents.add(p_["n"])

        def leaf(e):
            if e.get("k") in ("Idx", "OpCall") and len(e.get("c") or e.get("a") or []) == 2 and (e["k"] == "Idx" or e.get("op") == "[]"):
                b_, i_ = [strip(x) for x in (e.get("c") or e.get("a"))]
                bt = show(b_).replace("this.", "")
                if i_.get("k") == "Int":
                    if bt in axes:
                        return sy.S(axes[bt][int(i_["v"])])
                    if bt in ("nijk", "m_nijk") or bt in extents:
                        return sy.S(("nx", "ny", "nz")[int(i_["v"])])
            if e.get("k") == "MCall" and e.get("m") == "at" and "res" in show(e.get("obj")):
                return sy.S("r")
            if e.get("k") == "MCall" and e.get("m") in ("getNX", "getNY", "getNZ"):
                return sy.S({"getNX": "nx", "getNY": "ny", "getNZ": "nz"}[e["m"]])
            return None
        vecs = {}
        locs = set()
        for n in walk(f["body"]):
            if n["k"] == "Decl":
                for v in n["vars"]:
                    locs.add(v["n"])
        ev = sy.Eval(leaf, locs)
        env = {}

        def do(stmts):
            for st_ in stmts:
                if st_["k"] == "Decl":
                    for v in st_["vars"]:
                        if isinstance(v.get("init"), dict) and re.search(r"\b(int|size_t|long|unsigned)\b", v.get("t") or "") and "vector" not in (v.get("t") or "") and "array" not in (v.get("t") or ""):
                            env[v["n"]] = ev.term(v["init"], env)
                elif st_["k"] == "MCall" and st_.get("m") == "push_back" and strip(st_.get("obj") or {}).get("k") == "Ref" and strip(st_["obj"])["n"] in ("pind", "zind"):
                    nm_ = strip(st_["obj"])["n"]
                    idx = vecs.get(nm_, 0)
                    env["%s[%d]" % (nm_, idx)] = ev.term(st_["a"][0], env)
                    vecs[nm_] = idx + 1
                elif st_["k"] == "Bin" and st_.get("asg") and st_["op"] == "=" and ev.element(st_["c"][0], env) and ev.element(st_["c"][0], env).split("[")[0] in ("pind", "zind"):
                    env[ev.element(st_["c"][0], env)] = ev.term(st_["c"][1], env)
                elif st_["k"] == "For" and isinstance(st_.get("init"), dict) and st_["init"].get("k") == "Decl":
                    iv = st_["init"]["vars"][0]["n"]
                    lo = st_["init"]["vars"][0].get("init")
                    c = strip(st_["cond"])
                    body_txt = show(st_["body"])
                    if strip(lo or {}).get("k") == "Int" and c.get("op") == "<" and strip(c["c"][1]).get("k") == "Int" and ("zind" in body_txt or "pind" in body_txt) and ("push_back" in body_txt or re.search(r"\(?[zp]ind\[", body_txt.split("=")[0] if "=" in body_txt else "")):
                        for val in range(int(strip(lo)["v"]), int(strip(c["c"][1])["v"])):
                            env[iv] = sy.I(val)
                            do(stmt_list(st_["body"]))
                        env.pop(iv, None)
        do(stmt_list(f["body"]))
        return env
    i_, j_, k_, nx_, ny_ = (sy.S(x) for x in ("i", "j", "k", "nx", "ny"))
    n_pi = 0
    for f in fx.fns:
        if f["n"] != "getCellCorners" or not f.get("body") or "pind" not in show(f["body"]):
            continue
        env = corner_index_terms(f)
        has_res = "res.at(" in show(f["body"]).replace("this.", "")
        base = sy.mul(sy.S("r"), sy.add(nx_, sy.I(1)), sy.add(ny_, sy.I(1)), sy.I(6)) if has_res else sy.I(0)
        nz_corners = 8 if "zind[7]" in env or "zind[4]" in env else 4
        key = "%s@%d" % (f["q"], f["l"])
        bad = []
        for b in (0, 1):
            for a in (0, 1):
                want = sy.add(base, sy.mul(sy.I(6), sy.add(sy.mul(sy.add(j_, sy.I(b)), sy.add(nx_, sy.I(1))), sy.add(i_, sy.I(a)))))
                got = env.get("pind[%d]" % (a + 2 * b))
                if got != want:
                    bad.append(("pind[%d]" % (a + 2 * b), sy.show_term(got), sy.show_term(want)))
        for c in range(nz_corners // 4):
            for b in (0, 1):
                for a in (0, 1):
                    want = sy.add(sy.mul(sy.I(8), k_, nx_, ny_), sy.mul(sy.I(4 * c), nx_, ny_), sy.mul(sy.I(4), j_, nx_), sy.mul(sy.I(2 * b), nx_), sy.mul(sy.I(2), i_), sy.I(a))
                    got = env.get("zind[%d]" % (a + 2 * b + 4 * c))
                    if got != want:
                        bad.append(("zind[%d]" % (a + 2 * b + 4 * c), sy.show_term(got), sy.show_term(want)))
        n_pi += 1
        chk.instance(r_pi, key, sample=dict(function=f["q"], line=f["l"], reservoir_shift=has_res, corners=nz_corners, mismatches=len(bad)))
        for nm_, got, want in bad:
            chk.violation(r_pi, "%s:%s" % (key, nm_), "%s (line %d): %s evaluates to %s; the cell's pillar / corner sits at %s - corner coordinates are then taken from a neighbouring pillar or another cell's depth" % (f["q"], f["l"], nm_, got, want), f["file"], f["l"])
    if n_pi < 3:
        raise core.AnalysisBroken("C13.pind: %d getCellCorners implementations with pillar indices found (3 expected)" % n_pi)

    # ---- C13.volume: the hexahedron volume as the integral of the Jacobian determinant of the trilinear map
    r_vo = chk.rule("C13.volume", "calculateCellVol: C(r, a, b, g) is the coefficient of alpha^a beta^b gamma^g of the trilinear interpolant of the corner values r[0..7] (corner index = a + 2 b + 4 g); the six axis permutations come with alternating parity, matching the sign that is flipped after each; the 64 exponent sextuples are all different; every term is sign C(x_p0; 1, pb, pg) C(x_p1; qa, 1, qg) C(x_p2; ra, rb, 1) / ((qa+ra+1)(pb+rb+1)(pg+qg+1)) - the monomial integrated over the unit cube", floor=12)
    vx = chk.facts(["opm/common/utility/numeric/calculateCellVol.cpp"])
    cf_ = [f for f in vx.fns if f["n"] == "C" and f.get("body") and len(f["params"]) == 4]
    cv_ = [f for f in vx.fns if f["n"] == "calculateCellVol" and f.get("body")]
    if len(cf_) != 1 or len(cv_) != 1:
        raise core.AnalysisBroken("calculateCellVol.cpp: C(r, i1, i2, i3) / calculateCellVol not found")
    cf_, cv_ = cf_[0], cv_[0]
    rp = cf_["params"][0]["n"]
    gdecl = {v["n"]: v for n in stmt_list(cf_["body"]) if n["k"] == "Decl" for v in n["vars"]}

    def leaf_c(e):
        if e.get("k") in ("Idx", "OpCall") and len(e.get("c") or e.get("a") or []) == 2:
            b_, i_ = [strip(x) for x in (e.get("c") or e.get("a"))]
            if b_.get("k") == "Ref" and b_.get("n") == rp and i_.get("k") == "Int":
                return sy.S("r%d" % int(i_["v"]))
        if e.get("k") == "Ref" and e.get("d") == "Parm" and e.get("n") in [p_["n"] for p_ in cf_["params"][1:]]:
            return sy.S("i%d" % ([p_["n"] for p_ in cf_["params"]].index(e["n"])))
        return None
    evc = sy.Eval(leaf_c, set(gdecl))
    gname = list(gdecl)[0] if len(gdecl) == 1 else None
    gterm = evc.term(gdecl[gname]["init"], {}) if gname else None
    chk.instance(r_vo, "C:index", sample=dict(index=sy.show_term(gterm)))
    if gterm != sy.add(sy.S("i1"), sy.mul(sy.I(2), sy.S("i2")), sy.mul(sy.I(4), sy.S("i3"))):
        chk.violation(r_vo, "C:index", "C(r, i1, i2, i3) selects its case by %s; the corner numbering needs i1 + 2 i2 + 4 i3" % sy.show_term(gterm), cf_["file"], cf_["l"])
    R = [sy.S("r%d" % k_) for k_ in range(8)]
    neg = lambda t: sy.mul(sy.I(-1), t)
    WANT_C = {0: R[0], 1: sy.add(R[1], neg(R[0])), 2: sy.add(R[2], neg(R[0])), 3: sy.add(R[3], R[0], neg(R[2]), neg(R[1])), 4: sy.add(R[4], neg(R[0])),
              5: sy.add(R[5], R[0], neg(R[4]), neg(R[1])), 6: sy.add(R[6], R[0], neg(R[4]), neg(R[2])), 7: sy.add(R[7], R[4], R[2], R[1], neg(R[6]), neg(R[5]), neg(R[3]), neg(R[0]))}
    got_c = {}
    for n in stmt_list(cf_["body"]):
        if n["k"] == "If":
            c = strip(n["cond"])
            rr = [x for x in walk(n["then"]) if x["k"] == "Return"]
            if c.get("op") == "==" and strip(c["c"][0]).get("n") == gname and strip(c["c"][1]).get("k") == "Int" and len(rr) == 1:
                got_c[int(strip(c["c"][1])["v"])] = (evc.term(rr[0]["e"], {}), n["l"])
        elif n["k"] == "Return":
            got_c[7] = (evc.term(n["e"], {}), n["l"])
    for g_, want in WANT_C.items():
        t, ln = got_c.get(g_, (None, cf_["l"]))
        chk.instance(r_vo, "C:%d" % g_, sample=dict(case=g_, returns=sy.show_term(t)))
        if t != want:
            chk.violation(r_vo, "C:%d" % g_, "C(...) for corner-exponent index %d returns %s; the trilinear coefficient is %s" % (g_, sy.show_term(t), sy.show_term(want)), cf_["file"], ln)
    tabs_v = {v["n"]: v for n in walk(cv_["body"]) if n["k"] == "Decl" for v in n["vars"] if isinstance(v.get("init"), dict)}
    perm_v = [v for v in tabs_v.values() if "array<std::array<std::size_t, 3>, 6>" in (v.get("t") or "").replace("unsigned long", "std::size_t")]
    pqr_v = [v for v in tabs_v.values() if "pqr_t, 64" in (v.get("t") or "")]
    if len(perm_v) != 1 or len(pqr_v) != 1:
        raise core.AnalysisBroken("calculateCellVol: permutation / exponent tables not found")

    def rows(init, width):
        ints = [int(x["v"]) for x in walk(init) if x["k"] == "Int"]
        return [tuple(ints[i_:i_ + width]) for i_ in range(0, len(ints), width)]
    prow = rows(perm_v[0]["init"], 3)

    def parity(p_):
        return sum(1 for a in range(3) for b in range(a + 1, 3) if p_[a] > p_[b]) % 2
    okp = len(prow) == 6 and sorted(prow) == sorted(__import__("itertools").permutations(range(3))) and [parity(p_) for p_ in prow] == [0, 1, 0, 1, 0, 1]
    chk.instance(r_vo, "permutations", sample=dict(rows=prow, parities=[parity(p_) for p_ in prow] if len(prow) == 6 else None))
    if not okp:
        chk.violation(r_vo, "permutations", "calculateCellVol: the permutation table %s does not list the six permutations of (0, 1, 2) with alternating parity (even, odd, ...): the sign flipped after every row no longer is the sign of the permutation" % prow, cv_["file"], perm_v[0]["l"])
    qrow = rows(pqr_v[0]["init"], 6)
    okq = len(qrow) == 64 and len(set(qrow)) == 64 and all(x in (0, 1) for r_ in qrow for x in r_)
    chk.instance(r_vo, "exponents", sample=dict(rows=len(qrow), distinct=len(set(qrow))))
    if not okq:
        chk.violation(r_vo, "exponents", "calculateCellVol: the exponent table has %d rows, %d distinct (64 different 0/1 sextuples expected): a monomial of the determinant expansion is missing or counted twice" % (len(qrow), len(set(qrow))), cv_["file"], pqr_v[0]["l"])
    vtxt = show(cv_["body"])
    loopq = [n for n in walk(cv_["body"]) if n["k"] == "ForRange" and show(strip(n["range"])) == pqr_v[0]["n"]]
    okt = False
    det = {}
    if len(loopq) == 1:
        q_ = loopq[0]["var"]["n"]
        dl = {v["n"]: show(strip(v["init"])) for n in stmt_list(loopq[0]["body"]) if n["k"] == "Decl" for v in n["vars"] if isinstance(v.get("init"), dict)}
        vn = [v["n"] for n in walk(cv_["body"]) if n["k"] == "Decl" for v in n["vars"] if "const double *[3]" in (v.get("t") or "") or "double *[3]" in (v.get("t") or "")]
        vv = vn[0] if vn else "vect"
        want_c = "((C(%s[0], 1, %s.pb, %s.pg) * C(%s[1], %s.qa, 1, %s.qg)) * C(%s[2], %s.ra, %s.rb, 1))" % (vv, q_, q_, vv, q_, q_, vv, q_, q_)
        want_d = "((((%s.qa + %s.ra) + 1) * ((%s.pb + %s.rb) + 1)) * ((%s.pg + %s.qg) + 1))" % (q_, q_, q_, q_, q_, q_)
        cp = [k_ for k_, v in dl.items() if v.replace("(anonymous namespace)::", "") == want_c]
        dn = [k_ for k_, v in dl.items() if v == want_d]
        det = dict(locals=dl)
        if len(cp) == 1 and len(dn) == 1:
            acc = [show(x) for x in stmt_list(loopq[0]["body"]) if x["k"] == "Bin" and x.get("asg")]
            sgn = [v["n"] for n in stmt_list(cv_["body"]) if n["k"] == "Decl" for v in n["vars"] if show(v.get("init")) in ("1", "1.0") and "double" in (v.get("t") or "")]
            okt = len(sgn) == 1 and acc == ["(volume += ((%s * %s) / %s))" % (sgn[0], cp[0], dn[0])] and "(%s *= (-1))" % sgn[0] in vtxt and "(%s[perm_index] = data[perm[perm_index]].data())" % vv in vtxt.replace("$", "")
            det["accumulate"] = acc
    chk.instance(r_vo, "term", sample=det)
    if not okt:
        chk.violation(r_vo, "term", "calculateCellVol: a term of the volume is no longer sign * C(x_p0; 1, pb, pg) * C(x_p1; qa, 1, qg) * C(x_p2; ra, rb, 1) / ((qa+ra+1)(pb+rb+1)(pg+qg+1)) with the sign flipped after each permutation and the coordinate arrays taken in the order of the permutation (%s)" % det, cv_["file"], loopq[0]["l"] if loopq else cv_["l"])

    # ---- C13.extend: layers that the deck gave are kept when a short DX/DY/DZ/TOPS array is extended downwards
    r_ex = chk.rule("C13.extend", "EclipseGrid::createDVector / createTOPSVector extend an array given for the top layers only: after resize(volume) an element is assigned only if its index is at least the size the deck gave (the loop starts there, or the assignment sits under `index >= given size`), or - TOPS - under a test that the computed value agrees with the given one within a tolerance; the copied value comes from the cell one layer (nx*ny) above", floor=3)
    for nm in ("createDVector", "createTOPSVector"):
        cf = [f for f in fx.fns if f["n"] == nm and f.get("body") and f["file"].endswith("EclipseGrid.cpp")]
        if len(cf) != 1:
            raise core.AnalysisBroken("EclipseGrid::%s not found" % nm)
        cf = cf[0]
        rz = [n for n in walk(cf["body"]) if n["k"] == "MCall" and n.get("m") == "resize" and strip(n.get("obj") or {}).get("k") == "Ref"]
        arrs = {strip(n["obj"])["n"] for n in rz}
        for arr in sorted(arrs):
            saved = [v["n"] for n in walk(cf["body"]) if n["k"] == "Decl" for v in n["vars"] if show(v.get("init")) == "%s.size()" % arr]
            loops_e = [n for n in walk(cf["body"]) if n["k"] == "For" and any(x["k"] == "Bin" and x.get("asg") and show(strip(x["c"][0])).startswith("%s[" % arr) for x in walk(n["body"]))]
            for lp in loops_e:
                iv = lp["init"]["vars"][0]["n"] if lp.get("init") and lp["init"].get("k") == "Decl" else None
                start = show(lp["init"]["vars"][0].get("init")) if iv else None

                def rec(n, guards):
                    if n.get("k") == "Bin" and n.get("asg") and n.get("op") == "=" and show(strip(n["c"][0])) == "%s[%s]" % (arr, iv):
                        yield n, list(guards)
                    if n.get("k") == "If" and isinstance(n.get("cond"), dict):
                        c = show(strip(n["cond"]))
                        if isinstance(n.get("then"), dict):
                            yield from rec(n["then"], guards + [("then", c)])
                        if isinstance(n.get("else"), dict):
                            yield from rec(n["else"], guards + [("else", c)])
                        return
                    for ch in children(n):
                        yield from rec(ch, guards)
                for asg, guards in rec(lp["body"], []):
                    key = "%s:%s@%d" % (nm, arr, asg["l"])
                    ok = bool(saved) and start in saved
                    if not ok and saved:
                        for side, c in guards:
                            if side == "then" and any(c == "(%s >= %s)" % (iv, sv) for sv in saved):
                                ok = True
                            if side == "else" and any(c == "(%s < %s)" % (iv, sv) for sv in saved):
                                ok = True
                            if side == "then" and re.search(r"std::abs\(.*%s\[%s\].*\) < " % (arr, iv), c):
                                ok = True
                    src_ok = True
                    if nm == "createDVector":
                        srcv = [v for n in walk(lp["body"]) if n["k"] == "Decl" for v in n["vars"]]
                        src_ok = any(re.fullmatch(r"\(%s - \w+\)" % iv, show(v.get("init"))) for v in srcv) and ("%s[" % arr) in show(asg["c"][1])
                    chk.instance(r_ex, key, sample=dict(function=cf["q"], array=arr, loop_start=start, given_size_saved_as=saved, guards=guards, value=show(asg["c"][1])[:60]))
                    if not ok:
                        chk.violation(r_ex, key, "EclipseGrid::%s assigns %s[%s] for every %s from %s on%s: indices below the size the deck gave (%s) are overwritten too, so layers the user specified are replaced by copies of the layer above" % (nm, arr, iv, iv, start, " under %s" % guards if guards else "", saved or "not saved before the resize"), cf["file"], asg["l"])
                    elif not src_ok:
                        chk.violation(r_ex, key + ":source", "EclipseGrid::%s fills %s[%s] with %s; the value of a missing layer is that of the cell one layer (nx*ny) above" % (nm, arr, iv, show(asg["c"][1])[:60]), cf["file"], asg["l"])

    # ---- C13.mapunits: the origin of the map axes is scaled with the factor of the MAPUNITS the object remembers
    r_mu = chk.rule("C13.mapunits", "every MapAxes constructor that records a MAPUNITS string (from the deck, from an EGRID file, from its argument) initialises the axes with length_factor(<that unit>): in the block that sets map_units the factor handed to init() is assigned from length_factor, or the constructor delegates with length_factor(mapunits); the deck path and the EGRID path therefore give the same transform", floor=3)
    mx = chk.facts(["opm/input/eclipse/EclipseState/Grid/MapAxes.cpp"])
    n_mu = 0
    for f in mx.fns:
        if f["q"] != "Opm::MapAxes::MapAxes" or not (f.get("body") or f.get("inits")):
            continue
        sets = []
        pmm = {}
        for part in ([f["body"]] if f.get("body") else []):
            for x in walk(part):
                for ch in children(x):
                    pmm[id(ch)] = x
            for n in walk(part):
                lhs = None
                if n["k"] == "Bin" and n.get("asg") and n.get("op") == "=":
                    lhs = n["c"][0]
                elif n["k"] == "OpCall" and n.get("op") == "=" and len(n.get("a") or []) == 2:
                    lhs = n["a"][0]
                if lhs is not None and strip(lhs).get("k") == "Mem" and strip(lhs).get("n") == "map_units":
                    sets.append(n)
        if not sets:
            continue
        n_mu += 1
        key = "ctor%s" % f["sig"].replace("void ", "")[:60]
        deleg = [i for i in f.get("inits", []) or [] if isinstance(i.get("init"), dict) and any(x["k"] == "Call" and (x.get("fn") or "").endswith("length_factor") for x in walk(i["init"]))]
        inits_c = [c for c in walk(f["body"]) if c["k"] == "MCall" and c.get("m") == "init" and c.get("a")] if f.get("body") else []
        ok = False
        how = None
        if deleg:
            ok, how = True, "delegates with length_factor(...)"
        elif inits_c:
            a0 = strip(inits_c[0]["a"][0])
            if a0.get("k") == "Call" and (a0.get("fn") or "").endswith("length_factor"):
                ok, how = True, "init(length_factor(...), ...)"
            elif a0.get("k") == "Ref":
                v = a0["n"]
                for st in sets:
                    blk = pmm.get(id(st))
                    while blk is not None and blk.get("k") != "Block":
                        blk = pmm.get(id(blk))
                    if blk is not None and any(x["k"] == "Bin" and x.get("asg") and strip(x["c"][0]).get("n") == v and any(y["k"] == "Call" and (y.get("fn") or "").endswith("length_factor") for y in walk(x["c"][1])) for x in stmt_list(blk)):
                        ok, how = True, "%s = length_factor(...) next to the assignment of map_units" % v
        chk.instance(r_mu, key, sample=dict(constructor=f["sig"][:80], how=how))
        if not ok:
            chk.violation(r_mu, key, "MapAxes::MapAxes%s records MAPUNITS but initialises the axes without length_factor of that unit: the origin stays unscaled, so transform()/inv_transform() of a grid loaded this way differ from the grid built from the deck (FEET: 1 - 0.3048 of the origin)" % f["sig"].replace("void ", "")[:70], f["file"], sets[0]["l"])
    if n_mu < 3:
        raise core.AnalysisBroken("MapAxes: fewer than 3 constructors record MAPUNITS (%d)" % n_mu)

    # ---- C13.zcorn: where the eight corner depths of cell (i,j,k) live in ZCORN
    r_zc = chk.rule("C13.zcorn", "ZCORN layout: corner c = (cx, cy, cz) of cell (i,j,k) is element 2i + cx + 2nx(2j + cy) + 4 nx ny (2k + cz).  The generators for DZV/DEPTHZ and DZ/TOPS grids write exactly these eight elements per cell (top face before, bottom face after the layer thickness is added; the DEPTHZ node is the one at (i+cx, j+cy)), and both getCellCorners implementations read them in the same corner order", floor=32)

    def zc_index(cx, cy, cz, I_=sy.S("i"), J_=sy.S("j"), K_=sy.S("k")):
        NX2, NY2 = sy.S("NX"), sy.S("NY")
        return sy.add(sy.mul(sy.I(2), I_), sy.I(cx), sy.mul(sy.I(2), NX2, sy.add(sy.mul(sy.I(2), J_), sy.I(cy))), sy.mul(sy.I(4), NX2, NY2, sy.add(sy.mul(sy.I(2), K_), sy.I(cz))))
    for gen in ("makeZcornDzvDepthz", "makeZcornDzTops"):
        gf = [f for f in fx.fns if f["n"] == gen and f.get("body")]
        if len(gf) != 1:
            raise core.AnalysisBroken("EclipseGrid::%s: %d definitions" % (gen, len(gf)))
        gf = gf[0]
        dims_of = {}
        for n in walk(gf["body"]):
            if n["k"] == "Decl":
                for v in n["vars"]:
                    t = show(strip(v.get("init") or {}))
                    if t.endswith("getNX()"):
                        dims_of[v["n"]] = "NX"
                    elif t.endswith("getNY()"):
                        dims_of[v["n"]] = "NY"
                    elif t.endswith("getNZ()"):
                        dims_of[v["n"]] = "NZ"
        fors = [n for n in walk(gf["body"]) if n["k"] == "For"]
        lvs = {}
        for lp in fors:
            for d in walk(lp.get("init") or {}):
                if d["k"] == "Decl":
                    for v in d["vars"]:
                        bound = [dims_of.get(x.get("n")) for x in walk(lp["cond"]) if x.get("k") == "Ref" and x.get("n") in dims_of]
                        if bound:
                            lvs[v["n"]] = {"NX": "i", "NY": "j", "NZ": "k"}[bound[0]]
        inner = [lp for lp in fors if not any(x["k"] == "For" for x in walk(lp["body"]))]
        if len(inner) != 1 or sorted(lvs.values()) != ["i", "j", "k"]:
            raise core.AnalysisBroken("%s: the triple loop over the cells was not recognised (%s)" % (gen, lvs))
        zname = [p_["n"] for p_ in gf.get("params") or []]

        def leaf_z(e, lvs=lvs, dims_of=dims_of):
            if e.get("k") == "Ref" and e.get("n") in lvs:
                return sy.S(lvs[e["n"]])
            if e.get("k") == "Ref" and e.get("n") in dims_of:
                return sy.S(dims_of[e["n"]])
            sb = None
            if e.get("k") == "Idx":
                sb = (strip(e["c"][0]), e["c"][1])
            elif e.get("k") == "OpCall" and e.get("op") == "[]" and len(e.get("a") or []) == 2:
                sb = (strip(e["a"][0]), e["a"][1])
            if sb and sb[0].get("k") == "Ref" and sb[0].get("n") not in ("zcorn",):
                it = ev_z.term(sb[1], env_z)
                return sy.S("%s[%s]" % (sb[0]["n"], sy.show_term(it))) if it is not None else None
            return None
        locs_z = {v["n"] for n in walk(gf["body"]) if n["k"] == "Decl" for v in n["vars"]} - set(lvs) - set(dims_of)
        ev_z = sy.Eval(leaf_z, locs_z)
        env_z = {}
        # locals of the enclosing loops (z = tops[ind] in the DZ/TOPS generator)
        for lp in fors:
            if lp is inner[0]:
                continue
            for st in stmt_list(lp["body"]):
                if st["k"] == "Decl":
                    env_z = ev_z.run([st], env_z)
        writes = []
        for st in stmt_list(inner[0]["body"]):
            lhs = None
            if st["k"] == "Bin" and st.get("asg") and st.get("op") == "=":
                l_ = strip(st["c"][0])
                if l_.get("k") in ("Idx", "OpCall") and show(l_).startswith("zcorn["):
                    idx = l_["c"][1] if l_["k"] == "Idx" else l_["a"][1]
                    writes.append((ev_z.term(idx, env_z), ev_z.term(st["c"][1], env_z), st["l"]))
                    continue
            env_z = ev_z.run([st], env_z)
        want_idx = {}
        for cz in (0, 1):
            for cy in (0, 1):
                for cx in (0, 1):
                    want_idx[zc_index(cx, cy, cz)] = (cx, cy, cz)
        got_corners = []
        for it, vt, ln in writes:
            c = want_idx.get(it)
            key = "%s:%s" % (gen, "corner%s" % (c,) if c else "write@%d" % (ln - gf["l"]))
            got_corners.append(c)
            chk.instance(r_zc, key, sample=dict(generator=gen, index=sy.show_term(it), corner=c, value=sy.show_term(vt)))
            if c is None:
                chk.violation(r_zc, key, "%s writes ZCORN element %s, which is none of the eight corner positions 2i+cx + 2nx(2j+cy) + 4 nx ny (2k+cz) of cell (i,j,k): the depth lands in another cell's corner" % (gen, sy.show_term(it)), gf["file"], ln)
                continue
            cx, cy, cz = c
            if gen == "makeZcornDzvDepthz":
                node = sy.add(sy.S("i"), sy.I(cx), sy.mul(sy.add(sy.S("j"), sy.I(cy)), sy.add(sy.S("NX"), sy.I(1))))
                want_v = sy.add(sy.S("%s[%s]" % (zname[1], sy.show_term(node))), sy.S("z[k]"), *( [sy.S("%s[k]" % zname[0])] if cz else []))
            else:
                cellidx = sy.add(sy.S("i"), sy.mul(sy.S("j"), sy.S("NX")), sy.mul(sy.S("k"), sy.S("NX"), sy.S("NY")))
                colidx = sy.add(sy.S("i"), sy.mul(sy.S("j"), sy.S("NX")))
                want_v = sy.add(sy.S("%s[%s]" % (zname[1], sy.show_term(colidx))), *([sy.S("%s[%s]" % (zname[0], sy.show_term(cellidx)))] if cz else []))
            if vt != want_v:
                chk.violation(r_zc, key + ":value", "%s stores %s in corner %s of cell (i,j,k); the depth there is %s" % (gen, sy.show_term(vt), c, sy.show_term(want_v)), gf["file"], ln)
        if sorted(x for x in got_corners if x) != sorted(want_idx.values()):
            chk.violation(r_zc, gen + ":all", "%s does not write each of the eight corners of a cell exactly once (corners written: %s)" % (gen, got_corners), gf["file"], inner[0]["l"])

    # readers: zind[c] of both getCellCorners implementations
    for f in fx.fns:
        if f["n"] != "getCellCorners" or not f.get("body"):
            continue
        zloc = [v for n in walk(f["body"]) if n["k"] == "Decl" for v in n["vars"] if v["n"] == "zind"]
        pz = [p_ for p_ in f["params"] if "array<double" in (p_.get("t") or "") or "array<double," in (p_.get("t") or "")]
        if not zloc or "vector<float>" in f.get("sig", ""):
            continue      # forwarding overload / the per-layer variant that works on one layer of ZCORN
        ijk = f["params"][0]["n"]

        def leaf_r(e, ijk=ijk):
            t = show(decast(e)).replace(" ", "")
            m = re.fullmatch(r"%s\[(\d)\]" % ijk, t)
            if m:
                return sy.S("ijk"[int(m.group(1))])
            if re.fullmatch(r"(this\.)?(nijk|dims|m_dims)\[0\]|(this\.)?getNX\(\)", t):
                return sy.S("NX")
            if re.fullmatch(r"(this\.)?(nijk|dims|m_dims)\[1\]|(this\.)?getNY\(\)", t):
                return sy.S("NY")
            return None
        ev_r = sy.Eval(leaf_r, {"zind", "pind", "z_offset", "p_offset", "res_shift"} | {v["n"] for n in walk(f["body"]) if n["k"] == "Decl" for v in n["vars"]})
        env_r = {}
        npush = 0
        for st in stmt_list(f["body"]):
            if st["k"] == "For":
                iv = [(v["n"], strip(v.get("init") or {}).get("v")) for d in walk(st.get("init") or {}) if d["k"] == "Decl" for v in d["vars"]]
                c = strip(st["cond"])
                body1 = stmt_list(st["body"])
                if len(iv) == 1 and iv[0][1] == 0 and c.get("k") == "Bin" and c.get("op") == "<" and strip(c["c"][1]).get("k") == "Int" and len(body1) == 1:
                    trip = strip(c["c"][1])["v"]
                    b1 = body1[0]
                    touches = any(x.get("k") == "Ref" and x.get("n") == "zind" for x in walk(b1))
                    writes_z = (b1["k"] == "Bin" and b1.get("asg") and show(strip(b1["c"][0])).startswith("zind[")) or (b1["k"] == "MCall" and b1.get("m") == "push_back" and strip(b1.get("obj") or {}).get("n") == "zind")
                    if touches and writes_z:
                        for v_ in range(trip):
                            e2 = dict(env_r)
                            e2[iv[0][0]] = sy.I(v_)
                            ev_r.locals.add(iv[0][0])
                            if b1["k"] == "Bin":
                                l_ = strip(b1["c"][0])
                                idx = l_["c"][1] if l_["k"] == "Idx" else l_["a"][1]
                                it = ev_r.term(idx, e2)
                                if it is not None and it[0] == "int":
                                    env_r["zind[%d]" % it[1]] = ev_r.term(b1["c"][1], e2)
                            else:
                                env_r["zind[%d]" % npush] = ev_r.term(b1["a"][0], e2)
                                npush += 1
                        continue
                continue
            if st["k"] == "MCall" and st.get("m") == "push_back" and strip(st.get("obj") or {}).get("n") == "zind" and st.get("a"):
                env_r["zind[%d]" % npush] = ev_r.term(st["a"][0], env_r)
                npush += 1
                continue
            if st["k"] in ("Decl", "Bin"):
                env_r = ev_r.run([st], env_r)
        for c in range(8):
            cx, cy, cz = c & 1, (c >> 1) & 1, (c >> 2) & 1
            got = env_r.get("zind[%d]" % c)
            want = zc_index(cx, cy, cz)
            key = "%s@%d:zind[%d]" % (f["q"].split("::")[-2], f["l"], c)
            chk.instance(r_zc, key, sample=dict(function=f["q"], corner=(cx, cy, cz), index=sy.show_term(got)))
            if got != want:
                chk.violation(r_zc, key, "%s takes the depth of corner %d = (cx,cy,cz) = (%d,%d,%d) from ZCORN element %s; the layout has it at %s: the cell is built from depths of other corners or cells" % (f["q"], c, cx, cy, cz, sy.show_term(got), sy.show_term(want)), f["file"], f["l"])

    # ---- C13.pillar: corner coordinates are interpolated along the cell's own pillar at the corner's own depth
    r_pl = chk.rule("C13.pillar", "getCellCorners (EclipseGrid and both EclIO::EGrid versions): corner e of X (Y) is top + (bottom - top) / (zt - zb) * (zt - Z[e]) with top/bottom the x (y) entries 0/3 (1/4) and zt/zb entries 2/5 of the pillar record, the depth taken from Z at the SAME corner e; for a vertical pillar (zt == zb) it is the top value", floor=12)
    for f in fx.fns:
        if f["n"] != "getCellCorners" or not f.get("body") or len(f.get("params") or []) < 4:
            continue
        pn = [p_["n"] for p_ in f["params"]]
        outs = [p_["n"] for p_ in f["params"] if "array<double" in (p_.get("t") or "") and not (p_.get("t") or "").startswith("const")]
        if len(outs) != 3:
            continue
        PX, PY, PZ = outs
        lps = [n for n in stmt_list(f["body"]) if n["k"] == "For" and any(x["k"] == "Bin" and x.get("asg") and any(y.get("k") == "Ref" and y.get("n") in (PX, PY) for y in walk(x["c"][0])) for x in walk(n["body"]))]
        if not lps:
            continue       # an overload that only forwards
        if len(lps) != 1:
            raise core.AnalysisBroken("%s: more than one pillar loop" % f["q"])
        lp = lps[0]
        lv = [v["n"] for d in walk(lp["init"]) if d["k"] == "Decl" for v in d["vars"]][0]

        def sub3(e):
            e = strip(e)
            if e.get("k") == "Idx":
                return strip(e["c"][0]), e["c"][1]
            if e.get("k") == "OpCall" and e.get("op") == "[]" and len(e.get("a") or []) == 2:
                return strip(e["a"][0]), e["a"][1]
            return None

        def leaf_p(e, lv=lv, PZ=PZ):
            sb = sub3(e)
            if sb:
                base, idx = sb
                t = show(decast(idx)).replace(" ", "")
                if base.get("n") == PZ:
                    return sy.S("Z[%s]" % t.replace(lv, "n"))
                if base.get("k") in ("Mem", "Ref") and "coord" in (base.get("n") or "").lower():
                    m = re.fullmatch(r"\(?\w+\[%s\](?:\+(\d))?\)?" % lv, t)
                    if m:
                        return sy.S("c%s" % (m.group(1) or "0"))
            if e.get("k") == "Mem" and e.get("n") == "m_radial":
                return sy.I(0)
            return None
        locs = {v["n"] for n in walk(lp["body"]) if n["k"] == "Decl" for v in n["vars"]}
        ev_ = sy.Eval(leaf_p, locs)
        found = {}

        def scan(stmts, env, vertical):
            env = dict(env)
            for st in stmts:
                if st["k"] == "If" and isinstance(st.get("cond"), dict):
                    c = ev_.term(st["cond"], env)
                    is_vert = c is not None and c[0] == "eq" and {c[1], c[2]} == {sy.S("c2"), sy.S("c5")}
                    if is_vert:
                        scan(stmt_list(st["then"]), env, True)
                        if st.get("else") is not None:
                            scan(stmt_list(st["else"]), env, False)
                        continue
                    if c is not None and c[0] == "int":
                        env = ev_.run(stmt_list(st["then"] if c[1] else st.get("else")), env) if (c[1] or st.get("else") is not None) else env
                        continue
                if st["k"] == "Bin" and st.get("asg") and st.get("op") == "=" and sub3(st["c"][0]) and sub3(st["c"][0])[0].get("n") in (PX, PY):
                    base, idx = sub3(st["c"][0])
                    corner = show(decast(idx)).replace(" ", "").replace(lv, "n")
                    found[(base["n"], corner, vertical)] = (ev_.term(st["c"][1], env), st)
                    continue
                env = ev_.run([st], env)
        scan(stmt_list(lp["body"]), {}, None)
        if any(v is None for (_, _, v) in found):
            raise core.AnalysisBroken("%s: corner assignments outside the zt == zb split" % f["q"])
        for arr, a in ((PX, 0), (PY, 1)):
            for corner in sorted({c_ for (a_, c_, v_) in found}):
                top, bot, zt, zb = sy.S("c%d" % a), sy.S("c%d" % (3 + a)), sy.S("c2"), sy.S("c5")
                zc = sy.S("Z[%s]" % corner)
                want = {True: top, False: sy.add(top, sy.mul(sy.div(sy.sub(bot, top), sy.sub(zt, zb)), sy.sub(zt, zc)))}
                for vert in (True, False):
                    got = found.get((arr, corner, vert))
                    key = "%s@%d:%s[%s]:%s" % (f["q"].split("::")[-2] + "::" + f["n"], f["l"], "XY"[a], corner, "vertical" if vert else "inclined")
                    chk.instance(r_pl, key, sample=dict(function=f["q"], corner="%s[%s]" % ("XY"[a], corner), value=sy.show_term(got[0]) if got else None))
                    if not got or got[0] != want[vert]:
                        chk.violation(r_pl, key, "%s computes %s[%s] (%s pillar) as %s; on the pillar through (c0,c1,c2)-(c3,c4,c5) the corner at depth Z[%s] has %s = %s: the corner leaves its pillar (cells no longer share faces, volumes are not additive)" % (f["q"], "XY"[a], corner, "vertical" if vert else "inclined", sy.show_term(got[0]) if got else "nothing", corner, "xy"[a], sy.show_term(want[vert])), f["file"], got[1]["l"] if got else lp["l"])

    # ---- C13.gridhead: the dimensions travel through GRIDHEAD slots 1, 2, 3 in the order nx, ny, nz on both sides
    r_gh = chk.rule("C13.gridhead", "GRIDHEAD: EclipseGrid::save stores (nx, ny, nz) in slots 1, 2, 3 and every reader (EclipseGrid's EGRID loader, EclIO::EGrid for the global grid and for an LGR's host) takes axis a from slot a + 1", floor=4)
    AX = {"m_nx": 0, "m_ny": 1, "m_nz": 2}
    n_sites = 0
    for f in fx.fns:
        if not f.get("body") or not f["file"].endswith(("EclipseGrid.cpp", "EGrid.cpp")):
            continue
        groups = {}
        par_gh = cow.parent_map(f)
        blk_no = {}

        def block_of(n_):
            """ordinal of the innermost enclosing block: the three slot accesses of one site sit in one block"""
            cur_ = n_
            while id(cur_) in par_gh:
                cur_ = par_gh[id(cur_)]
                if cur_.get("k") == "Block":
                    break
            return blk_no.setdefault(id(cur_), len(blk_no))
        for n in walk(f["body"]):
            if n["k"] != "Bin" or not n.get("asg") or n.get("op") != "=":
                continue
            l_, r_ = strip(n["c"][0]), strip(n["c"][1])

            def slot(e):
                e = strip(e)
                b = i_ = None
                if e.get("k") == "Idx":
                    b, i_ = strip(e["c"][0]), strip(e["c"][1])
                elif e.get("k") == "OpCall" and e.get("op") == "[]" and len(e.get("a") or []) == 2:
                    b, i_ = strip(e["a"][0]), strip(e["a"][1])
                if b is not None and i_.get("k") == "Int":
                    return (b.get("n"), int(i_["v"]))
                return None
            ls, rs_ = slot(l_), slot(r_)
            if ls and ls[0] == "gridhead" and ls[1] in (1, 2, 3):
                ax = rs_[1] if rs_ else AX.get(r_.get("n"))
                groups.setdefault(("write", block_of(n)), []).append((ls[1], ax, n))
            elif rs_ and rs_[0] == "gridhead" and rs_[1] in (1, 2, 3):
                ax = ls[1] if ls else AX.get(l_.get("n"))
                groups.setdefault(("read:" + (ls[0] if ls else "dims"), block_of(n)), []).append((rs_[1], ax, n))
        for (kind, _), items in sorted(groups.items()):
            n_sites += 1
            key = "%s:%s@%d" % (f["q"].split("::")[-1], kind, n_sites)
            pairs = sorted((sl, ax) for sl, ax, n in items)
            chk.instance(r_gh, key, sample=dict(function=f["q"], kind=kind, slot_axis=pairs))
            if pairs != [(1, 0), (2, 1), (3, 2)]:
                chk.violation(r_gh, key, "%s %s GRIDHEAD as (slot, axis) = %s; the dimensions are (1, x) (2, y) (3, z): a grid that is not a cube comes back with swapped or repeated dimensions" % (f["q"], "fills" if kind == "write" else "reads", pairs), f["file"], items[0][2]["l"])

    # ---- C13.ijk: every implementation of (i,j,k) <-> global index uses the natural ordering
    r_ijk = chk.rule("C13.ijk", "all implementations of the cell numbering agree with the natural ordering: global = i + nx (j + ny k) (GridDims::getGlobalIndex, EGrid::global_index / active_index), and the inverse splits a global index as i = g mod nx, j = (g div nx) mod ny, k = g div (nx ny) - written either by successive division or plane first (GridDims::getIJK, EGrid::ijk_from_global_index / ijk_from_active_index / hostCellsIJK, ExtSmryOutput::ijk_from_global_index, ESmry::ijk_from_global_index: the same, one-based)", floor=8)
    gx = chk.facts(UNITS + ["opm/io/eclipse/ESmry.cpp", "opm/io/eclipse/ExtSmryOutput.cpp"])
    NXP = re.compile(r"^(this\.)?(getNX\(\)|m_nx|nijk\[0\]|dims\[0\]|nI|host_nijk\[0\]|m_dims\[0\]|this\.getNX\(\))$")
    NYP = re.compile(r"^(this\.)?(getNY\(\)|m_ny|nijk\[1\]|dims\[1\]|nJ|host_nijk\[1\]|m_dims\[1\]|this\.getNY\(\))$")

    def dim_leaf(e):
        t = show(decast(e)).replace(" ", "")
        if NXP.match(t):
            return sy.S("NX")
        if NYP.match(t):
            return sy.S("NY")
        return None
    NX_, NY_ = sy.S("NX"), sy.S("NY")

    def forward_ok(t, i_, j_, k_):
        return t == sy.add(i_, sy.mul(j_, NX_), sy.mul(k_, NX_, NY_))

    def inverse_forms(g):
        a = (sy.mod(g, NX_), sy.mod(sy.div(g, NX_), NY_), sy.div(sy.div(g, NX_), NY_))
        plane = sy.mul(NX_, NY_)
        b = (sy.mod(sy.mod(g, plane), NX_), sy.div(sy.mod(g, plane), NX_), sy.div(g, plane))
        return [a, b]
    FWD = [("Opm::GridDims::getGlobalIndex", 3), ("Opm::EclIO::EGrid::global_index", 3), ("Opm::EclIO::EGrid::active_index", 3)]
    for q, npar in FWD:
        fs_ = [f for f in gx.fn(q) if f.get("body") and len(f.get("params") or []) == npar]
        if len(fs_) != 1:
            raise core.AnalysisBroken("%s(i,j,k): %d definitions" % (q, len(fs_)))
        f = fs_[0]
        pi, pj, pk = (p_["n"] for p_ in f["params"])

        def leaf_f(e, pi=pi, pj=pj, pk=pk):
            d = dim_leaf(e)
            if d is not None:
                return d
            if e.get("k") == "Ref" and e.get("d") == "Parm":
                return sy.S({pi: "i", pj: "j", pk: "k"}.get(e["n"], e["n"]))
            return None
        locs = {v["n"] for n in walk(f["body"]) if n["k"] == "Decl" for v in n["vars"]}
        ev_ = sy.Eval(leaf_f, locs)
        env = ev_.run([s_ for s_ in stmt_list(f["body"]) if s_["k"] in ("Decl", "Bin")], {})
        rets = [r_ for r_ in stmt_list(f["body"]) if r_["k"] == "Return" and r_.get("e") is not None]
        terms = []
        for r_ in rets:
            e = strip(r_["e"])
            sb = None
            if e.get("k") == "Idx":
                sb = e["c"][1]
            elif e.get("k") == "OpCall" and e.get("op") == "[]":
                sb = e["a"][1]
            terms.append(ev_.term(sb if sb is not None else e, env))
        ok = len(terms) == 1 and terms[0] is not None and forward_ok(terms[0], sy.S("i"), sy.S("j"), sy.S("k"))
        chk.instance(r_ijk, "forward:" + q, sample=dict(function=q, index=sy.show_term(terms[0]) if terms else None, natural=ok))
        if not ok:
            chk.violation(r_ijk, "forward:" + q, "%s numbers cell (i,j,k) as %s; the natural ordering every array in this library is stored in is i + nx*j + nx*ny*k" % (q, sy.show_term(terms[0]) if terms else "?"), f["file"], f["l"])
    INV = [("Opm::GridDims::getIJK", 0), ("Opm::EclIO::EGrid::ijk_from_global_index", 0), ("Opm::EclIO::ExtSmryOutput::ijk_from_global_index", 0),
           ("Opm::EclIO::ESmry::ijk_from_global_index", 1), ("Opm::EclIO::EGrid::ijk_from_active_index", 0), ("Opm::EclIO::EGrid::hostCellsIJK", 0)]
    for q, base1 in INV:
        fs_ = [f for f in gx.fn(q) if f.get("body")]
        if len(fs_) != 1:
            raise core.AnalysisBroken("%s: %d definitions" % (q, len(fs_)))
        f = fs_[0]
        params = [p_["n"] for p_ in f.get("params") or []]
        body = f["body"]
        ints_ = [p_["n"] for p_ in f.get("params") or [] if re.fullmatch(r"(const )?(std::)?(size_t|int|unsigned int|unsigned long|long)", (p_.get("t") or "").strip())]
        gname = ints_[0] if ints_ else (params[0] if params else None)
        out_names = None
        if q.endswith("ESmry::ijk_from_global_index"):
            out_names = params[1:4]
        loopvar = None
        if not params:
            lp = [n for n in stmt_list(body) if n["k"] == "ForRange"]
            if len(lp) != 1:
                raise core.AnalysisBroken("%s: loop over the cells not found" % q)
            loopvar = lp[0]["var"]["n"]
            body = lp[0]["body"]
            gname = loopvar

        def leaf_i(e, gname=gname):
            d = dim_leaf(e)
            if d is not None:
                return d
            if e.get("k") in ("Idx", "OpCall") and show(decast(e)).replace(" ", "").startswith("this.glob_index["):
                return sy.S("g")
            return None
        locs = {v["n"] for n in walk(body) if n["k"] == "Decl" for v in n["vars"]} | set(params)
        ev_ = sy.Eval(leaf_i, locs)
        env0 = {p_: sy.S("g" if p_ == gname else p_) for p_ in params}
        if loopvar:
            env0[loopvar] = sy.S("g")
            ev_.locals.add(loopvar)
        env = ev_.run(stmt_list(body), env0)
        if out_names:
            got = tuple(env.get(n_) for n_ in out_names)
        else:
            arr = [v["n"] for n in walk(body) if n["k"] == "Decl" for v in n["vars"] if "array<int, 3>" in (v.get("t") or "") or "array<int,3>" in (v.get("t") or "")]
            if len(arr) != 1:
                raise core.AnalysisBroken("%s: the (i,j,k) triple was not found" % q)
            got = tuple(env.get("%s[%d]" % (arr[0], d_)) for d_ in range(3))
        g_ = sy.S("g")
        if base1:
            forms = [tuple(sy.add(sy.I(1), t) for t in fm) for fm in inverse_forms(sy.add(g_, sy.I(-1)))]
        else:
            forms = inverse_forms(g_)
        ok = None not in got and got in forms
        chk.instance(r_ijk, "inverse:" + q, sample=dict(function=q, i=sy.show_term(got[0]), j=sy.show_term(got[1]), k=sy.show_term(got[2]), natural=ok))
        if not ok:
            chk.violation(r_ijk, "inverse:" + q, "%s splits a global index g into (i, j, k) = (%s, %s, %s); under the natural ordering it is (g mod nx, (g div nx) mod ny, g div (nx ny))%s: the cell it names is not the one the index belongs to" % (q, sy.show_term(got[0]), sy.show_term(got[1]), sy.show_term(got[2]), ", one-based" if base1 else ""), f["file"], f["l"])

    # ---- C13.layeroff: where the node surface of a layer starts in ZCORN
    r_lo = chk.rule("C13.layeroff", "EclIO::EGrid::getXYZ_layer(layer, box, bottom): the ZCORN offset of the requested node surface is 2 x layer x (4 nx ny) for the top and one surface (4 nx ny) more for the bottom - every layer owns two node surfaces (symbolic term of the local over nx, ny, layer and the bottom flag)", floor=1)
    gxl = [f for f in gx.fns if f["n"] == "getXYZ_layer" and f.get("body") and f["file"].endswith("EGrid.cpp") and "zcorn_offset" in show(f["body"])] if "gx" in dir() else []
    if not gxl:
        gxl = [f for f in chk.facts(["opm/io/eclipse/EGrid.cpp"]).fns if f["n"] == "getXYZ_layer" and f.get("body") and f["file"].endswith("EGrid.cpp") and len(f["params"]) == 3 and "zcorn_offset" in show(f["body"])]
    if len(gxl) != 1:
        raise core.AnalysisBroken("EGrid::getXYZ_layer(layer, box, bottom): %d definitions" % len(gxl))
    gxl = gxl[0]
    ln_, bn_ = gxl["params"][0]["n"], gxl["params"][2]["n"]

    def leaf_lo(e):
        e = strip(e)
        t_ = show(e)
        if t_ in ("this.nijk[0]", "nijk[0]"):
            return sy.S("nx")
        if t_ in ("this.nijk[1]", "nijk[1]"):
            return sy.S("ny")
        if e.get("k") == "Ref" and e.get("n") == ln_:
            return sy.S("layer")
        if e.get("k") == "Ref" and e.get("n") == bn_:
            return sy.S("bottom")
        return None
    ev_lo = sy.Eval(leaf_lo, {"nodes_pr_surf", "zcorn_offset"})
    top_lo = [st for st in stmt_list(gxl["body"])]
    cut = next((i for i, st in enumerate(top_lo) if st["k"] in ("For", "ForRange", "While") or (st["k"] == "If" and "zcorn_offset" not in show(st) and i > 0 and any("zcorn_offset" in show(x) for x in top_lo[:i]) and "zcorn_array" in show(st))), len(top_lo))
    env_lo = ev_lo.run([st for st in top_lo[:cut] if "zcorn_offset" in show(st) or "nodes_pr_surf" in show(st)], {})
    got_lo = env_lo.get("zcorn_offset")
    surf = sy.mul(sy.I(4), sy.S("nx"), sy.S("ny"))
    top_t = sy.mul(sy.I(2), sy.S("layer"), surf)
    want_lo = sy.cond(sy.S("bottom"), sy.add(top_t, surf), top_t)
    chk.instance(r_lo, "offset", sample=dict(term=sy.show_term(got_lo)))
    if got_lo != want_lo:
        chk.violation(r_lo, "offset", "EGrid::getXYZ_layer starts reading ZCORN at %s; the node surface of a layer starts at %s" % (sy.show_term(got_lo), sy.show_term(want_lo)), gxl["file"], gxl["l"])

    # ---- C13.zsign: the orientation of ZCORN is decided the same way where it is checked and where it is repaired
    r_zs = chk.rule("C13.zsign", "ZcornMapper::validZCORN and ZcornMapper::fixupZCORN derive the direction in which depth grows with K from the same expression - the first node of the top layer against the matching bottom node of the last layer, a tie counting as 'increasing' (`<=`): with a strict `<` in one of them a grid whose first pillar is pinched out (zero total thickness, legal) is read as upside down, and the repair collapses every cell onto its top", floor=2)
    zsig = {}
    for nm_ in ("validZCORN", "fixupZCORN"):
        zf = [f for f in fx.fns if f["n"] == nm_ and (f.get("cls") or "").endswith("ZcornMapper") and f.get("body")]
        if len(zf) != 1:
            raise core.AnalysisBroken("ZcornMapper::%s: %d definitions" % (nm_, len(zf)))
        zf = zf[0]
        pz = zf["params"][0]["n"]
        inits = [show(strip(v["init"])).replace(pz, "Z") for n in stmt_list(zf["body"]) if n["k"] == "Decl" for v in n["vars"] if v["n"] == "sign" and isinstance(v.get("init"), dict)]
        zsig[nm_] = (inits, zf)
        chk.instance(r_zs, nm_, sample=dict(sign=inits))
    WANT_S = "((Z[this.index(0, 0, 0, 0)] <= Z[this.index(0, 0, (this.dims[2] - 1), 4)]) ? 1 : (-1))"
    for nm_, (inits, zf) in zsig.items():
        norm_ = [re.sub(r"\(unsigned long\)|\(int\)|\(std::size_t\)|\(size_t\)", "", t_) for t_ in inits]
        if len(norm_) != 1 or norm_[0].replace(" ", "") not in (WANT_S.replace(" ", ""), WANT_S.replace(" ", "").replace("(-1)", "-1")):
            chk.violation(r_zs, nm_, "ZcornMapper::%s decides the ZCORN orientation as %s; required: %s (the same in validZCORN and fixupZCORN, ties count as increasing)" % (nm_, norm_, WANT_S), zf["file"], zf["l"])

    from verif import fallthrough
    fallthrough.run(chk, "C13", floor=3)
    from verif import argorder
    argorder.run(chk, "C13", floor=48)

    chk.assumptions += ["closure of the parallel loop is followed to depth 3 within EclipseGrid.cpp, GridDims.cpp and calculateCellVol.cpp; std:: callees are trusted to be re-entrant"]
