"""C05  Restart round trip - agreement of the restart writer's and the restart reader's tables.

Decides, for the per-well / per-connection / per-group / per-segment restart arrays (IWEL SWEL XWEL, ICON SCON XCON,
IGRP SGRP XGRP, ISEG RSEG): every slot a load-bearing reader consumes is written (C05.slots); the unit measure the
reader converts with is the one the writer converted with, or the one of the summary vector the writer stored
(C05.unit); the summary vector restored from a slot is the one that was stored there (C05.key); slot names of the
X* arrays agree with the mnemonic stored in them (C05.name); array names and element types requested by the
readers are the ones RestartIO::save emits (C05.arrays); integer encoders and decoders of states and control modes
are inverse tables (C05.enum).
NOT decided: value equality after a real save/load, and schedule equivalence (Schedule::cmp) - runtime.
"""
import itertools
import re

from verif import core
from verif.tree import walk, walk_fn, show, strip, stmt_list, meth

LEVEL = "other"

OUT = "/repo/opm/output/eclipse/"
RST = "/repo/opm/io/eclipse/rst/"
WRITERS = [OUT + "AggregateWellData.cpp", OUT + "AggregateConnectionData.cpp", OUT + "AggregateGroupData.cpp", OUT + "AggregateMSWData.cpp",
           OUT + "AggregateNetworkData.cpp", OUT + "AggregateAquiferData.cpp"]
READERS = [RST + "well.cpp", RST + "connection.cpp", RST + "group.cpp", RST + "segment.cpp", RST + "network.cpp", RST + "aquifer.cpp", OUT + "LoadRestart.cpp"]
VI = "Opm::RestartIO::Helpers::VectorItems::"
MEAS = "Opm::UnitSystem::measure::"
ARRAYS = ("IWell", "SWell", "XWell", "IConn", "SConn", "XConn", "IGroup", "SGroup", "XGroup", "ISeg", "RSeg",
          "INode", "IBran", "RNode", "RBran", "IAnalyticAquifer", "SAnalyticAquifer", "XAnalyticAquifer", "IAnalyticAquiferConn",
          "SAnalyticAquiferConn", "INumericAquifer", "RNumericAquifer")

KEY_RE = re.compile(r"^[WGFCS][A-Z0-9]{2,7}$")


def key_measure(key):
    """Unit measure of a summary vector from its mnemonic (documented Eclipse naming); None = not governed."""
    k = key[1:]
    m = re.match(r"^([OWGLV])([PI])([RT])(H|S|F|TH)?$", k)
    if m:
        ph, _, rt, _ = m.groups()
        if rt == "R":
            return {"O": "liquid_surface_rate", "W": "liquid_surface_rate", "L": "liquid_surface_rate", "G": "gas_surface_rate", "V": "rate"}[ph]
        return {"O": "liquid_surface_volume", "W": "liquid_surface_volume", "L": "liquid_surface_volume", "G": "gas_surface_volume", "V": "volume"}[ph]
    m = re.match(r"^([OWGLV])([PI])T(H|S|F)$", k)
    if m:
        return {"O": "liquid_surface_volume", "W": "liquid_surface_volume", "L": "liquid_surface_volume", "G": "gas_surface_volume", "V": "volume"}[m.group(1)]
    if k in ("BHP", "THP", "PR", "BP", "BHPH", "THPH"):
        return "pressure"
    if k in ("WCT", "WCTH"):
        return "water_cut"
    if k in ("GOR", "GORH"):
        return "gas_oil_ratio"
    if k in ("GCR", "GIMR"):
        return "gas_surface_rate"
    if k in ("GCT", "GIMT"):
        return "gas_surface_volume"
    m = re.match(r"^([OWG])PP$", k)
    if m:
        return "gas_surface_rate" if m.group(1) == "G" else "liquid_surface_rate"
    return None


def subscript(n):
    """(base, index) of a[i] whether built-in or an overloaded operator[]."""
    if n["k"] == "Idx":
        return n["c"][0], n["c"][1]
    if n["k"] == "OpCall" and n.get("op") == "[]" and len(n.get("a", [])) == 2:
        return n["a"][0], n["a"][1]
    return None


def slot_of(idx):
    """(array, slot, value) if the subscript is an enumerator of VectorItems::<A> (possibly nwgmax + enumerator)."""
    hits = [n for n in walk(idx) if n["k"] == "Ref" and n.get("d") == "Enum" and (n.get("q") or "").startswith(VI)]
    if len(hits) != 1:
        return None
    q = hits[0]["q"][len(VI):].split("::")
    if q[0] not in ARRAYS:
        return None
    simple = strip(idx)["k"] == "Ref"
    return q[0], q[-1], hits[0].get("ev"), simple


def measures_in(n):
    return [x["n"] for x in walk(n) if x["k"] == "Ref" and x.get("d") == "Enum" and (x.get("q") or "").startswith(MEAS)]


def lambdas_of(fn):
    out = {}
    for n in walk_fn(fn):
        if n["k"] == "Decl":
            for v in n["vars"]:
                i = v.get("init")
                while i and i["k"] in ("Cast", "Ctor") and (i.get("c") or i.get("a")):
                    i = (i.get("c") or i.get("a"))[0]
                if i and i["k"] == "Lambda":
                    out[v["n"]] = i
    return out


def const_strings(n, env, lams, depth=0):
    """Set of strings an expression can evaluate to (characters, literals, fmt::format of those, ?: of those); None if unknown."""
    n = strip(n)
    k = n["k"]
    if k == "Str":
        return {n["v"]}
    if k == "Chr":
        return {chr(n["v"])}
    if k == "Cond":
        a, b = const_strings(n["c"][1], env, lams, depth), const_strings(n["c"][2], env, lams, depth)
        return a | b if a is not None and b is not None else None
    if k == "Ref" and n["n"] in env:
        v = env[n["n"]]
        return v if v and all(isinstance(x, str) for x in v) else None
    if k in ("Ctor", "Cast"):
        kids = [x for x in (n.get("a") or n.get("c") or []) if x.get("k") != "DefArg"]
        if len(kids) == 1:
            return const_strings(kids[0], env, lams, depth)
    if k == "Call" and (n.get("fn") or "").startswith("fmt::format") and n.get("a"):
        pat = const_strings(n["a"][0], env, lams, depth)
        if not pat or len(pat) != 1:
            return None
        pat = next(iter(pat))
        parts = [const_strings(a, env, lams, depth) for a in n["a"][1:]]
        if any(p is None for p in parts) or pat.count("{}") != len(parts):
            return None
        out = set()
        for combo in itertools.product(*parts):
            s = pat
            for c in combo:
                s = s.replace("{}", c, 1)
            out.add(s)
        return out
    if k == "Bin" and n.get("op") == "+" and not n.get("asg"):
        a, b = const_strings(n["c"][0], env, lams, depth), const_strings(n["c"][1], env, lams, depth)
        if a is not None and b is not None:
            return {x + y for x in a for y in b}
    return None


def in_lambda_arg(ref, root, lams):
    """True if the measure enumerator is an argument of a call to a local lambda that is inlined (so it is counted there)."""
    for n in walk(root):
        if n["k"] == "Call" and isinstance(n.get("callee"), dict) and strip(n["callee"])["k"] == "Ref" and strip(n["callee"])["n"] in lams:
            for a in n.get("a", []):
                if strip(a) is ref or a is ref:
                    return True
    return False


HELPERS = {}


def summarise(rhs, fn, lams, arr_name, env=None, depth=0):
    """What a writer right-hand side is made of: unit measures, summary keys, slots of the same array it copies."""
    env = env or {}
    top = strip(rhs)
    if top["k"] == "Cond":
        a = summarise(top["c"][1], fn, lams, arr_name, env, depth)
        b = summarise(top["c"][2], fn, lams, arr_name, env, depth)
        c = summarise(top["c"][0], fn, lams, arr_name, env, depth)
        ms = a["measures"] if sorted(a["measures"]) == sorted(b["measures"]) or not b["measures"] else (b["measures"] if not a["measures"] else a["measures"] + b["measures"])
        return dict(measures=list(ms), keys=a["keys"] | b["keys"], copies=a["copies"] | b["copies"] | c["copies"], opaque=False)
    out = dict(measures=[], keys=set(), copies=set(), opaque=False)
    local_strs = {}
    pm_ = parent_map(rhs)

    def directed(node, name):
        """measure name with the direction of the conversion call that takes it as its first argument: a writer multiplies by
        the from_si factor; a to_si on the writer side (a 'unit hack') divides."""
        p_ = pm_.get(id(node))
        hops = 0
        while p_ is not None and hops < 4:
            if p_["k"] in ("MCall", "Call"):
                nm = p_.get("m") or (p_.get("fn") or "").split("::")[-1]
                if nm == "to_si" and p_.get("a") and any(x is node for x in walk(p_["a"][0])):
                    return "1/" + name
                if nm == "from_si":
                    return name
                break
            p_ = pm_.get(id(p_))
            hops += 1
        return name
    fdecls = {}
    if depth == 0 and fn.get("body"):
        for n in walk_fn(fn):
            if n["k"] == "Decl":
                for v in n["vars"]:
                    if v.get("init") is not None:
                        fdecls.setdefault(v["n"], v["init"])
    for n in walk(rhs):
        k = n["k"]
        if k == "Ref" and n.get("d") == "Enum" and (n.get("q") or "").startswith(MEAS):
            if not in_lambda_arg(n, rhs, lams):
                out["measures"].append(directed(n, n["n"]))
        elif k == "Ref" and n["n"] in env and n.get("d") in ("Parm", "Var"):
            for v in env[n["n"]] or ():
                if isinstance(v, tuple) and v[0] == "measure":
                    out["measures"].append(directed(n, v[1]))
        elif k == "Ref" and n.get("d") == "Var" and depth == 0 and n["n"] in fdecls and n["n"] not in lams and n["n"] != arr_name:
            # a local that was itself produced by a conversion (q = from_si(rate, x); ... to_si(length, q))
            init = fdecls[n["n"]]
            if any((x.get("m") or (x.get("fn") or "").split("::")[-1]) in ("to_si", "from_si") for x in walk(init) if x["k"] in ("MCall", "Call")):
                sub = summarise(init, fn, lams, arr_name, env, depth + 1)
                out["measures"] += sub["measures"]
        elif subscript(n):
            b_, i_ = subscript(n)
            s = slot_of(i_)
            if s and strip(b_).get("n") == arr_name:
                out["copies"].add(s[1])
        elif k in ("Str", "Chr"):
            pass
        if k == "Call" and n.get("fn") in HELPERS and depth < 3:
            h = HELPERS[n["fn"]]
            e2 = {}
            for p_, a in zip(h.get("params", []), n.get("a", [])):
                cs = const_strings(a, env, lams)
                ms = measures_in(a)
                e2[p_["n"]] = cs if cs is not None else ({("measure", m) for m in ms} or None)
                # a forwarded unit lambda keeps its meaning
                if strip(a)["k"] == "Ref" and strip(a)["n"] in lams:
                    lams = dict(lams)
                    lams[p_["n"]] = lams[strip(a)["n"]]
            sub = summarise(h["body"], h, lams, arr_name, e2, depth + 1)
            # measures passed as arguments were already counted at the call site
            passed = [m for a in n.get("a", []) for m in measures_in(a)]
            ms_ = list(sub["measures"])
            for m in passed:
                if m in ms_:
                    ms_.remove(m)
            out["measures"] += ms_
            out["keys"] |= sub["keys"]
        if k == "Call" and isinstance(n.get("callee"), dict) and strip(n["callee"])["k"] == "Ref":
            name = strip(n["callee"])["n"]
            lam = lams.get(name)
            if lam is not None and depth < 3:
                e2 = dict(env)
                for p, a in zip(lam.get("params", []), n.get("a", [])):
                    cs = const_strings(a, env, lams)
                    ms = measures_in(a)
                    e2[p["n"]] = cs if cs is not None else ({("measure", m) for m in ms} or None)
                # captured by-copy/ref variables keep their outer bindings
                sub = summarise(lam["body"], fn, lams, arr_name, e2, depth + 1)
                out["measures"] += sub["measures"]
                for kk in ("keys", "copies"):
                    out[kk] |= sub[kk]
    # keys: strings handed to a summary look-up (get, get_well_var, ... ) possibly via a local string variable
    decls = {}
    for n in walk(rhs):
        if n["k"] == "Decl":
            for v in n["vars"]:
                if v.get("init") is not None:
                    decls[v["n"]] = v["init"]
    env2 = dict(env)
    for name, init in decls.items():
        cs = const_strings(init, env2, lams)
        if cs is not None:
            env2[name] = cs
    for n in walk(rhs):
        if n["k"] in ("Call", "MCall", "OpCall") and n.get("a"):
            for a in n["a"]:
                cs = const_strings(a, env2, lams)
                if cs:
                    for s in cs:
                        if KEY_RE.match(s):
                            out["keys"].add(s)
    return out


def parent_map(root):
    pm = {}
    stack = [root]
    while stack:
        n = stack.pop()
        for v in n.values():
            if isinstance(v, dict) and "k" in v:
                pm[id(v)] = n
                stack.append(v)
            elif isinstance(v, list):
                for x in v:
                    if isinstance(x, dict) and "k" in x:
                        pm[id(x)] = n
                        stack.append(x)
                    elif isinstance(x, dict):
                        for y in x.values():
                            if isinstance(y, dict) and "k" in y:
                                pm[id(y)] = n
                                stack.append(y)
    return pm


def all_statements(body):
    """Leaf statements of a function body (expression statements, declarations, returns), descending into compound ones."""
    out = []

    def rec(n):
        k = n["k"]
        if k == "Block" or k == "Compound":
            for c in stmt_list(n):
                rec(c)
        elif k == "If":
            out.append(n["cond"])
            rec(n["then"])
            if n.get("else"):
                rec(n["else"])
        elif k in ("For", "While", "Do", "ForRange"):
            for key in ("init", "cond", "inc", "range"):
                if isinstance(n.get(key), dict):
                    out.append(n[key])
            rec(n["body"])
        elif k == "Switch":
            out.append(n["cond"])
            rec(n["body"])
        elif k == "Case":
            for c in n.get("body", []) if isinstance(n.get("body"), list) else [n.get("body")] if n.get("body") else []:
                rec(c)
        elif k == "Try":
            rec(n["body"])
            for h in n.get("handlers", []):
                rec(h["body"])
        elif k == "Lambda":
            rec(n["body"])
        else:
            # leaf statement; lambdas defined inside are separate scopes whose statements we also want
            lams = [x for x in walk(n) if x["k"] == "Lambda"]
            if lams and k == "Decl":
                for lm in lams:
                    rec(lm["body"])
            else:
                out.append(n)
    rec(body)
    return out


def val_of(e):
    e = strip(e)
    if e["k"] == "Ref" and e.get("d") == "Enum":
        return (e.get("q") or e["n"]).replace("Opm::RestartIO::Helpers::VectorItems::", "VI::"), e.get("ev")
    if e["k"] == "Int":
        return str(e["v"]), e["v"]
    if e.get("ev") is not None:
        return show(e), e["ev"]
    return show(e), None


def switch_table(fn):
    """label -> set of returned values for the outermost switch of a function (fall-through labels grouped; a nested switch
    contributes all its returns).  None if the function has no switch."""
    sw = next((n for n in walk_fn(fn) if n["k"] == "Switch"), None)
    if sw is None:
        return None
    table = {}
    default = set()
    pending, is_default = [], False

    def close(stmts):
        vals = set()
        for st in stmts:
            for x in walk(st):
                if x["k"] == "Return" and x.get("e") is not None:
                    vals.add(val_of(x["e"]))
                if x["k"] == "Throw":
                    vals.add(("<throw>", None))
        return vals

    group = []
    items = stmt_list(sw["body"])
    def flush():
        nonlocal pending, is_default, group
        if pending or is_default:
            vals = close(group)
            if vals:
                for lab in pending:
                    table.setdefault(lab, set()).update(vals)
                if is_default:
                    default.update(vals)
                pending, is_default = [], False
        group = []
    for it in items:
        node = it
        opened = False
        while node is not None and node["k"] in ("Case", "Default"):
            if not opened and group and close(group):
                flush()
            opened = True
            if node["k"] == "Case":
                pending.append(val_of(node["v"]))
            else:
                is_default = True
            node = node.get("sub")
        if node is not None:
            group.append(node)
    flush()
    return table, default


def provenance(expr, fn, by_q, depth=0, seen=None):
    """Tokens describing where an index expression comes from: names of accessor methods called, '-1' for a decrement by one,
    'loop:<var>' for a loop counter, 'param:<name>' for a parameter that could not be resolved through the callers in the file."""
    seen = seen if seen is not None else set()
    out = set()
    decls = {}
    loops = set()
    for n in walk_fn(fn):
        if n["k"] == "Decl":
            for v in n["vars"]:
                decls.setdefault(v["n"], v)
        if n["k"] == "For" and isinstance(n.get("init"), dict):
            for x in walk(n["init"]):
                if x["k"] == "Decl":
                    for v in x["vars"]:
                        loops.add(v["n"])
    for n in walk(expr):
        k = n["k"]
        if k in ("MCall",) and n.get("m"):
            out.add(n["m"])
        elif k == "Bin" and n.get("op") == "-" and strip(n["c"][1])["k"] == "Int" and strip(n["c"][1])["v"] == 1:
            out.add("-1")
        elif k == "Ref" and n.get("d") == "Var" and (fn["q"], n["n"]) not in seen:
            seen.add((fn["q"], n["n"]))
            if n["n"] in loops:
                out.add("loop:" + n["n"])
            v = decls.get(n["n"])
            if v is not None and v.get("init") is not None and depth < 5:
                out |= provenance(v["init"], fn, by_q, depth + 1, seen)
            for b in [x for x in walk_fn(fn) if x["k"] == "Decl" and x.get("bindings")]:
                if n["n"] in [bb.get("n") for bb in b.get("bindings", [])]:
                    out.add("binding")
        elif k == "Ref" and n.get("d") == "Parm" and (fn["q"], n["n"]) not in seen:
            seen.add((fn["q"], n["n"]))
            pi = next((i for i, p_ in enumerate(fn.get("params", [])) if p_["n"] == n["n"]), None)
            resolved = False
            if pi is not None and depth < 5:
                for g in by_q.get("*", []):
                    for c in walk_fn(g):
                        cal = c.get("callee") if isinstance(c.get("callee"), dict) else None
                        cname = strip(cal).get("n") if cal else None
                        if c["k"] == "Call" and (c.get("fn") == fn["q"] or (c.get("fn") is None and cname == fn["n"])) and len(c.get("a", [])) > pi:
                            out |= provenance(c["a"][pi], g, by_q, depth + 1, seen)
                            resolved = True
            if not resolved:
                out.add("param:" + n["n"])
    return out


def n_hops_to_stmt(p, pm):
    return 0


def helper_measure(h, depth=0):
    """What a free helper does to its argument: ('comp', [measures applied]) when every to_si names its measure, ('alt', {..}) when
    the measure is chosen at run time among the enumerators the helper mentions; ('comp', []) when it converts nothing."""
    calls = [n for n in walk(h["body"]) if n["k"] in ("MCall", "Call") and (n.get("m") or (n.get("fn") or "").split("::")[-1]) in ("to_si", "from_si")]
    comp = []
    variable = False
    for c in calls:
        ms = measures_in(c["a"][0]) if c.get("a") else []
        nm_ = c.get("m") or (c.get("fn") or "").split("::")[-1]
        if ms:
            comp.append(ms[0] if nm_ == "to_si" else "1/" + ms[0])
        else:
            variable = True
    if variable:
        named = set(measures_in(h["body"]))
        if named:
            return ("alt", named)
        return None          # measure comes from elsewhere (a Dimension object, a keyword item): not governed
    if depth < 2:
        for n in walk(h["body"]):
            if n["k"] == "Call" and n.get("fn") in HELPERS and HELPERS[n["fn"]] is not h:
                sub = helper_measure(HELPERS[n["fn"]], depth + 1)
                if sub is None or sub[0] == "alt":
                    return sub
                comp += sub[1]
    # conditional conversion (only some paths convert): alternatives identity | measure
    rets = [n for n in walk(h["body"]) if n["k"] == "Return"]
    if comp and len(rets) > 1 and len(calls) == 1:
        return ("alt", set(comp) | {"identity"})
    return ("comp", comp)


def run(chk):
    fx = chk.facts(WRITERS + READERS + ["/repo/opm/input/eclipse/Units/UnitSystem.cpp"], files_re="^/repo/opm/")
    # ---- numeric equivalence classes of the measures (same factor and offset in all four systems)
    measures = [e["n"] for e in fx.enum1("Opm::UnitSystem::measure")["items"]]
    tabs = {v["n"]: v for v in fx.vars if v["file"].endswith("UnitSystem.cpp")}
    sig = {}
    for sysname in ("metric", "field", "lab", "pvt_m"):
        for tname in ("from_" + sysname, "from_%s_offset" % sysname):
            t = tabs.get(tname)
            if t is None or t["init"]["k"] != "InitList":
                raise core.AnalysisBroken("table %s not found in UnitSystem.cpp" % tname)
            for i, e in enumerate(t["init"]["c"]):
                if i < len(measures):
                    v = e.get("fv", e.get("v"))
                    if v is None:
                        raise core.AnalysisBroken("entry %d of %s has no compile-time value" % (i, tname))
                    sig.setdefault(measures[i], []).append(float(v))

    def equivalent(a, b):
        return a == b or (a in sig and b in sig and all(abs(x - y) <= 1e-12 * max(abs(x), abs(y)) for x, y in zip(sig[a], sig[b])))

    # ---- writer table
    r_w = chk.rule("C05.writer", "assignments to restart-array slots found in the Aggregate*Data writers (slot, measures, summary keys, copies)", floor=350)
    writer = {}      # (array, slot) -> list of dict(measures, keys, copies, raw, fn, l)
    wvals = {}       # (array, value) -> slot name
    HELPERS.clear()
    for f in fx.fns:
        if f.get("body") and not f.get("cls") and (f["file"].startswith(OUT + "Aggregate") or f["file"].startswith(RST)):
            HELPERS[f["q"]] = f
    for f in fx.fns:
        if not f["file"].startswith(OUT + "Aggregate") or not f.get("body"):
            continue
        lams = lambdas_of(f)
        # reference aliases of a slot:  auto& x = arr[Ix::S];  ... x = value
        for n in walk_fn(f):
            if n["k"] == "Decl":
                for v in n["vars"]:
                    if v.get("ref") and not v.get("cref") and v.get("init") is not None:
                        sub_ = subscript(strip(v["init"]))
                        s_ = slot_of(sub_[1]) if sub_ else None
                        if s_:
                            sm = dict(measures=[], keys=set(), copies=set(), opaque=True, fn=f["q"], l=n["l"], file=f["file"], op="&", simple=s_[3], text="reference alias `%s`" % v["n"])
                            writer.setdefault((s_[0], s_[1]), []).append(sm)
                            wvals[(s_[0], s_[2])] = s_[1]
                            chk.instance(r_w, "%s::%s@%d" % (s_[0], s_[1], n["l"]), sample=dict(slot="%s::%s" % (s_[0], s_[1]), via="reference alias"))
        for n in walk_fn(f):
            if n["k"] == "Bin" and n.get("asg"):
                lhs = strip(n["c"][0])
                sub_ = subscript(lhs)
                if not sub_:
                    continue
                s = slot_of(sub_[1])
                if not s:
                    continue
                rhs = n["c"][1]
                while strip(rhs)["k"] == "Bin" and strip(rhs).get("asg") and strip(rhs)["op"] == "=":
                    rhs = strip(rhs)["c"][1]
                arr_name = strip(sub_[0]).get("n")
                sm = summarise(rhs, f, lams, arr_name)
                sm.update(fn=f["q"], l=n["l"], file=f["file"], op=n["op"], simple=s[3], text=show(rhs)[:100])
                writer.setdefault((s[0], s[1]), []).append(sm)
                wvals[(s[0], s[2])] = s[1]
                chk.instance(r_w, "%s::%s@%d" % (s[0], s[1], n["l"]), sample=dict(slot="%s::%s" % (s[0], s[1]), measures=sorted(sm["measures"]), keys=sorted(sm["keys"]), copies=sorted(sm["copies"])))
    # XGRP is addressed through key->index tables
    recs_hdr = chk.facts([OUT + "AggregateGroupData.cpp"], files_re="AggregateGroupData.hpp")
    xg_enum = fx.enums.get(VI + "XGroup::index") or recs_hdr.enums.get(VI + "XGroup::index")
    if not xg_enum:
        raise core.AnalysisBroken("enum VectorItems::XGroup::index not found")
    xg_by_val = {}
    for it in xg_enum["items"]:
        xg_by_val.setdefault(it["v"], it["n"])
    key_tables = {}
    rec = recs_hdr.recs.get("Opm::RestartIO::Helpers::AggregateGroupData") or fx.recs.get("Opm::RestartIO::Helpers::AggregateGroupData")
    if not rec:
        raise core.AnalysisBroken("class AggregateGroupData not found")
    for fld in rec["fields"]:
        if fld["n"] in ("groupKeyToIndex", "fieldKeyToIndex"):
            init = fld.get("init")
            if not init:
                raise core.AnalysisBroken("AggregateGroupData::%s has no in-class initialiser in the extracted facts" % fld["n"])
            pairs = []
            for e in walk(init):
                if e["k"] in ("InitList", "Ctor"):
                    kids = e.get("c") or e.get("a") or []
                    ss = [x for x in kids if strip(x)["k"] in ("Str",) or (strip(x)["k"] in ("Ctor", "Cast") and [y for y in walk(x) if y["k"] == "Str"])]
                    ii = [x for x in kids if strip(x)["k"] == "Int" or strip(x).get("ev") is not None]
                    if len(kids) == 2 and ss and ii:
                        sv = [y["v"] for y in walk(kids[0]) if y["k"] == "Str"]
                        iv = strip(kids[1]).get("v", strip(kids[1]).get("ev"))
                        if sv and iv is not None:
                            pairs.append((sv[0], int(iv), e["l"]))
            key_tables[fld["n"]] = sorted(set(pairs))
    chk.extra["xgrp_key_tables"] = {k: len(v) for k, v in key_tables.items()}

    # ---- reader table
    r_r = chk.rule("C05.reader", "reads of restart-array slots found in rst::RstWell/RstConnection/RstGroup/RstSegment and LoadRestart.cpp (slot, measure, summary key)", floor=280)
    readers = []     # dict(array, slot, value, measure, keys, field, fn, l, nslots)
    all_mrefs = {}
    for f in fx.fns:
        for mr in f.get("mrefs", []):
            all_mrefs.setdefault(mr, set()).add(f["q"])

    def reads_in(expr, ctx, body=None):
        pm = parent_map(expr)
        sites = []
        for n in walk(expr):
            if not subscript(n):
                continue
            s = slot_of(subscript(n)[1])
            if not s:
                continue
            # climb to the nearest to_si(...) and the nearest call with a string literal argument
            meas, keys, neg = None, None, False
            comp, alts, unknown = [], None, False
            p = pm.get(id(n))
            child = n
            flip = False
            hops = 0
            while p is not None and hops < 12:
                if p["k"] == "Bin" and p.get("op") == "/" and len(p.get("c", [])) == 2 and any(x is child for x in walk(p["c"][1])):
                    flip = not flip          # the slot value is inverted before what follows is applied to it
                if p["k"] in ("MCall", "Call", "OpCall"):
                    name = p.get("m") or (p.get("fn") or "").split("::")[-1]
                    if name in ("to_si", "from_si"):
                        ms = measures_in(p["a"][0]) if p.get("a") else []
                        if not ms:
                            unknown = True
                        else:
                            comp.append(ms[0] if (name == "to_si") != flip else "1/" + ms[0])
                    elif p.get("fn") in HELPERS and (n_hops_to_stmt(p, pm) >= 0):
                        hm = helper_measure(HELPERS[p["fn"]])
                        if hm is None:
                            unknown = True
                        elif hm[0] == "comp":
                            comp += hm[1]
                        else:
                            alts = hm[1]
                    if keys is None and p.get("a"):
                        ks = set()
                        for a in p["a"]:
                            cs = const_strings(a, {}, {})
                            if cs:
                                ks |= {x for x in cs if re.match(r"^[A-Z][A-Z0-9]{1,7}$", x)}
                        if ks:
                            keys = ks
                child = p
                p = pm.get(id(p))
                hops += 1
            if body is not None and expr["k"] == "Decl" and len(expr["vars"]) == 1 and not unknown:
                # the converted value is kept in a local: conversions applied to that local later belong to the same chain
                vname = expr["vars"][0]["n"]
                for c_ in walk(body):
                    if c_["k"] in ("MCall", "Call") and (c_.get("m") or (c_.get("fn") or "").split("::")[-1]) in ("to_si", "from_si") and len(c_.get("a", [])) >= 2:
                        if any(x["k"] == "Ref" and x["n"] == vname and x.get("dl") == expr["vars"][0].get("l") for x in walk(c_["a"][1])):
                            ms = measures_in(c_["a"][0])
                            nm_ = c_.get("m") or (c_.get("fn") or "").split("::")[-1]
                            if ms and not any(subscript(x) and slot_of(subscript(x)[1]) for x in walk(c_)):
                                comp.append(ms[0] if nm_ == "to_si" else "1/" + ms[0])
            if unknown:
                meas = ("?", None)
            elif alts is not None:
                meas = ("alt", sorted(alts))
            elif comp:
                meas = ("comp", sorted(comp))
            sites.append(dict(array=s[0], slot=s[1], value=s[2], measure=meas, keys=keys or set(), l=n["l"], simple=s[3], **ctx))
        for st in sites:
            st["nslots"] = len(sites)
        return sites

    for f in fx.fns:
        if not (f["file"].startswith(RST) or f["file"].endswith("LoadRestart.cpp")) or f.get("light"):
            continue
        if f.get("ctor") and f.get("inits"):
            for i in f["inits"]:
                if i.get("implicit"):
                    continue
                for st in reads_in(i["init"], dict(fn=f["q"], field=i.get("member"), file=f["file"], cls=f.get("cls"))):
                    # measures hidden in a lambda argument or helper of the same initialiser
                    if st["measure"] is None:
                        # conversion inside a lambda handed to a helper of the same initialiser (keep_sentinel(raw, [](x){ to_si(M, x) }))
                        ms = [m for lm in walk(i["init"]) if lm["k"] == "Lambda" for m in measures_in(lm["body"])]
                        if ms:
                            st["measure"] = ("comp", sorted(ms))
                    readers.append(st)
        if f.get("body"):
            for stmt in all_statements(f["body"]):
                for st in reads_in(stmt, dict(fn=f["q"], field=None, file=f["file"], cls=f.get("cls")), f["body"]):
                    readers.append(st)
    for st in readers:
        chk.instance(r_r, "%s::%s@%s:%d" % (st["array"], st["slot"], st["fn"].split("::")[-1], st["l"]),
                     sample=dict(slot="%s::%s" % (st["array"], st["slot"]), measure=st["measure"], keys=sorted(st["keys"]), field=st["field"], fn=st["fn"]))

    # ---- which reader fields are load-bearing: LoadRestart reads are; a Rst* constructor field is if anything else names it
    lib = chk.facts(core.library_units())
    from rules import C03 as _c03
    _c03.run_lostupdate(chk, lib, "C05")
    users = {}
    for f in lib.fns:
        for mr in f.get("mrefs", []):
            users.setdefault(mr, set()).add(f["q"])

    def load_bearing(st):
        if st["field"] is None:
            return True
        q = "%s::%s" % (st["cls"], st["field"])
        return bool({u for u in users.get(q, ()) if not u.startswith(st["cls"] + "::")})

    deferred = {(d["class"], d["field"]): d for d in core.load_table("c05_deferred.json")["deferred"]}
    reader_only = {(d["array"], d["slot"]): d for d in core.load_table("c05_reader_only.json")["reader_only"]}
    used_def, used_ro = set(), set()

    xg_keys = {}    # slot value -> set of keys (G/F tables)
    for tname, pairs in key_tables.items():
        for k, v, l in pairs:
            xg_keys.setdefault(v, set()).add(k)
    if len(key_tables.get("groupKeyToIndex", ())) < 30 or len(key_tables.get("fieldKeyToIndex", ())) < 25:
        raise core.AnalysisBroken("XGRP key->index tables not extracted (%s)" % {k: len(v) for k, v in key_tables.items()})

    def writer_sites(arr, slot, value, seen=()):
        """Writer assignments to a slot, copies resolved to the assignments of the slot copied from."""
        out = []
        for w in writer.get((arr, slot), []):
            if w["copies"] and not w["measures"] and not w["keys"] and len(w["copies"]) == 1 and (arr, slot) not in seen:
                src = next(iter(w["copies"]))
                if src != slot:
                    out += writer_sites(arr, src, None, seen + ((arr, slot),))
                    continue
            out.append(w)
        if arr == "XGroup" and value is not None and value in xg_keys:
            out.append(dict(measures=set(), keys=set(xg_keys[value]), copies=set(), fn="AggregateGroupData key tables", l=0, file=OUT + "AggregateGroupData.hpp", text="key table", op="="))
        return out

    # ---- C05.slots
    r_s = chk.rule("C05.slots", "every restart-array slot a load-bearing reader consumes is assigned by the writer", floor=150)
    for st in readers:
        if not load_bearing(st) or st["slot"].endswith("Offset"):
            continue
        key = "%s::%s" % (st["array"], st["slot"])
        ws = writer.get((st["array"], st["slot"])) or (st["array"] == "XGroup" and st["value"] in xg_keys) or ((st["array"], st["value"]) in wvals)
        chk.instance(r_s, key + "@%s:%d" % (st["fn"].split("::")[-1], st["l"]), sample=dict(slot=key, reader=st["fn"], written=bool(ws)))
        if not ws:
            ro = reader_only.get((st["array"], st["slot"]))
            if ro:
                used_ro.add((st["array"], st["slot"]))
                continue
            chk.violation(r_s, key, "%s reads %s[%s] (field %s) but no Aggregate*Data writer assigns that slot: the value restored is the array's fill value, not what was saved" % (st["fn"], st["array"], st["slot"], st["field"]), st["file"], st["l"])

    # ---- C05.unit
    r_u = chk.rule("C05.unit", "the measure a reader converts a slot with is the measure the writer converted it with (or the measure of the summary vector stored there)", floor=90)

    import math

    def factor_logs(ms):
        """Per unit system: log of the product of the from_si factors of the listed measures ('1/m' divides)."""
        out = [0.0, 0.0, 0.0, 0.0]
        for m in ms:
            inv = m.startswith("1/")
            name = m[2:] if inv else m
            if name not in sig:
                return None
            fs = sig[name][0::2]          # from_<sys>, from_<sys>_offset alternate
            for i_, f_ in enumerate(fs):
                if f_ <= 0:
                    return None
                out[i_] += (-1 if inv else 1) * math.log(f_)
        return out

    def mset_equiv(a, b):
        """The two conversion chains scale by the same factor in all four unit systems (offsets: temperature only, compared by name)."""
        if any("temperature" == m.replace("1/", "") for m in list(a) + list(b)):
            return sorted(a) == sorted(b)
        la, lb = factor_logs(a), factor_logs(b)
        if la is None or lb is None:
            return sorted(a) == sorted(b)
        return all(abs(x - y) <= 1e-9 * max(1.0, abs(x), abs(y)) for x, y in zip(la, lb))

    def matches(wm, rmeas):
        if rmeas[0] == "comp":
            return mset_equiv(wm, rmeas[1])
        return any(mset_equiv(wm, [alt]) for alt in rmeas[1])

    for st in readers:
        key = "%s::%s@%s:%d" % (st["array"], st["slot"], st["fn"].split("::")[-1], st["l"])
        lb = load_bearing(st)
        if st["slot"].endswith("Offset"):
            continue
        ws = writer_sites(st["array"], st["slot"], st["value"])
        rmeas = st["measure"]
        if rmeas and rmeas[0] == "?":
            continue
        determined = []
        for w in ws:
            if w["measures"]:
                determined.append((list(w["measures"]), "from_si(%s)" % ",".join(sorted(w["measures"])), w))
            elif w["keys"]:
                kms = {key_measure(k) for k in w["keys"]}
                if None not in kms and len(kms) == 1:
                    determined.append((list(kms), "summary vector %s [%s]" % ("/".join(sorted(w["keys"])), next(iter(kms))), w))
        if not determined:
            continue
        if rmeas is None:
            # raw read: fine for values kept in output units on purpose
            if st["keys"]:
                continue      # restored into the summary state, which holds output units
            if all(mset_equiv(m, []) for m, _, _ in determined):
                continue
            if st["field"] is None:
                continue      # local use in LoadRestart (fractions, flags) - not a stored field
            d = deferred.get((st["cls"], st["field"]))
            chk.instance(r_u, key, sample=dict(slot="%s::%s" % (st["array"], st["slot"]), reader="raw", writer=[t for _, t, _ in determined], deferred=bool(d), load_bearing=lb))
            if d:
                used_def.add((st["cls"], st["field"]))
                continue
            msg = "%s stores %s[%s] unconverted in %s, but the writer converted it with %s" % (st["fn"], st["array"], st["slot"], st["field"], determined[0][1])
            if lb:
                chk.violation(r_u, key, msg + ": the restarted run sees the value in output units where SI is expected", st["file"], st["l"], writer=[(w["file"], w["l"]) for _, _, w in determined])
            else:
                chk.info(r_u, msg + " (field not used anywhere: no effect)")
            continue
        chk.instance(r_u, key, sample=dict(slot="%s::%s" % (st["array"], st["slot"]), reader=rmeas, writer=[t for _, t, _ in determined], load_bearing=lb))
        bad = [(m, t, w) for m, t, w in determined if not matches(m, rmeas)]
        if bad:
            rtxt = ("measure::" + "*".join(rmeas[1])) if rmeas[0] == "comp" else ("one of measure::{%s}" % ",".join(rmeas[1]))
            msg = "%s converts %s[%s] with %s, but the writer stored it as %s (%s:%d)" % (st["fn"], st["array"], st["slot"], rtxt, bad[0][1], bad[0][2]["file"].split("/")[-1], bad[0][2]["l"])
            if lb:
                chk.violation(r_u, "%s::%s:%s" % (st["array"], st["slot"], st["field"] or st["fn"].split("::")[-1]), msg + ": the value comes back scaled in the unit systems where the two measures differ", st["file"], st["l"])
            else:
                chk.info(r_u, msg + " - field %s::%s is not used anywhere, no effect on a restarted run" % (st["cls"], st["field"]))

    # ---- C05.deferred: a field kept in output units may only flow into things that convert it
    r_d = chk.rule("C05.deferred", "Rst* fields kept in output units (tables/c05_deferred.json) are only handed to UDAValue updates, definedness tests, comparisons or an explicit to_si", floor=25)
    OKCALL = ("update_if_defined", "is_defined", "update", "to_si", "UDAValue")
    for (cls, fld), d in sorted(deferred.items()):
        q = "%s::%s" % (cls, fld)
        ufs = [f for f in lib.fns if q in f.get("mrefs", []) and not f["q"].startswith(cls + "::") and f.get("body")]
        if not ufs:
            chk.info(r_d, "%s is not used outside %s" % (q, cls))
        for f in ufs:
            pm = parent_map(f["body"])
            for n in walk_fn(f):
                if n["k"] == "Mem" and n["n"] == fld and n.get("cls") == cls:
                    p_ = pm.get(id(n))
                    while p_ is not None and p_["k"] in ("Cast", "Paren", "DefArg"):
                        p_ = pm.get(id(p_))
                    if p_ is None:
                        # constructor initialiser of a helper class: the member reference is the root of an init tree
                        for i_ in f.get("inits") or []:
                            for x in walk(i_["init"]):
                                if x is n:
                                    pmi = parent_map(i_["init"])
                                    p_ = pmi.get(id(n))
                                    while p_ is not None and p_["k"] in ("Cast", "Paren", "DefArg"):
                                        p_ = pmi.get(id(p_))
                    ok, how = False, None
                    if p_ is not None:
                        if p_["k"] in ("Call", "MCall", "OpCall", "Ctor"):
                            name = p_.get("m") or (p_.get("fn") or "").split("::")[-1] or (strip(p_["callee"]).get("n") if isinstance(p_.get("callee"), dict) else "") or ""
                            if p_["k"] == "Ctor":
                                name = (p_.get("t") or "").split("::")[-1]
                            if name == "operator()" and p_.get("a"):
                                name = strip(p_["a"][0]).get("n") or name
                            ok, how = name in OKCALL, "argument of %s" % name
                        elif p_["k"] == "Bin" and p_.get("op") in ("==", "!=", "<", ">", "<=", ">=", "||", "&&"):
                            ok, how = True, "comparison"
                        elif p_["k"] in ("Decl", "Cond", "If"):
                            ok, how = True, "local / condition"
                    key = "%s@%s:%d" % (q, f["q"].split("::")[-1], n["l"])
                    chk.instance(r_d, key, sample=dict(field=q, used_in=f["q"], how=how))
                    if not ok:
                        chk.violation(r_d, key, "%s holds the restart value in output units (%s) but %s uses it as %s: nothing converts it to SI on this path" % (q, d["reason"][:80], f["q"], how or "a plain value"), f["file"], n["l"])

    # ---- C05.key
    r_k = chk.rule("C05.key", "the summary vector restored from a slot is the vector the writer stored in it (derived vectors: from the slots their definition names)", floor=40)
    DERIVED = {"LPT": ("+", {"OilPrTotal", "WatPrTotal"}), "OPTF": ("-", {"OilPrTotal", "OilPrTotalSolution"}), "GPTF": ("-", {"GasPrTotal", "GasPrTotalSolution"})}
    by_stmt = {}
    for st in readers:
        if st["keys"] and st["fn"].split("::")[-1] in ("assign_well_cumulatives", "assign_group_cumulatives", "restoreConnCumulatives"):
            by_stmt.setdefault((st["fn"], tuple(sorted(st["keys"]))), []).append(st)
    for (fn, ks), sts in sorted(by_stmt.items()):
        if len(ks) != 1:
            chk.fail_broken("C05.key: more than one vector name in one restore statement of %s: %s" % (fn, ks))
            continue
        K = ks[0]
        grp = fn.endswith("assign_group_cumulatives")
        suffix = K if grp else K[1:]
        key = "%s:%s" % (fn.split("::")[-1], K)
        if suffix in DERIVED:
            op, want = DERIVED[suffix]
            got = {s_["slot"] for s_ in sts}
            chk.instance(r_k, key, sample=dict(vector=K, derived_from=sorted(got), expected=sorted(want)))
            if got != want:
                chk.violation(r_k, key, "%s restores %s from %s; by definition it is formed from %s" % (fn, K, sorted(got), sorted(want)), sts[0]["file"], sts[0]["l"])
            continue
        if len(sts) != 1:
            chk.fail_broken("C05.key: %s restores %s from %d slots and it is not a known derived vector" % (fn, K, len(sts)))
            continue
        st = sts[0]
        ws = writer_sites(st["array"], st["slot"], st["value"])
        wkeys = set()
        for w in ws:
            wkeys |= w["keys"]
        want = {"G" + K, "F" + K} if grp else {K}
        chk.instance(r_k, key, sample=dict(vector=K, slot="%s::%s" % (st["array"], st["slot"]), writer_stores=sorted(wkeys)))
        if not want <= wkeys:
            chk.violation(r_k, key, "%s restores %s from %s[%s], but the writer stores %s there" % (fn, "/".join(sorted(want)), st["array"], st["slot"], "/".join(sorted(wkeys)) or "no summary vector"), st["file"], st["l"])

    # ---- C05.name
    r_n = chk.rule("C05.name", "the mnemonic stored in an X* slot is the one the slot's name implies", floor=60)
    PH = {"Oil": "O", "Wat": "W", "Water": "W", "Gas": "G", "Liq": "L", "Void": "V", "ResV": "V"}

    def implied(arr, slot):
        m = re.match(r"^(Hist)?(Oil|Wat|Gas|Liq|Void)(Pr|Inj)(Rate|Total)(Solution)?$", slot)
        if m:
            h, ph, d, rt, sol = m.groups()
            return [PH[ph] + ("P" if d == "Pr" else "I") + ("R" if rt == "Rate" else "T") + ("H" if h else "") + ("S" if sol else "")], d == "Pr" and rt == "Rate" and not h
        m = re.match(r"^(Oil|Water|Gas|ResV)Rate$", slot)
        if m and arr == "XConn":
            return [PH[m.group(1)] + "PR", PH[m.group(1)] + "IR"], False
        return None, False

    read_slots = {(st["array"], st["slot"]) for st in readers if load_bearing(st)}
    for arr in ("XWell", "XConn", "XGroup"):
        slots = {s_ for (a_, s_) in writer if a_ == arr}
        if arr == "XGroup":
            slots |= {xg_by_val[v] for v in xg_keys if v in xg_by_val}
        for slot in sorted(slots):
            want, neg_inj_ok = implied(arr, slot)
            if not want:
                continue
            val = None
            if arr == "XGroup":
                val = next((v for v, n in xg_by_val.items() if n == slot), None)
            for w in writer_sites(arr, slot, val):
                for k in sorted(w["keys"]):
                    key = "%s::%s<-%s" % (arr, slot, k)
                    ok = k[1:] in want or (neg_inj_ok and re.match(r"^[OWGV]IR$|^[OWG]VIR$", k[1:]) and (k[1:][0] == want[0][0] or want[0][0] == "V"))
                    chk.instance(r_n, key, sample=dict(slot="%s::%s" % (arr, slot), stored=k, implied=want))
                    if not ok:
                        msg = "the writer stores %s in %s[%s], whose name implies %s" % (k, arr, slot, "/".join(k[0] + x for x in want))
                        if (arr, slot) in read_slots:
                            chk.violation(r_n, key, msg + "; the reader interprets the slot by its name", w["file"], w["l"])
                        else:
                            chk.info(r_n, msg + " (no reader of this slot is load-bearing: no effect on a restarted run)")

    # ---- C05.record: segment records are keyed by segment number on both sides
    r_rec = chk.rule("C05.record", "ISEG/RSEG records are placed and fetched at (segment number - 1): every writer offset and every reader record index derives from segmentNumber() - 1", floor=60)
    pos_slots = {(d["array"], d["slot"]): d for d in core.load_table("c05_positional.json")["positional"]}
    msw_fns = [f for f in fx.fns if f.get("body") and f["file"].endswith("AggregateMSWData.cpp")]
    lr_fns = [f for f in fx.fns if f.get("body") and f["file"].endswith("LoadRestart.cpp")]
    for f in msw_fns:
        for n in walk_fn(f):
            if n["k"] == "Bin" and n.get("asg"):
                sub_ = subscript(strip(n["c"][0]))
                s_ = slot_of(sub_[1]) if sub_ else None
                if not s_ or s_[0] not in ("ISeg", "RSeg") or s_[3]:
                    continue
                if (s_[0], s_[1]) in pos_slots:
                    continue
                pv = provenance(sub_[1], f, {"*": msw_fns})
                key = "w:%s::%s@%d" % (s_[0], s_[1], n["l"])
                ok = "segmentNumber" in pv and "-1" in pv
                chk.instance(r_rec, key, sample=dict(side="writer", slot="%s::%s" % (s_[0], s_[1]), index=show(sub_[1])[:60], derives_from=sorted(pv)))
                if not ok:
                    chk.violation(r_rec, key, "%s writes %s[%s] at offset `%s`, which does not derive from segmentNumber() - 1 (%s): the reader fetches a segment's record by its number" % (f["q"], s_[0], s_[1], show(sub_[1])[:60], ", ".join(sorted(pv)) or "nothing"), f["file"], n["l"])
    n_r = 0
    for f in lr_fns:
        for n in walk_fn(f):
            if n["k"] == "MCall" and n.get("m") in ("rseg", "iseg") and (n.get("cls") or "").endswith("SegmentVectors") and len(n.get("a", [])) == 2:
                pv = provenance(n["a"][1], f, {"*": lr_fns})
                key = "r:%s@%s:%d" % (n["m"], f["q"].split("::")[-1], n["l"])
                n_r += 1
                chk.instance(r_rec, key, sample=dict(side="reader", call=show(n)[:80], derives_from=sorted(pv)))
                if not ("segmentNumber" in pv and "-1" in pv):
                    chk.violation(r_rec, key, "%s fetches the %s record `%s`, which does not derive from segmentNumber() - 1 (%s): the writer stores a segment's record at its segment number, so segments whose storage order differs from their numbering get another segment's values" % (f["q"], n["m"].upper(), show(n["a"][1])[:40], ", ".join(sorted(pv)) or "nothing"), f["file"], n["l"])
    if n_r == 0:
        raise core.AnalysisBroken("no SegmentVectors::rseg/iseg call found in LoadRestart.cpp")

    # ---- C05.arrays: array names and element types requested by the readers are the ones RestartIO::save emits
    r_a = chk.rule("C05.arrays", "every restart array a reader asks for by name is written by RestartIO::save under that name and with that element type", floor=55)
    import glob as _glob
    rroot = chk.root if chk.root != core.REPO else core.REPO
    rst_units = sorted(u for u in core.library_units() if u.startswith(RST)) + [OUT + "LoadRestart.cpp", OUT + "RestartIO.cpp"]
    ax = chk.facts(rst_units, files_re="^/repo/opm/(io/eclipse/rst|output/eclipse)/")

    def elem(t):
        t = t.replace("const ", "")
        m = re.search(r"vector<\s*([^<>]+(?:<[^<>]*>)?)\s*>", t)
        e = (m.group(1) if m else t).strip(" &")
        if "PaddedOutputString" in e or "basic_string" in e or e.endswith("string"):
            return "string"
        return e
    written = {}
    for f in ax.fns:
        if not f["file"].endswith("RestartIO.cpp"):
            continue
        for n in walk_fn(f):
            if n["k"] == "MCall" and n.get("m") == "write" and (n.get("cls") or "").endswith("OutputStream::Restart") and len(n.get("a", [])) == 2:
                names = const_strings(n["a"][0], {}, {})
                if names and n.get("pt"):
                    for nm in names:
                        written.setdefault(nm, set()).add(elem(n["pt"][1]))
    if len(written) < 40:
        raise core.AnalysisBroken("only %d array names found in RestartIO.cpp write calls" % len(written))
    chk.extra["arrays_written"] = len(written)
    optional_in = {d["array"]: d for d in core.load_table("c05_optional_arrays.json")["foreign"]}
    for f in ax.fns:
        if f["file"].endswith("RestartIO.cpp"):
            continue
        for n in walk_fn(f):
            if n["k"] == "MCall" and n.get("m") in ("getKeyword", "hasKeyword") and (n.get("cls") or "").endswith("RestartFileView") and n.get("a") and n.get("targs"):
                names = const_strings(n["a"][0], {}, {})
                if not names:
                    continue
                T = elem(n["targs"][0])
                for nm in sorted(names):
                    key = "%s<%s>@%s:%d" % (nm, T, f["q"].split("::")[-1], n["l"])
                    chk.instance(r_a, key, sample=dict(array=nm, requested=T, written=sorted(written.get(nm, ())), reader=f["q"]))
                    if nm not in written:
                        if nm in optional_in:
                            continue
                        chk.violation(r_a, "%s:missing" % nm, "%s asks the restart file for array %s, which RestartIO::save never writes under that name" % (f["q"], nm), f["file"], n["l"])
                    elif T not in written[nm]:
                        chk.violation(r_a, "%s:type" % nm, "%s asks for %s as %s, but RestartIO::save writes it as %s: the typed look-up does not find it" % (f["q"], nm, T, "/".join(sorted(written[nm]))), f["file"], n["l"])

    # ---- C05.enum: integer encoders and decoders of control modes / states are inverse tables
    r_e = chk.rule("C05.enum", "decoding the integer an encoder wrote gives back an enumerator that encodes to the same integer (control modes, guide-rate targets, status, direction)", floor=30)
    PAIRS = [
        ("Opm::Well::eclipseControlMode", "ProducerCMode", "producer_cmode_from_int"),
        ("Opm::Well::eclipseControlMode", "InjectorCMode", "injector_cmode_from_int"),
        ("Opm::Group::ProductionCMode2Int", None, "Opm::Group::ProductionCModeFromInt"),
        ("Opm::Group::InjectionCMode2Int", None, "Opm::Group::InjectionCModeFromInt"),
        ("Opm::Group::GuideRateInjTargetToInt", None, "Opm::Group::GuideRateInjTargetFromInt"),
        ("wellStatus", None, "status_from_int"),
        ("compOrder", None, "order_from_int"),
    ]

    def find_fn(name, ptype=None):
        c = [f for f in lib.fns if f.get("body") and (f["q"] == name or f["q"].endswith("::" + name)) and (ptype is None or any(ptype in p_["t"] for p_ in f.get("params", [])[:1]))]
        if ptype is not None:
            c = [f for f in c if len(f.get("params", [])) <= 2 and "Well &" not in f["params"][0]["t"]]
        return c[0] if c else None
    for enc_q, ptype, dec_q in PAIRS:
        ef, df = find_fn(enc_q, ptype), find_fn(dec_q)
        if ef is None or df is None:
            raise core.AnalysisBroken("encoder/decoder pair %s / %s not found" % (enc_q, dec_q))
        et, dt = switch_table(ef), switch_table(df)
        if et is None or dt is None:
            raise core.AnalysisBroken("%s or %s is no longer a switch" % (enc_q, dec_q))
        enc, enc_def = et
        dec, dec_def = dt
        inv = {}
        for lab, vals in enc.items():
            for v in vals:
                if v[1] is not None:
                    inv.setdefault(v[1], set()).add(lab[0].split("::")[-1])
        dec_by_int = {lab[1]: {v[0].split("::")[-1] for v in vals} for lab, vals in dec.items() if lab[1] is not None}
        for code, labs in sorted(inv.items()):
            key = "%s:%s" % (dec_q.split("::")[-1], code)
            got = dec_by_int.get(code)
            chk.instance(r_e, key, sample=dict(encoder=ef["q"], decoder=df["q"], code=code, encoded_from=sorted(labs), decodes_to=sorted(got) if got else None))
            if got is None:
                unknown_only = all(v[0].endswith("WMCtlUnk") for lab, vals in enc.items() for v in vals if v[1] == code)
                if not unknown_only:
                    chk.info(r_e, "%s writes code %s for %s, which %s does not decode (falls to %s)" % (ef["q"], code, "/".join(sorted(labs)), df["q"], "/".join(sorted(v[0] for v in dec_def)) or "no default"))
                continue
            if "<throw>" in got:
                continue
            if not got <= labs or labs - got:
                chk.violation(r_e, key + "->" + "/".join(sorted(got)) + "(from:" + "/".join(sorted(labs)) + ")", "%s writes %s for %s, but %s turns %s into %s: the control mode / target changes across a restart" % (ef["q"], code, "/".join(sorted(labs)), df["q"], code, "/".join(sorted(got))), df["file"], df["l"])
    # connection direction and state are written as plain integers
    dir_enum = chk.facts(["/repo/opm/input/eclipse/Schedule/Well/Connection.cpp"], files_re="Schedule/Well/Connection.hpp", no_body=True).enums.get("Opm::Connection::Direction")
    conn_dec = [f for f in fx.fns if f["file"].endswith("rst/connection.cpp") and f["n"] == "from_int" and f.get("body")]
    for f in conn_dec:
        t = switch_table(f)
        if t is None or "Direction" not in f.get("ret", ""):
            continue
        if not dir_enum:
            raise core.AnalysisBroken("enum Opm::Connection::Direction not found")
        vals = {it["n"]: it["v"] for it in dir_enum["items"]}
        for lab, res in t[0].items():
            names = {v[0].split("::")[-1] for v in res}
            key = "ConnDir:%s" % lab[1]
            chk.instance(r_e, key, sample=dict(code=lab[1], decodes_to=sorted(names), enum_values={n_: vals.get(n_) for n_ in names}))
            for n_ in names:
                if vals.get(n_) != lab[1]:
                    chk.violation(r_e, key, "ICON[ConnDir] is written as static_cast<int>(direction) (Direction::%s = %s) but from_int<Direction> decodes %s as %s" % (n_, vals.get(n_), lab[1], n_), f["file"], f["l"])

    # ---- C05.act: the ACTIONX run record (IACT / SACT are addressed with integer literals on both sides)
    r_act = chk.rule("C05.act", "IACT/SACT: the item the reader takes for max_run / run_count / min_wait / last run is the item the writer filled from ActionX::max_run / State::run_count (+1, read back -1) / ActionX::min_wait / State::run_time, with the same measure", floor=4)
    ax2 = chk.facts([OUT + "AggregateActionxData.cpp", RST + "state.cpp"], files_re="^/repo/opm/(output/eclipse/AggregateActionxData|io/eclipse/rst/state)")
    wact = {}
    for f in ax2.fns:
        if not f["file"].endswith("AggregateActionxData.cpp") or not f.get("body"):
            continue
        for n in walk_fn(f):
            if n["k"] == "Bin" and n.get("asg") and n["op"] == "=":
                sub_ = subscript(strip(n["c"][0]))
                if not sub_ or strip(sub_[1])["k"] != "Int":
                    continue
                arr = (strip(sub_[0]).get("n") or "").lower()
                if arr not in ("iact", "sact"):
                    continue
                rhs = n["c"][1]
                accs = sorted({meth(x)[0] for x in walk(rhs) if meth(x)[0] in ("max_run", "run_count", "min_wait", "run_time")})
                plus = [strip(x["c"][1])["v"] for x in walk(rhs) if x["k"] == "Bin" and x.get("op") == "+" and strip(x["c"][1])["k"] == "Int"]
                ms = [("1/" if (x.get("m") or "") == "to_si" else "") + measures_in(x["a"][0])[0] for x in walk(rhs) if x["k"] in ("MCall", "Call") and (x.get("m") or "") in ("from_si", "to_si") and x.get("a") and measures_in(x["a"][0])]
                wact[(arr, strip(sub_[1])["v"])] = dict(accs=accs, plus=sum(plus), measures=ms, l=n["l"], file=f["file"], text=show(rhs)[:80])
    WANT = {"max_run": ["max_run"], "run_count": ["run_count"], "min_wait": ["min_wait"], "last_run_elapsed": ["run_count", "run_time"]}
    found = 0
    for f in ax2.fns:
        if not f["file"].endswith("rst/state.cpp") or not f.get("body"):
            continue
        for n in walk_fn(f):
            if n["k"] != "Decl":
                continue
            for v in n["vars"]:
                if v["n"] not in WANT or v.get("init") is None:
                    continue
                reads = []
                for x in walk(v["init"]):
                    sub_ = subscript(x)
                    if sub_ and (strip(sub_[0]).get("n") or "").lower() in ("iact", "sact"):
                        lit = [strip(y["c"][1])["v"] for y in walk(sub_[1]) if y["k"] == "Bin" and y.get("op") == "+" and strip(y["c"][1])["k"] == "Int"]
                        if strip(sub_[1])["k"] == "Int":
                            lit = [strip(sub_[1])["v"]]
                        reads.append(((strip(sub_[0]).get("n") or "").lower(), lit[-1] if lit else None))
                if len(reads) != 1 or reads[0][1] is None:
                    continue
                found += 1
                arr, ix = reads[0]
                minus = sum(strip(y["c"][1])["v"] for y in walk(v["init"]) if y["k"] == "Bin" and y.get("op") == "-" and strip(y["c"][1])["k"] == "Int")
                rms = [("1/" if (x.get("m") or "") == "from_si" else "") + measures_in(x["a"][0])[0] for x in walk(v["init"]) if x["k"] in ("MCall", "Call") and (x.get("m") or "") in ("from_si", "to_si") and x.get("a") and measures_in(x["a"][0])]
                w = wact.get((arr, ix))
                key = "%s<-%s[%d]" % (v["n"], arr.upper(), ix)
                chk.instance(r_act, key, sample=dict(reader=v["n"], item="%s[%d]" % (arr.upper(), ix), reader_offset=-minus, reader_measure=rms, writer=w and dict(source=w["accs"], offset=w["plus"], measure=w["measures"], text=w["text"])))
                if w is None:
                    chk.violation(r_act, key, "RstState::add_actions takes %s from %s[%d], which AggregateActionxData never fills" % (v["n"], arr.upper(), ix), f["file"], n["l"])
                    continue
                if w["accs"] != WANT[v["n"]]:
                    chk.violation(r_act, key + ":source", "%s is read from %s[%d], but the writer fills that item from %s (`%s`), not from %s" % (v["n"], arr.upper(), ix, "/".join(w["accs"]) or "a constant", w["text"], "/".join(WANT[v["n"]])), w["file"], w["l"])
                if w["plus"] != minus:
                    chk.violation(r_act, key + ":offset", "%s[%d] is written with +%d and read back with -%d: the run count changes across a restart" % (arr.upper(), ix, w["plus"], minus), f["file"], n["l"])
                if not mset_equiv(w["measures"], rms):
                    chk.violation(r_act, key + ":unit", "%s[%d] is written with measure %s and read with %s" % (arr.upper(), ix, w["measures"] or "none", rms or "none"), f["file"], n["l"])
    # the time of the last run travels as the time elapsed since the start of the run
    w4 = wact.get(("sact", 4))
    if w4 is not None:
        wsub = None
        for f in ax2.fns:
            if f["file"].endswith("AggregateActionxData.cpp") and f.get("body"):
                for n in walk_fn(f):
                    if n["k"] == "Bin" and n.get("op") == "-" and not n.get("asg") and n["l"] == w4["l"] and any(meth(x)[0] == "run_time" for x in walk(n["c"][0])):
                        wsub = show(strip(n["c"][1]))
        radv = None
        for f in ax2.fns:
            if f["file"].endswith("rst/state.cpp") and f.get("body"):
                for n in walk_fn(f):
                    if n["k"] == "Call" and (n.get("fn") or "").endswith("TimeService::advance") and len(n.get("a", [])) == 2 and any(x["k"] == "Ref" and x["n"] == "last_run_elapsed" for x in walk(n["a"][1])):
                        radv = show(strip(n["a"][0]))
        chk.instance(r_act, "last_run:origin", sample=dict(writer_subtracts=wsub, reader_advances_from=radv))
        if wsub is None or "start" not in wsub:
            chk.violation(r_act, "last_run:origin", "SACT[4] must hold run_time - <start of the run> (the reader adds the start time back); the writer stores `%s`" % w4["text"], w4["file"], w4["l"])
        elif radv is None or "start_time" not in radv:
            chk.violation(r_act, "last_run:origin", "RstState::add_actions no longer rebuilds the last run time as advance(start_time, SACT[4]) (found %s)" % radv, RST + "state.cpp", None)
    if found < 4:
        raise core.AnalysisBroken("RstState::add_actions: only %d of max_run/run_count/min_wait/last_run_elapsed found" % found)

    # ---- C05.phase: the gas and the water half of the group reconstruction are images of each other
    r_ph = chk.rule("C05.phase", "in Group.cpp the code that rebuilds gas injection from a restart record and the code that rebuilds water injection are the same text under gas<->water (every field read for one phase has its counterpart read for the other)", floor=3)
    gx = chk.facts(["/repo/opm/input/eclipse/Schedule/Group/Group.cpp"], files_re="^/repo/opm/input/eclipse/Schedule/Group/Group.cpp$")

    def field_map(f):
        """what is set -> RstGroup fields it is set from (order of statements and local names do not matter)"""
        out = {}
        for i_ in f.get("inits") or []:
            if not i_.get("implicit"):
                fl = sorted({x["n"] for x in walk(i_["init"]) if x["k"] == "Mem" and (x.get("cls") or "").endswith("RstGroup")})
                out[i_.get("member")] = fl
        if f.get("body"):
            for st_ in all_statements(f["body"]):
                fl = sorted({x["n"] for x in walk(st_) if x["k"] == "Mem" and (x.get("cls") or "").endswith("RstGroup")})
                if not fl:
                    continue
                tg = [x["n"] for x in walk(st_) if x["k"] == "Mem" and strip(x.get("b") or {}).get("k") == "Ref" and strip(x["b"])["n"] == "injection"]
                out.setdefault(tg[0] if tg else "<other>", [])
                out[tg[0] if tg else "<other>"] = sorted(set(out[tg[0] if tg else "<other>"]) | set(fl))
        return out

    def to_water(t):
        for a_, b_ in (("ginj_", "winj_"), ("_gas_", "_water_"), ("gas_", "water_")):
            t = t.replace(a_, b_)
        return t
    gas_fns = [f for f in gx.fns if "GasInjectionLimits" in (f.get("sig") or "") + (f.get("cls") or "") and (f.get("body") or f.get("inits"))]
    pairs_found = 0
    for g in gas_fns:
        want_cls = (g.get("cls") or "").replace("GasInjectionLimits", "WaterInjectionLimits")
        want_sig = (g.get("sig") or "").replace("GasInjectionLimits", "WaterInjectionLimits")
        sib = [f for f in gx.fns if f["n"].replace("GasInjectionLimits", "WaterInjectionLimits") == g["n"].replace("GasInjectionLimits", "WaterInjectionLimits") and f is not g and (f.get("cls") or "") == want_cls and (f.get("sig") or "") == want_sig]
        if not sib:
            continue
        pairs_found += 1
        ga, wa = field_map(g), field_map(sib[0])
        a_txt = {k_: [to_water(x) for x in v_] for k_, v_ in ga.items()}
        b_txt = wa
        key = "%s ~ %s" % (g["q"].split("::")[-1] + "(" + ("Gas" if "Gas" in (g.get("sig") or "") + (g.get("cls") or "") else "") + ")", "water")
        chk.instance(r_ph, "%s@%d" % (g["n"], g["l"]), sample=dict(gas=g["q"], gas_line=g["l"], water_line=sib[0]["l"], identical_under_renaming=a_txt == b_txt))
        if a_txt != b_txt:
            diff = sorted(k_ for k_ in set(a_txt) | set(b_txt) if a_txt.get(k_) != b_txt.get(k_))
            chk.violation(r_ph, "%s@%d" % (g["n"], g["l"]), "%s (line %d) and its water counterpart (line %d) do not read corresponding restart fields: %s" % (g["q"], g["l"], sib[0]["l"], "; ".join("`%s` is set from %s on the gas side and from %s on the water side" % (k_, ga.get(k_), wa.get(k_)) for k_ in diff)), sib[0]["file"], sib[0]["l"])
    if pairs_found < 3:
        raise core.AnalysisBroken("Group.cpp: fewer than three gas/water sibling pairs found (%d)" % pairs_found)

    for k_ in deferred:
        if k_ not in used_def:
            chk.info(r_u, "tables/c05_deferred.json: entry %s::%s not needed on this tree" % k_)
    for k_ in reader_only:
        if k_ not in used_ro:
            chk.info(r_s, "tables/c05_reader_only.json: entry %s::%s not needed on this tree" % k_)
    # ---- C05.altcond: a conversion that writer and reader both apply conditionally is applied under the same condition
    r_ac = chk.rule("C05.altcond", "where the writer converts a slot only under a condition (c ? from_si(m, x) : x) and the reader converts it back only under a condition, the two conditions are the same predicate once the writer's accessors are replaced by the slots they are stored in and the reader's subscripts by those slots (a positive unit factor keeps signs and zero): otherwise a dimensionless ratio is scaled like a length, or a length taken over unconverted, in every unit system whose factor is not 1", floor=1)

    def slot_ref(e):
        """'ISeg::X' for iseg[VI::ISeg::X] / rSeg[base + Ix::X] style subscripts"""
        sb = subscript(e) if e.get("k") in ("Idx", "OpCall") else None
        if not sb:
            return None
        en = [x for x in walk(sb[1]) if x["k"] == "Ref" and x.get("d") == "Enum" and (x.get("q") or "").startswith(VI)]
        if len(en) != 1:
            return None
        q = en[0]["q"][len(VI):].split("::")
        return "%s::%s" % (q[0], q[-1])

    def norm_cond(e, leafmap, env, depth=0):
        e = strip(e)
        k = e.get("k")
        if k == "Bin" and e.get("op") in ("||", "&&", "==", "!=", "<", ">", "<=", ">="):
            return "(%s %s %s)" % (norm_cond(e["c"][0], leafmap, env, depth), e["op"], norm_cond(e["c"][1], leafmap, env, depth))
        if k == "Un" and e.get("op") in ("!", "-"):
            return "%s%s" % (e["op"], norm_cond(e["c"][0], leafmap, env, depth))
        if k in ("Int", "Flt"):
            v = float(e["v"])
            return str(int(v)) if v == int(v) else repr(v)
        sr = slot_ref(e)
        if sr:
            return sr
        if k == "Ref" and e.get("n") in env and depth < 4:
            return norm_cond(env[e["n"]], leafmap, env, depth + 1)
        m_, o_ = meth(e)
        if m_ and m_ in leafmap:
            return leafmap[m_]
        return "?" + show(e)[:40]
    # reader side: helper functions with a conditional to_si
    n_ac = 0
    for h in fx.fns:
        if not h.get("body") or not h["file"].endswith(("rst/segment.cpp", "rst/well.cpp", "rst/connection.cpp", "rst/group.cpp")):
            continue
        conv = [(n, c) for n in walk(h["body"]) if n["k"] == "If" for c in walk(n["then"]) if c["k"] == "Return" and any((x.get("m") or "") == "to_si" for x in walk(c.get("e") or {}))]
        plain = [c for c in stmt_list(h["body"]) if c["k"] == "Return" and not any((x.get("m") or "") == "to_si" for x in walk(c.get("e") or {}))]
        if len(conv) != 1 or not plain:
            continue
        iff, ret = conv[0]
        envr = {v["n"]: v["init"] for n in walk(h["body"]) if n["k"] == "Decl" for v in n["vars"] if isinstance(v.get("init"), dict)}
        conv_call = [x for x in walk(ret["e"]) if (x.get("m") or "") == "to_si"][0]
        src = conv_call["a"][1] if len(conv_call.get("a") or []) > 1 else None
        src = envr.get(strip(src).get("n"), src) if src is not None and strip(src).get("k") == "Ref" else src
        slot = slot_ref(strip(src)) if src is not None else None
        if not slot:
            continue
        cr = norm_cond(iff["cond"], {}, envr)
        # writer side: the assignment of that slot with a conditional from_si
        arr, item = slot.split("::")
        wsites = []
        for g in fx.fns:
            if not g.get("body") or not g["file"].endswith(("AggregateMSWData.cpp", "AggregateWellData.cpp", "AggregateConnectionData.cpp", "AggregateGroupData.cpp")):
                continue
            envw = {v["n"]: v["init"] for n in walk(g["body"]) if n["k"] == "Decl" for v in n["vars"] if isinstance(v.get("init"), dict)}
            acc2slot = {}
            for n in walk(g["body"]):
                if n["k"] == "Bin" and n.get("asg") and n.get("op") == "=" and slot_ref(strip(n["c"][0])):
                    for x in walk(n["c"][1]):
                        m_, o_ = meth(x)
                        if m_ and o_ is not None and strip(o_).get("k") == "Ref" and not x.get("a"):
                            acc2slot.setdefault(m_, slot_ref(strip(n["c"][0])))
            for n in walk(g["body"]):
                if n["k"] == "Bin" and n.get("asg") and n.get("op") == "=" and slot_ref(strip(n["c"][0])) == slot:
                    rhs = strip(n["c"][1])
                    if rhs.get("k") == "Cond" and any((x.get("m") or "") == "from_si" for x in walk(rhs["c"][1])) and not any((x.get("m") or "") == "from_si" for x in walk(rhs["c"][2])):
                        wsites.append((g, n, rhs["c"][0], acc2slot, envw))
        for g, n, cw_e, acc2slot, envw in wsites:
            # the accessor map of sibling writer functions of the same file (ISeg part is written by another function)
            full = dict(acc2slot)
            for g2 in fx.fns:
                if g2.get("body") and g2["file"] == g["file"]:
                    for n2 in walk(g2["body"]):
                        if n2["k"] == "Bin" and n2.get("asg") and n2.get("op") == "=" and slot_ref(strip(n2["c"][0])):
                            for x in walk(n2["c"][1]):
                                m_, o_ = meth(x)
                                if m_ and o_ is not None and strip(o_).get("k") == "Ref" and not x.get("a"):
                                    full.setdefault(m_, slot_ref(strip(n2["c"][0])))
            cw = norm_cond(cw_e, full, envw)
            n_ac += 1
            key = "%s<-%s@%s" % (slot, g["n"], n_ac)
            chk.instance(r_ac, key, sample=dict(slot=slot, reader=h["q"], reader_condition=cr, writer=g["q"], writer_condition=cw))
            if "?" in cr or "?" in cw:
                raise core.AnalysisBroken("C05.altcond: condition of the conditional conversion of %s not expressible over slots (reader %s / writer %s)" % (slot, cr, cw))
            if cr != cw:
                chk.violation(r_ac, key, "%s: %s converts the stored value with to_si only when %s, but %s wrote it with from_si only when %s: for the records where the two predicates differ the restarted schedule holds a value scaled by the unit factor (or its inverse)" % (slot, h["q"], cr, g["q"], cw), h["file"], iff["l"])

    # ---- C05.cache: lazily built output caches are dropped when what they were built from changes
    from verif import lazycache
    r_lc = chk.rule("C05.cache", "a mutable member that a const accessor fills when it is empty (UDQActive::output_data behind iuad(), SummaryState::well_names, UDQDefine::string_data, ...) is emptied on every path from a statement that modifies one of the members it is built from to the return of that function: otherwise the restart file is written from records of a schedule that no longer exists (IUAD out of step with IUAP)", floor=6)
    waived = core.load_table("c05_cache_waived.json")
    SKIP = {"Opm::EclipseGrid": "constructed by private init functions before any query; its cache is governed by C13.maps"}
    n_c = 0
    cx = chk.facts(["opm/input/eclipse/Schedule/UDQ/UDQActive.cpp", "opm/input/eclipse/Schedule/UDQ/UDQDefine.cpp", "opm/input/eclipse/Schedule/SummaryState.cpp",
                    "opm/io/eclipse/rst/udq.cpp", "opm/output/eclipse/UDQDims.cpp", "opm/input/eclipse/Schedule/UDQ/UDQConfig.cpp"], files_re="^/repo/opm/")
    for q, M, srcs, f, node, src, bad in lazycache.check(cx):
        if q in SKIP or "(anonymous namespace)" in q:
            continue
        n_c += 1
        key = "%s::%s<-%s" % (q, M, f["n"])
        chk.instance(r_lc, key + "@" + str(n_c), sample=dict(cls=q, cache=M, built_from=sorted(srcs), function=f["q"], modifies=src, statement=show(node)[:70], emptied_on_every_path=not bad))
        if bad:
            if key in waived:
                chk.info(r_lc, "%s modifies %s without emptying the cache %s - latent: %s" % (f["q"], src, M, waived[key]))
                continue
            exits = ", ".join("line %s" % b[2] if isinstance(b, tuple) else b for b in bad)
            chk.violation(r_lc, key, "%s modifies %s (`%s`) and can return (%s) without emptying %s, which %s::%s() only rebuilds when it is empty: the accessor keeps handing out records built from the old %s" % (f["q"], src, show(node)[:60], exits, M, q.split("::")[-1], "iuad" if M == "output_data" else "accessor", src), f["file"], node["l"])

    # ---- C05.wellchain: a well target goes out of and back into the SAME property
    r_wc = chk.rule("C05.wellchain", "round-trip closure of the well control targets, every link taken from the code: the property P of WellProductionProperties / WellInjectionProperties that Well's restart constructor fills from RstWell field F is a property whose control value (controls(): controls.c = eval(this->P)) the writer stores (sWell[S] = f(pc.c) / f(ic.c)) in the very slot S that RstWell reads F from (F(swel[S])) - OilRate -> oil_rate -> OilRateTarget -> orat_target -> OilRate, and so on for water, gas, liquid, reservoir-volume rate, ALQ, THP and BHP targets and the injection rates", floor=10)
    wc = chk.facts([OUT + "AggregateWellData.cpp", RST + "well.cpp", "/repo/opm/input/eclipse/Schedule/Well/Well.cpp", "/repo/opm/input/eclipse/Schedule/Well/WellProductionProperties.cpp", "/repo/opm/input/eclipse/Schedule/Well/WellInjectionProperties.cpp"])
    W = {}
    for f in wc.fns:
        if not f.get("body") or not f["file"].endswith("AggregateWellData.cpp"):
            continue
        kinds = {}
        for p_ in f["params"]:
            if "ProductionControls" in (p_.get("t") or ""):
                kinds[p_["n"]] = "prod"
            if "InjectionControls" in (p_.get("t") or ""):
                kinds[p_["n"]] = "inj"
        for n in walk(f["body"]):
            if n["k"] == "Decl":
                for v in n["vars"]:
                    if "ProductionControls" in (v.get("t") or ""):
                        kinds[v["n"]] = "prod"
                    if "InjectionControls" in (v.get("t") or ""):
                        kinds[v["n"]] = "inj"
        if not kinds:
            continue
        for n in walk(f["body"]):
            if n["k"] in ("Bin", "OpCall") and (n.get("asg") or n.get("op") == "=") and n.get("op") == "=":
                l_, r_ = (n.get("c") or n.get("a"))
                lt = show(strip(l_))
                m = re.fullmatch(r"sWell\[(?:[\w:]*::)?(\w+)\]", lt)
                if not m:
                    continue
                for x in walk(r_):
                    if x["k"] == "Mem" and isinstance(x.get("b"), dict) and strip(x["b"]).get("k") == "Ref" and strip(x["b"])["n"] in kinds:
                        W.setdefault(m.group(1), set()).add((kinds[strip(x["b"])["n"]], x["n"]))
    # one level through helper parameters: sWell[S] = f(param) in a helper, called with pc.c / ic.c
    via_param = []
    for f in wc.fns:
        if not f.get("body") or not f["file"].endswith("AggregateWellData.cpp"):
            continue
        pnames = [p_.get("n") for p_ in f["params"]]
        for n in walk(f["body"]):
            if n["k"] in ("Bin", "OpCall") and n.get("op") == "=" and (n.get("asg") or n["k"] == "OpCall"):
                l_, r_ = (n.get("c") or n.get("a"))
                m = re.fullmatch(r"sWell\[(?:[\w:]*::)?(\w+)\]", show(strip(l_)))
                if not m:
                    continue
                for x in walk(r_):
                    if x["k"] == "Ref" and x.get("d") == "Parm" and x.get("n") in pnames and not any(t in (f["params"][pnames.index(x["n"])].get("t") or "") for t in ("Controls", "&&", "SWProp", "UnitSystem", "SummaryState")):
                        via_param.append((f["n"], pnames.index(x["n"]), m.group(1)))
    for f in wc.fns:
        if not f.get("body") or not f["file"].endswith("AggregateWellData.cpp"):
            continue
        kinds = {}
        for p_ in f["params"]:
            if "ProductionControls" in (p_.get("t") or ""):
                kinds[p_["n"]] = "prod"
            if "InjectionControls" in (p_.get("t") or ""):
                kinds[p_["n"]] = "inj"
        for n in walk(f["body"]):
            if n["k"] == "Decl":
                for v in n["vars"]:
                    if "ProductionControls" in (v.get("t") or ""):
                        kinds[v["n"]] = "prod"
                    if "InjectionControls" in (v.get("t") or ""):
                        kinds[v["n"]] = "inj"
        if not kinds:
            continue
        for n in walk(f["body"]):
            if n["k"] == "Call":
                cn = (n.get("fn") or (n.get("callee") or {}).get("n") or "").split("::")[-1].split("<")[0]
                for hn, pi, S in via_param:
                    if cn == hn and pi < len(n.get("a") or []):
                        for x in walk(n["a"][pi]):
                            if x["k"] == "Mem" and isinstance(x.get("b"), dict) and strip(x["b"]).get("k") == "Ref" and strip(x["b"])["n"] in kinds:
                                W.setdefault(S, set()).add((kinds[strip(x["b"])["n"]], x["n"]))
    Cmap = {"prod": {}, "inj": {}}
    for f in wc.fns:
        if f["n"] != "controls" or not f.get("body"):
            continue
        kind = "prod" if "WellProductionProperties" in f["q"] else "inj" if "WellInjectionProperties" in f["q"] else None
        if kind is None:
            continue
        for n in walk(f["body"]):
            if n["k"] in ("Bin", "OpCall") and n.get("op") == "=" and (n.get("asg") or n["k"] == "OpCall"):
                l_, r_ = (n.get("c") or n.get("a"))
                l_ = strip(l_)
                if l_.get("k") == "Mem" and strip(l_.get("b") or {}).get("k") == "Ref":
                    mem = [x["n"] for x in walk(r_) if x["k"] == "Mem" and strip(x.get("b") or {"k": "This"}).get("k") == "This" and "UDAValue" in (x.get("t") or "")]
                    if len(mem) == 1:
                        Cmap[kind].setdefault(l_["n"], set()).add(mem[0])
    Rmap = {}
    for f in wc.fns:
        if f["n"] == "RstWell" and f["file"].endswith("rst/well.cpp") and f.get("inits"):
            for i_ in f["inits"]:
                sl = [x for x in walk(i_["init"]) if x["k"] in ("Idx", "OpCall") and show(strip((x.get("c") or x.get("a") or [{}])[0])) == "swel"]
                if len(sl) == 1:
                    ix = show(strip((sl[0].get("c") or sl[0].get("a"))[1]))
                    Rmap.setdefault(i_["member"], set()).add(ix.split("::")[-1])
    rc = [f for f in wc.fns if f["n"] == "Well" and f["file"].endswith("Well/Well.cpp") and f.get("body") and any("RstWell" in (p_.get("t") or "") for p_ in f["params"])]
    if len(rc) != 1 or len(W) < 6 or len(Cmap["prod"]) < 6 or len(Rmap) < 8:
        raise core.AnalysisBroken("C05.wellchain: links not found (restore constructors %d, writer slots %d, production controls %d, reader fields %d)" % (len(rc), len(W), len(Cmap["prod"]), len(Rmap)))
    rc = rc[0]
    rparam = [p_["n"] for p_ in rc["params"] if "RstWell" in (p_.get("t") or "")][0]
    pk = {}
    for n in walk(rc["body"]):
        if n["k"] == "Decl":
            for v in n["vars"]:
                if "WellProductionProperties" in (v.get("t") or "") + show(v.get("init")):
                    pk[v["n"]] = "prod"
                elif "WellInjectionProperties" in (v.get("t") or "") + show(v.get("init")):
                    pk[v["n"]] = "inj"
    n_wc = 0
    for n in walk(rc["body"]):
        tgt = src = None
        if n["k"] in ("Call", "MCall", "OpCall") and len(n.get("a") or []) == 2 and strip(n["a"][0]).get("k") == "Mem" and n["k"] != "OpCall":
            tgt, src = strip(n["a"][0]), n["a"][1]
        elif n["k"] == "OpCall" and n.get("op") == "()" and len(n.get("a") or []) == 3 and strip(n["a"][1]).get("k") == "Mem":
            tgt, src = strip(n["a"][1]), n["a"][2]
        elif n["k"] == "MCall" and n.get("m") == "update" and isinstance(n.get("obj"), dict) and strip(n["obj"]).get("k") == "Mem" and len(n.get("a") or []) == 1:
            tgt, src = strip(n["obj"]), n["a"][0]
        if tgt is None:
            continue
        base = strip(tgt.get("b") or {})
        while base.get("k") in ("OpCall", "Un") and (base.get("a") or base.get("c")):
            base = strip((base.get("a") or base.get("c"))[0])
        if base.get("k") != "Ref" or base.get("n") not in pk:
            continue
        flds = [x["n"] for x in walk(src) if x["k"] == "Mem" and strip(x.get("b") or {}).get("k") == "Ref" and strip(x["b"])["n"] == rparam]
        if len(flds) != 1 or flds[0] not in Rmap:
            continue
        kind, P, F = pk[base["n"]], tgt["n"], flds[0]
        slots = Rmap[F]
        cands = {m for S in slots for (k_, c_) in W.get(S, ()) if k_ == kind for m in Cmap[kind].get(c_, ())}
        n_wc += 1
        key = "%s:%s<-%s" % (kind, P, F)
        chk.instance(r_wc, key, sample=dict(restored_property=P, from_field=F, field_read_from_slot=sorted(slots), slot_written_from=sorted("%s.%s" % kc for S in slots for kc in W.get(S, ())), those_controls_come_from=sorted(cands)))
        if P not in cands:
            chk.violation(r_wc, key, "Well's restart constructor fills %s::%s from RstWell::%s, which is read from slot %s; the writer stores %s there, i.e. the propert%s %s: after a restart %s holds the value another target had in the original run" % ("WellProductionProperties" if kind == "prod" else "WellInjectionProperties", P, F, sorted(slots), sorted("%s.%s" % kc for S in slots for kc in W.get(S, ()) if kc[0] == kind) or "nothing of this kind", "y" if len(cands) == 1 else "ies", sorted(cands) or "(none)", P), rc["file"], n["l"])
    # the other direction, per writer site: a slot that is restored into property P receives, where a single control is
    # stored, a control that comes from P
    rest_by_slot = {}
    for n in walk(rc["body"]):
        tgt = src = None
        if n["k"] == "OpCall" and n.get("op") == "()" and len(n.get("a") or []) == 3 and strip(n["a"][1]).get("k") == "Mem":
            tgt, src = strip(n["a"][1]), n["a"][2]
        elif n["k"] == "MCall" and n.get("m") == "update" and isinstance(n.get("obj"), dict) and strip(n["obj"]).get("k") == "Mem" and len(n.get("a") or []) == 1:
            tgt, src = strip(n["obj"]), n["a"][0]
        if tgt is None:
            continue
        base = strip(tgt.get("b") or {})
        while base.get("k") in ("OpCall", "Un") and (base.get("a") or base.get("c")):
            base = strip((base.get("a") or base.get("c"))[0])
        if base.get("k") != "Ref" or base.get("n") not in pk:
            continue
        flds = [x["n"] for x in walk(src) if x["k"] == "Mem" and strip(x.get("b") or {}).get("k") == "Ref" and strip(x["b"])["n"] == rparam]
        if len(flds) == 1 and flds[0] in Rmap:
            for S in Rmap[flds[0]]:
                rest_by_slot.setdefault((pk[base["n"]], S), set()).add(tgt["n"])
    for f in wc.fns:
        if not f.get("body") or not f["file"].endswith("AggregateWellData.cpp"):
            continue
        kinds = {p_["n"]: ("prod" if "ProductionControls" in (p_.get("t") or "") else "inj") for p_ in f["params"] if "ProductionControls" in (p_.get("t") or "") or "InjectionControls" in (p_.get("t") or "")}
        for n in walk(f["body"]):
            if n["k"] == "Decl":
                for v in n["vars"]:
                    if "ProductionControls" in (v.get("t") or ""):
                        kinds[v["n"]] = "prod"
                    if "InjectionControls" in (v.get("t") or ""):
                        kinds[v["n"]] = "inj"
        if not kinds:
            continue
        for n in walk(f["body"]):
            if n["k"] in ("Bin", "OpCall") and n.get("op") == "=" and (n.get("asg") or n["k"] == "OpCall"):
                l_, r_ = (n.get("c") or n.get("a"))
                m = re.fullmatch(r"sWell\[(?:[\w:]*::)?(\w+)\]", show(strip(l_)))
                if not m:
                    continue
                mems = [(kinds[strip(x["b"])["n"]], x["n"]) for x in walk(r_) if x["k"] == "Mem" and isinstance(x.get("b"), dict) and strip(x["b"]).get("k") == "Ref" and strip(x["b"])["n"] in kinds]
                if len(set(mems)) != 1:
                    continue
                kind, c_ = mems[0]
                S = m.group(1)
                want_p = rest_by_slot.get((kind, S))
                if not want_p or c_ not in Cmap[kind]:
                    continue
                key = "writer:%s@%d:%s.%s" % (S, n["l"], kind, c_)
                chk.instance(r_wc, key, sample=dict(slot=S, line=n["l"], stores="%s.%s" % (kind, c_), which_comes_from=sorted(Cmap[kind][c_]), slot_is_restored_into=sorted(want_p)))
                if not (Cmap[kind][c_] & want_p):
                    chk.violation(r_wc, key, "the writer stores %s.%s (the control value of %s) in sWell[%s] (line %d), and the restart constructor restores that slot into %s: the target of one quantity comes back as the target of another" % ("pc" if kind == "prod" else "ic", c_, sorted(Cmap[kind][c_]), S, n["l"], sorted(want_p)), f["file"], n["l"])
    chk.extra["wellchain_links"] = dict(writer_slots=len(W), controls=len(Cmap["prod"]) + len(Cmap["inj"]), reader_fields=len(Rmap), restored=n_wc)

    # ---- C05.groupchain: the same closure for group targets and limits
    r_gc = chk.rule("C05.groupchain", "round-trip closure of the group targets and limits, every link taken from the code: the member P of GroupProductionProperties / GroupInjectionProperties (per injected phase) that the restart helpers of Group.cpp fill from RstGroup field F is the member whose control value (Group::productionControls / injectionControls: pc.c = eval(properties.P)) AggregateGroupData stores (sGrp[S] = f(cntl.c)) in the slot S that RstGroup reads F from - per phase for the injection limits (the writer's cntl is injectionControls(Phase::X), the restorer sets injection.phase = Phase::X)", floor=12)
    gcx = chk.facts([OUT + "AggregateGroupData.cpp", RST + "group.cpp", "/repo/opm/input/eclipse/Schedule/Group/Group.cpp"])
    GW = {}
    for f in gcx.fns:
        if not f.get("body") or not f["file"].endswith("AggregateGroupData.cpp"):
            continue
        kinds = {}
        for n in walk(f["body"]):
            if n["k"] == "Decl":
                for v in n["vars"]:
                    it = show(v.get("init")) if isinstance(v.get("init"), dict) else ""
                    if ".productionControls(" in it:
                        kinds[v["n"]] = "prod"
                    m_ = re.search(r"\.injectionControls\((?:Opm::)?Phase::(\w+)", it)
                    if m_:
                        kinds[v["n"]] = "inj:" + m_.group(1)
        if not kinds:
            continue
        for n in walk(f["body"]):
            if n["k"] in ("Bin", "OpCall") and n.get("op") == "=" and (n.get("asg") or n["k"] == "OpCall"):
                l_, r_ = (n.get("c") or n.get("a"))
                m = re.fullmatch(r"sGrp\[(?:[\w:]*::)?(\w+)\]", show(strip(l_)))
                if not m:
                    continue
                for x in walk(r_):
                    if x["k"] == "Mem" and isinstance(x.get("b"), dict) and strip(x["b"]).get("k") == "Ref" and strip(x["b"])["n"] in kinds:
                        GW.setdefault(m.group(1), set()).add((kinds[strip(x["b"])["n"]], x["n"], n["l"]))
    GC = {"prod": {}, "inj": {}}
    for f in gcx.fns:
        if f["n"] not in ("productionControls", "injectionControls") or not f.get("body") or not f["file"].endswith("Group/Group.cpp"):
            continue
        kind = "prod" if f["n"] == "productionControls" else "inj"
        for n in walk(f["body"]):
            if n["k"] in ("Bin", "OpCall") and n.get("op") == "=" and (n.get("asg") or n["k"] == "OpCall"):
                l_, r_ = (n.get("c") or n.get("a"))
                l_ = strip(l_)
                if l_.get("k") == "Mem" and strip(l_.get("b") or {}).get("k") == "Ref":
                    mem = [x["n"] for x in walk(r_) if x["k"] == "Mem" and "UDAValue" in (x.get("t") or "")]
                    if len(mem) == 1:
                        GC[kind].setdefault(l_["n"], set()).add(mem[0])
    GR = {}
    for f in gcx.fns:
        if f["n"] == "RstGroup" and f["file"].endswith("rst/group.cpp") and f.get("inits"):
            for i_ in f["inits"]:
                sl = [x for x in walk(i_["init"]) if x["k"] in ("Idx", "OpCall") and show(strip((x.get("c") or x.get("a") or [{}])[0])) == "sgrp"]
                if len(sl) == 1:
                    GR.setdefault(i_["member"], set()).add(show(strip((sl[0].get("c") or sl[0].get("a"))[1])).split("::")[-1])
    restorers = [f for f in gcx.fns if f["n"] in ("make_production_properties", "make_injection_properties") and f.get("body") and f["file"].endswith("Group/Group.cpp")]
    if len(restorers) < 3 or len(GW) < 12 or len(GC["prod"]) < 4 or len(GC["inj"]) < 4 or len(GR) < 12:
        raise core.AnalysisBroken("C05.groupchain: links not found (restorers %d, writer slots %d, controls %d/%d, reader fields %d)" % (len(restorers), len(GW), len(GC["prod"]), len(GC["inj"]), len(GR)))
    n_gc = 0
    for f in restorers:
        rparam = [p_["n"] for p_ in f["params"] if "RstGroup" in (p_.get("t") or "")][0]
        if f["n"] == "make_production_properties":
            kind = "prod"
        else:
            ph = [strip(x["c"][1]).get("n") for x in walk(f["body"]) if x["k"] == "Bin" and x.get("asg") and x["op"] == "=" and show(strip(x["c"][0])).endswith(".phase") and strip(x["c"][1]).get("d") == "Enum"]
            if len(ph) != 1:
                raise core.AnalysisBroken("make_injection_properties: the phase of the restored properties was not found")
            kind = "inj:" + ph[0]
        for n in walk(f["body"]):
            if not (n["k"] == "OpCall" and n.get("op") == "()" and len(n.get("a") or []) == 3 and strip(n["a"][1]).get("k") == "Mem"):
                continue
            tgt, src = strip(n["a"][1]), n["a"][2]
            flds = [x["n"] for x in walk(src) if x["k"] == "Mem" and strip(x.get("b") or {}).get("k") == "Ref" and strip(x["b"])["n"] == rparam]
            if len(flds) != 1 or flds[0] not in GR:
                continue
            P, F = tgt["n"], flds[0]
            slots = GR[F]
            base_kind = kind.split(":")[0]
            cands = {m for S in slots for (k_, c_, _l) in GW.get(S, ()) if k_ == kind for m in GC[base_kind].get(c_, ())}
            n_gc += 1
            key = "%s:%s<-%s" % (kind, P, F)
            chk.instance(r_gc, key, sample=dict(restored_member=P, of=kind, from_field=F, field_read_from_slot=sorted(slots), slot_written_from=sorted("%s.%s" % (k_, c_) for S in slots for (k_, c_, _l) in GW.get(S, ())), those_controls_come_from=sorted(cands)))
            if P not in cands:
                chk.violation(r_gc, key, "Group restart (%s, %s): member %s is filled from RstGroup::%s, which is read from slot %s; the writer stores %s there, i.e. the member%s %s of %s: after a restart %s holds the limit of another quantity or phase" % (f["n"], kind, P, F, sorted(slots), sorted("%s.%s" % (k_, c_) for S in slots for (k_, c_, _l) in GW.get(S, ())) or "nothing", "" if len(cands) == 1 else "s", sorted(cands) or "(none)", kind, P), f["file"], n["l"])
    # per writer site: a slot restored into member P of kind k receives the control of P of the same kind
    chk.extra["groupchain_links"] = dict(writer_slots=len(GW), reader_fields=len(GR), restored=n_gc)

    # ---- C05.udqdims: the INTEHEAD items that dimension the UDQ value arrays, writer against the two readers
    r_ud = chk.rule("C05.udqdims", "the DUDW / DUDG / DUDS arrays are laid out by capacities taken from INTEHEAD: the writer's UDQDims (maxNumWells, maxNumGroups, maxNumMsWells, maxNumSegments) and the two readers' UDQVectors classes (rst/state.cpp for the restarted Schedule, LoadRestart.cpp for the dynamic state) read the SAME header item for the same capacity - a reader that takes the number of multi-segment wells present (NSEGWL) where the writer used the declared maximum (NSWLMX) finds every segment-level UDQ after the first in the wrong window", floor=10)
    udx = chk.facts([OUT + "UDQDims.cpp", OUT + "LoadRestart.cpp", RST + "state.cpp"])

    def normcap(nm):
        return re.sub(r"^max", "", nm.strip("_").replace("_", "")).lower().replace("maxnum", "num")
    caps = {}
    for f in udx.fns:
        if not f.get("body"):
            continue
        if f["file"].endswith("UDQDims.cpp") and (f.get("cls") or "").endswith("UDQDims"):
            rets = [x for x in walk(f["body"]) if x["k"] == "Return" and isinstance(x.get("e"), dict)]
            if len(rets) == 1:
                items = [y["n"] for y in walk(rets[0]["e"]) if y["k"] == "Ref" and y.get("d") == "Enum" and "VectorItems::" in (y.get("q") or "")] if "intehead" in show(rets[0]["e"]) else []
                if len(items) == 1:
                    caps.setdefault(normcap(f["n"]), {})["writer UDQDims::%s" % f["n"]] = (items[0], f["file"], f["l"])
        elif (f.get("cls") or "").endswith("UDQVectors") or "UDQVectors" in f["q"]:
            where = "reader %s UDQVectors" % f["file"].split("/")[-1]
            for n in walk(f["body"]):
                if n["k"] in ("Bin", "OpCall") and n.get("op") == "=" and (n.get("asg") or n["k"] == "OpCall"):
                    l_, r_ = (n.get("c") or n.get("a"))
                    l_ = strip(l_)
                    if l_.get("k") == "Mem" and strip(l_.get("b") or {"k": "This"}).get("k") == "This":
                        items = [y["n"] for y in walk(r_) if y["k"] == "Ref" and y.get("d") == "Enum" and "VectorItems::" in (y.get("q") or "")] if "intehead" in show(r_) else []
                        if len(items) == 1:
                            caps.setdefault(normcap(l_["n"]), {})["%s::%s" % (where, l_["n"])] = (items[0], f["file"], n["l"])
    n_ud = 0
    for cap, sites in sorted(caps.items()):
        if len(sites) < 2 or not any(k_.startswith("writer") for k_ in sites):
            continue
        w_item = [v[0] for k_, v in sites.items() if k_.startswith("writer")][0]
        for k_, (item, fl, ln) in sorted(sites.items()):
            n_ud += 1
            chk.instance(r_ud, "%s:%s" % (cap, k_), sample=dict(capacity=cap, site=k_, intehead_item=item, writer_item=w_item))
            if item != w_item:
                chk.violation(r_ud, "%s:%s" % (cap, k_), "%s takes the capacity `%s` from INTEHEAD[%s], the writer (UDQDims) lays the array out with INTEHEAD[%s]: writer and reader disagree on the stride, so all but the first UDQ of that kind are read from another UDQ's window (or come back undefined)" % (k_, cap, item, w_item), fl, ln)
    if n_ud < 10:
        raise core.AnalysisBroken("C05.udqdims: only %d capacity sites found (writer UDQDims + two UDQVectors readers expected)" % n_ud)

    # ---- C05.fpindex: cell property arrays are read at an index of their own kind
    r_fi = chk.rule("C05.fpindex", "outside FieldProps, an array taken from FieldPropsManager::get_int/get_double/get_copy/try_get (one entry per ACTIVE cell) is subscripted with an active index and one from get_global_int/get_global_double with a global index - where the index comes from is followed through locals: cell.active_index(), activeIndex(...), getActiveIndex(...) are active, .global_index / getGlobalIndex(...) / a *global_index* member are global (the restart constructor of Connection looks the saturation table of a defaulted connection up this way)", floor=8)
    from verif import fpindex
    for f in lib.fns:
        if not f.get("body") or not f["file"].startswith(core.REPO + "/opm/") or "/EclipseState/Grid/FieldProps" in f["file"]:
            continue
        inst, viol = fpindex.analyse(f)
        for line, arr, ka, idx, ki in inst:
            if ki:
                chk.instance(r_fi, "%s@%s[%s]" % (f["q"], arr[:30], idx[:30]), sample=dict(function=f["q"], line=line, array=arr, array_kind=ka, index=idx, index_kind=ki))
        for line, arr, ka, idx, ki in viol:
            chk.violation(r_fi, "%s@%s[%s]" % (f["q"], arr[:30], idx[:30]), "%s: `%s` holds one entry per %s cell but is read at `%s`, a%s index: with inactive cells in the grid this is the entry of another cell (or beyond the end of the array)" % (f["q"], arr, ka, idx, "n active" if ki == "active" else " global"), f["file"], line)

    # ---- C05.ctrlphase: the active control of an injector, read back
    r_cp = chk.rule("C05.ctrlphase", "LoadRestart.cpp injectorControlMode: the stored active-control code <P>Rate comes back as RATE exactly for an injector of phase P (OilRate with oil_injector, WatRate with water_injector, GasRate with gas_injector) and as undefined otherwise; ResVRate, THP, BHP, Group come back as RESV, THP, BHP, GRUP - a rate-controlled injector of one phase must not lose its control because the test names another phase; producerControlMode maps OilRate/WatRate/GasRate/LiqRate/ResVRate/THP/BHP/CombRate/Group to ORAT/WRAT/GRAT/LRAT/RESV/THP/BHP/CRAT/GRUP; the writer (Well::eclipseControlMode, both overloads) holds the inverse tables", floor=30)
    from verif import fallthrough as _ft5
    icm = [f for f in fx.fns if f["n"] == "injectorControlMode" and f.get("body") and f["file"].endswith("LoadRestart.cpp")]
    if len(icm) != 1:
        raise core.AnalysisBroken("LoadRestart.cpp: injectorControlMode: %d definitions" % len(icm))
    icm = icm[0]
    sws = [n for n in walk(icm["body"]) if n.get("k") == "Switch"]
    if len(sws) != 1:
        raise core.AnalysisBroken("injectorControlMode: %d switch statements" % len(sws))
    WANT_CP = {"OilRate": "oil_injector", "WatRate": "water_injector", "GasRate": "gas_injector"}
    WANT_PL = {"ResVRate": "RESV", "THP": "THP", "BHP": "BHP", "Group": "GRUP"}
    seen_cp = set()
    for labels, sts in _ft5.sections(sws[0]):
        for lab in labels:
            nm = lab.split("::")[-1]
            txt = " ".join(show(x) for x in sts)
            seen_cp.add(nm)
            if nm in WANT_CP:
                m_ = re.search(r"WellType::(\w+)\(\w+\) \? [\w:]*::RATE : [\w:]*::CMODE_UNDEFINED", txt)
                chk.instance(r_cp, nm, sample=dict(code=nm, test=m_.group(1) if m_ else None))
                if not m_ or m_.group(1) != WANT_CP[nm]:
                    chk.violation(r_cp, nm, "injectorControlMode: the active control %s is restored as RATE under `%s`; it must be `WellType::%s(type) ? RATE : undefined` - otherwise a %s-controlled injector comes back without its control mode" % (nm, txt[:120], WANT_CP[nm], nm), icm["file"], (sts[0].get("l") if sts else icm["l"]))
            elif nm in WANT_PL:
                chk.instance(r_cp, nm, sample=dict(code=nm, restored=txt[:80]))
                if not re.search(r"return [\w:]*::%s;" % WANT_PL[nm], txt):
                    chk.violation(r_cp, nm, "injectorControlMode: the active control %s is restored by `%s`; it must come back as %s" % (nm, txt[:120], WANT_PL[nm]), icm["file"], (sts[0].get("l") if sts else icm["l"]))
    # the producer side: a plain code -> mode table
    pcm = [f for f in fx.fns if f["n"] == "producerControlMode" and f.get("body") and f["file"].endswith("LoadRestart.cpp")]
    if len(pcm) != 1:
        raise core.AnalysisBroken("LoadRestart.cpp: producerControlMode: %d definitions" % len(pcm))
    pcm = pcm[0]
    WANT_PR = {"OilRate": "ORAT", "WatRate": "WRAT", "GasRate": "GRAT", "LiqRate": "LRAT", "ResVRate": "RESV", "THP": "THP", "BHP": "BHP", "CombRate": "CRAT", "Group": "GRUP"}
    psw = [n for n in walk(pcm["body"]) if n.get("k") == "Switch"]
    got_pr = {}
    for labels, sts in (_ft5.sections(psw[0]) if len(psw) == 1 else []):
        txt = " ".join(show(x) for x in sts)
        m_ = re.search(r"return [\w:]*::(\w+);", txt)
        for lab in labels:
            got_pr[lab.split("::")[-1]] = m_.group(1) if m_ else None
    for code_, mode_ in WANT_PR.items():
        chk.instance(r_cp, "prod:" + code_, sample=dict(code=code_, restored=got_pr.get(code_)))
        if got_pr.get(code_) != mode_:
            chk.violation(r_cp, "prod:" + code_, "producerControlMode restores the active control %s as %s; it must come back as %s" % (code_, got_pr.get(code_), mode_), pcm["file"], pcm["l"])
    # the writer side (Well::eclipseControlMode): the inverse tables
    wx5 = chk.facts(["opm/input/eclipse/Schedule/Well/Well.cpp"])
    ecm = [f for f in wx5.fns if f["q"] == "Opm::Well::eclipseControlMode" and f.get("body")]
    ecp = [f for f in ecm if len(f["params"]) == 1 and "ProducerCMode" in (f["params"][0].get("t") or "")]
    eci = [f for f in ecm if len(f["params"]) == 2 and "InjectorCMode" in (f["params"][0].get("t") or "")]
    if len(ecp) != 1 or len(eci) != 1:
        raise core.AnalysisBroken("Well::eclipseControlMode: %d producer / %d injector overloads" % (len(ecp), len(eci)))
    wsw = [n for n in walk(ecp[0]["body"]) if n.get("k") == "Switch"]
    got_w = {}
    for labels, sts in (_ft5.sections(wsw[0]) if len(wsw) == 1 else []):
        m_ = re.search(r"return [\w:]*::(\w+);", " ".join(show(x) for x in sts))
        for lab in labels:
            got_w[lab.split("::")[-1]] = m_.group(1) if m_ else None
    for code_, mode_ in WANT_PR.items():
        chk.instance(r_cp, "write:" + mode_, sample=dict(mode=mode_, code=got_w.get(mode_)))
        if got_w.get(mode_) != code_:
            chk.violation(r_cp, "write:" + mode_, "Well::eclipseControlMode writes the producer control %s as %s; the reader maps %s back to %s, so it must be written as %s" % (mode_, got_w.get(mode_), code_, mode_, code_), ecp[0]["file"], ecp[0]["l"])
    isw = [n for n in walk(eci[0]["body"]) if n.get("k") == "Switch"]
    got_i = {}
    for sw_ in isw:
        for labels, sts in _ft5.sections(sw_):
            m_ = re.search(r"^return [\w:]*::(\w+);$", " ".join(show(x) for x in sts).strip())
            for lab in labels:
                if m_:
                    got_i[lab.split("::")[-1]] = m_.group(1)
    WANT_IW = {"OIL": "OilRate", "WATER": "WatRate", "GAS": "GasRate", "RESV": "ResVRate", "THP": "THP", "BHP": "BHP", "GRUP": "Group"}
    for lab_, code_ in WANT_IW.items():
        chk.instance(r_cp, "writeinj:" + lab_, sample=dict(case=lab_, code=got_i.get(lab_)))
        if got_i.get(lab_) != code_:
            chk.violation(r_cp, "writeinj:" + lab_, "Well::eclipseControlMode (injector) writes the case %s as %s; it must be %s (the reader restores exactly that code for this injector phase / mode)" % (lab_, got_i.get(lab_), code_), eci[0]["file"], eci[0]["l"])
    miss_cp = [k_ for k_ in list(WANT_CP) + list(WANT_PL) if k_ not in seen_cp]
    if miss_cp:
        chk.violation(r_cp, "cases", "injectorControlMode has no case for %s" % miss_cp, icm["file"], icm["l"])

    # ---- C05.convonce: an in-place unit conversion is applied once per array
    r_co1 = chk.rule("C05.convonce", "restart reader / writer: an in-place conversion (UnitSystem::to_si / from_si with a vector argument, convertToSI / convertFromSI) that a loop applies to every element of a container is not nested inside another loop that adds to the same object - otherwise every array added earlier is converted again for each later one (a factor is not idempotent), and which arrays come back wrong depends on how many are requested and in what order", floor=2)
    from verif import cow as _cow5
    for f in fx.fns:
        if not f.get("body") or not re.search(r"/opm/output/eclipse/(LoadRestart|RestartIO|RestartValue)\.cpp$|/opm/output/data/Solution\.cpp$", f["file"]):
            continue
        par5 = None
        for n in walk(f["body"]):
            if n.get("k") != "MCall" or n.get("m") not in ("to_si", "from_si", "convertToSI", "convertFromSI"):
                continue
            pt_ = n.get("pt") or []
            inplace = (n["m"] in ("convertToSI", "convertFromSI")) or (len(pt_) == 2 and pt_[1].strip().endswith("&") and not pt_[1].strip().startswith("const"))
            if not inplace:
                continue
            if par5 is None:
                par5 = _cow5.parent_map(f)
            loops_ = []
            cur = n
            while id(cur) in par5:
                cur = par5[id(cur)]
                if cur.get("k") in ("ForRange", "For", "While"):
                    loops_.append(cur)
            key = "%s@%d" % (f["q"], n["l"])
            chk.instance(r_co1, key, sample=dict(function=f["q"], call=show(n)[:100], enclosing_loops=len(loops_)))
            if len(loops_) < 2 or loops_[0].get("k") != "ForRange":
                continue
            inner, outer = loops_[0], loops_[1]
            rng = show(strip(inner["range"]))
            root = re.match(r"[A-Za-z_]\w*(?:\.this)?", rng.replace("this.", "this_"))
            rootn = rng.split(".")[0] if "." in rng else rng
            inner_ids = {id(x) for x in walk(inner)}
            adds = [x for x in walk(outer["body"]) if id(x) not in inner_ids and x.get("k") == "MCall" and not x.get("const") and x.get("obj") is not None
                    and (show(strip(x["obj"])) == rootn or show(strip(x["obj"])) == rng) and x.get("m") not in ("to_si", "from_si")]
            if adds:
                chk.violation(r_co1, key, "%s: `%s` converts in place every element of `%s` inside a loop that also does `%s`: each element added earlier is converted again on every later iteration" % (f["q"], show(n)[:80], rng, show(adds[0])[:80]), f["file"], n["l"])

    # the unit conversions the restart writer applies and the loader inverts: mutual inverses (rules of C02, same facts)
    import rules.C02 as c02
    c02.run(core.Only(chk, {"C02.affine", "C02.inv", "C02.io", "C02.wire", "C02.offset", "C02.len"}))

    from verif import fallthrough
    fallthrough.run(chk, "C05", floor=45)
    from verif import moved
    moved.run(chk, "C05", r"^/repo/opm/(output|input/eclipse/Schedule)/", floor=105)
    from verif import argorder
    argorder.run(chk, "C05", floor=170)

    chk.assumptions += [
        "slots are joined on the array enum and enumerator (XGRP: on the integer of the key->index tables)",
        "mnemonic->measure and slot-name->mnemonic grammars frozen in rules/C05.py (documented Eclipse naming)",
        "a reader field is load-bearing iff some function outside its own class names it (member references over all library units)",
    ]
