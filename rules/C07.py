"""C07  Eclipse array files: round trip and on-disk layout — constants, shapes, sibling agreement.

Decides: layout constants equal the published ones (C07.const), the two block tables pair every type with its
own constants (C07.blocks), the 16-byte header is written and read as the same sequence (C07.hdr, C07.fhdr),
every record is bracketed by equal flipped head/tail (C07.bracket), every value crosses the endian flip of its
own type exactly once (C07.flip), writer, reader and size arithmetic derive the block geometry identically
(C07.sib), type strings map to the same enumerator in both directions (C07.types), the size formula
(C07.size) and the LOGI encoding (C07.logi).  Not decided: value round trip, number formatting, behaviour at
specific lengths.
"""
import os
import re
from fractions import Fraction

from verif import core
from verif.tree import walk, walk_fn, show, stmt_list, meth, strip, decast
from rules.C02 import poly, poly_str, P

LEVEL = "other"
OUT = "opm/io/eclipse/EclOutput.cpp"
UTIL = "opm/io/eclipse/EclUtil.cpp"
TYPES = ["INTE", "REAL", "DOUB", "CHAR", "LOGI", "MESS", "C0NN"]
SUFFIX = {"INTE": "Inte", "REAL": "Real", "DOUB": "Doub", "LOGI": "Logi", "CHAR": "Char", "C0NN": "Char"}


def enum_refs(n, enumq="Opm::EclIO::eclArrType"):
    return [x["n"] for x in walk(n) if x["k"] == "Ref" and x.get("d") == "Enum" and (x.get("q") or "").startswith("Opm::EclIO::")]


def stream_writes(n, stream="ofileH"):
    """(what, nbytes-expression, node) for every <stream>.write(ptr, n) under n, in source order."""
    out = []
    for c in walk(n):
        if c["k"] == "MCall" and c.get("m") == "write" and stream in show(c.get("obj")) and len(c.get("a", [])) == 2:
            out.append((show(strip(c["a"][0])), c["a"][1], c))
    return out


def nbytes(e):
    e = strip(e)
    if "ev" in e:
        return e["ev"]
    if e.get("k") == "Int":
        return e["v"]
    return None


def header_sums(fx):
    """(binary header bytes, formatted header characters) as the writer emits them; shared with C08."""
    wb = fx.fn1("Opm::EclIO::EclOutput::writeBinaryHeader")
    top = [s for s in stmt_list(wb["body"]) if s["k"] != "If"]
    seq = []
    for s in stmt_list(wb["body"]):
        if s["k"] == "If":
            continue    # X231 escape and the C0NN string
        if s["k"] == "Switch":
            # one 4-byte type string per case
            sizes = {nbytes(w[1]) for w in stream_writes(s)}
            if sizes != {4}:
                raise core.AnalysisBroken("writeBinaryHeader: type strings are not all 4 bytes: %s" % sizes)
            seq.append(4)
            continue
        for w in stream_writes(s):
            seq.append(nbytes(w[1]))
    wf = fx.fn1("Opm::EclIO::EclOutput::writeFormattedHeader")
    nchar = 0
    first = None
    for s in stmt_list(wf["body"]):
        if s["k"] == "OpCall" and s["op"] == "<<" and "ofileH" in show(s):
            first = s
            break
    if first is None:
        raise core.AnalysisBroken("writeFormattedHeader: stream insertion not found")
    lits = [x["v"] for x in walk(first) if x["k"] == "Str"]
    setw = [strip(c["a"][0]) for c in walk(first) if c["k"] == "Call" and (c.get("fn") or "").endswith("setw")]
    nchar = sum(len(l) for l in lits) + sum(nbytes(w) or 0 for w in setw) + 8   # + the 8-character padded name
    sw = [s for s in stmt_list(wf["body"]) if s["k"] == "Switch"]
    if len(sw) != 1:
        raise core.AnalysisBroken("writeFormattedHeader: type switch not found")
    tl = set()
    for c in walk(sw[0]):
        if c["k"] == "Case":
            ls = [x["v"] for x in walk(c["sub"]) if x["k"] == "Str"]
            en = enum_refs(c["v"])
            if en and en[0] == "C0NN":
                sw_ = [nbytes(strip(x["a"][0])) or 0 for x in walk(c["sub"]) if x["k"] == "Call" and (x.get("fn") or "").endswith("setw") and x.get("a")]
                # "Cnnn": either a ready-made 4-character string or 'C' + a width-3 number
                tl.add(sum(len(l) for l in ls) + (sum(sw_) if sw_ else 4))
            else:
                tl.add(sum(len(l) for l in ls))
    if len(tl) != 1:
        raise core.AnalysisBroken("writeFormattedHeader: type fields have different widths %s" % tl)
    nchar += tl.pop()
    # every type field is followed by the line terminator (std::endl): one more byte on disk
    nls = set()
    for c in walk(sw[0]):
        if c["k"] == "Case":
            nls.add(sum(1 for x in walk(c["sub"]) if x["k"] in ("Ref", "ULookup") and x.get("n") == "endl"))
    if nls != {1}:
        raise core.AnalysisBroken("writeFormattedHeader: not every header line ends with exactly one std::endl (%s)" % nls)
    return seq, nchar, wb, wf


def run(chk):
    fx = chk.facts([OUT, UTIL, "opm/io/eclipse/EclFile.cpp"], files_re="^/repo/opm/io/eclipse/EclIOdata.hpp$")
    F_OUT = core.REPO + "/" + OUT
    F_UTIL = core.REPO + "/" + UTIL

    # ---- C07.const
    r_const = chk.rule("C07.const", "every layout constant of EclIOdata.hpp equals the published Eclipse value", floor=25)
    want = core.load_table("ecl_layout.json")["constants"]
    consts = {v["n"]: v for v in fx.vars if v["file"].endswith("EclIOdata.hpp")}
    for name, val in want.items():
        v = consts.get(name)
        if v is None:
            raise core.AnalysisBroken("constant %s vanished from EclIOdata.hpp" % name)
        got = v.get("ev")
        if got is None:
            got = strip(v["init"]).get("v")
        chk.instance(r_const, name, sample=dict(constant=name, value=got))
        if got is None or int(got) & 0xffffffff != int(val) & 0xffffffff:
            chk.violation(r_const, name, "%s = %s; the Eclipse file format fixes it at %s" % (name, got, val), v["file"], v["l"])
    for name, v in consts.items():
        if name not in want:
            chk.fail_broken("C07.const: " + "constant %s is not in tables/ecl_layout.json (confirm and add it)" % name)

    # ---- C07.blocks
    r_blk = chk.rule("C07.blocks", "block_size_data_binary/formatted return, for every array type, that type's own constants; CHAR and C0NN share; MESS has no data", floor=14)
    for fname, pats in (("block_size_data_binary", ["sizeOf%s", "MaxBlockSize%s"]), ("block_size_data_formatted", ["MaxNumBlock%s", "numColumns%s", "columnWidth%s"])):
        f = fx.fn1("Opm::EclIO::" + fname)
        seen = set()
        for c in walk(f["body"]):
            if c["k"] != "Case":
                continue
            en = enum_refs(c["v"])
            if len(en) != 1:
                continue
            t = en[0]
            seen.add(t)
            sub = c["sub"]
            rets = [x for x in walk(sub) if x["k"] == "Return"]
            throws = [x for x in walk(sub) if x["k"] == "Throw"]
            if t == "MESS":
                chk.instance(r_blk, "%s:MESS" % fname, sample="throws" if throws else "returns")
                if rets or not throws:
                    chk.violation(r_blk, "%s:MESS" % fname, "%s(MESS) must throw: MESS arrays have no data" % fname, f["file"], c["l"])
                continue
            names = [x["n"] for x in walk(rets[0]) if x["k"] == "Ref" and x.get("d") == "GVar"] if rets else []
            wantn = [p % SUFFIX[t] for p in pats]
            chk.instance(r_blk, "%s:%s" % (fname, t), sample=dict(type=t, returns=names))
            if names != wantn:
                chk.violation(r_blk, "%s:%s" % (fname, t), "%s(%s) returns (%s); it must return (%s)" % (fname, t, ", ".join(names), ", ".join(wantn)), f["file"], c["l"])
        if seen != set(TYPES):
            chk.violation(r_blk, fname + ":cover", "%s does not handle %s" % (fname, sorted(set(TYPES) - seen)), f["file"], f["l"])

    # ---- C07.hdr
    r_hdr = chk.rule("C07.hdr", "binary header: flipped 16, 8-byte name, flipped 4-byte count, 4-byte type, flipped 16 - written and read as the same sequence, both markers checked", floor=4)
    seq, nchar, wb, wf = header_sums(fx)
    chk.instance(r_hdr, "write:seq", sample=seq)
    if seq != [4, 8, 4, 4, 4]:
        chk.violation(r_hdr, "write:seq", "writeBinaryHeader emits fields of %s bytes; the 24-byte record is 4+8+4+4+4" % seq, wb["file"], wb["l"])
    env = {v["n"]: show(v.get("init")) for n in walk(wb["body"]) if n["k"] == "Decl" for v in n["vars"]}
    chk.instance(r_hdr, "write:markers", sample=dict(bhead=env.get("bhead"), flippedSize=env.get("flippedSize")))
    if env.get("bhead") != "Opm::EclIO::flipEndianInt(16)":
        chk.violation(r_hdr, "write:bhead", "the record marker is %s; it must be the byte-swapped 16" % env.get("bhead"), wb["file"], wb["l"])
    if env.get("flippedSize") != "Opm::EclIO::flipEndianInt(size)":
        chk.violation(r_hdr, "write:size", "the element count is written as %s; it must be byte-swapped" % env.get("flippedSize"), wb["file"], wb["l"])
    top_writes = [w for s in stmt_list(wb["body"]) if s["k"] not in ("If", "Switch") for w in stream_writes(s)]
    what = [w[0] for w in top_writes]
    if what != ["(&bhead)", "name.c_str()", "(&flippedSize)", "(&bhead)"]:
        chk.violation(r_hdr, "write:order", "writeBinaryHeader writes %s; expected marker, name, count, [type], marker" % what, wb["file"], wb["l"])
    # type strings written
    sw = [s for s in stmt_list(wb["body"]) if s["k"] == "Switch"][0]
    wtypes = {}
    for c in walk(sw):
        if c["k"] == "Case":
            en = enum_refs(c["v"])
            ls = [x["v"] for x in walk(c["sub"]) if x["k"] == "Str"]
            wtypes[en[0]] = ls[0] if ls else show(stream_writes(c["sub"])[0][2]["a"][0])
    # reader
    rb = [f for f in fx.fn("Opm::EclIO::readBinaryHeader") if len(f["params"]) == 4]
    if len(rb) != 1:
        raise core.AnalysisBroken("readBinaryHeader(4 args) not found")
    rb = rb[0]
    reads = [(show(strip(c["a"][0])), nbytes(c["a"][1])) for c in walk(rb["body"]) if c["k"] == "MCall" and c.get("m") == "read"]
    chk.instance(r_hdr, "read:seq", sample=reads)
    if [r[1] for r in reads] != [4, 8, 4, 4, 4]:
        chk.violation(r_hdr, "read:seq", "readBinaryHeader reads fields of %s bytes; the writer emits 4+8+4+4+4" % [r[1] for r in reads], rb["file"], rb["l"])
    flips = [show(n) for n in stmt_list(rb["body"]) if n["k"] == "Bin" and n["op"] == "=" and "flipEndianInt" in show(n)]
    checks = [n for n in stmt_list(rb["body"]) if n["k"] == "If" and show(n["cond"]) == "(bhead != 16)" and any(x["k"] == "Throw" for x in walk(n["then"]))]
    chk.instance(r_hdr, "read:checks", sample=dict(flips=flips, marker_checks=len(checks)))
    if len(checks) != 2 or len(flips) != 3:
        chk.violation(r_hdr, "read:checks", "readBinaryHeader must byte-swap marker, count and marker and reject both markers unless they are 16 (found %d checks, %d swaps)" % (len(checks), len(flips)), rb["file"], rb["l"])

    # ---- C07.fhdr
    r_fh = chk.rule("C07.fhdr", "formatted header is 30 characters: blank, quoted 8-char name, blank, 11-wide count, blank, quoted 4-char type", floor=1)
    chk.instance(r_fh, "width", sample=nchar)
    if nchar != 30:
        chk.violation(r_fh, "width", "writeFormattedHeader emits %d characters before the newline; the format (and EclFile::seekPosition) assumes 30" % nchar, wf["file"], wf["l"])

    # ---- C07.types
    r_ty = chk.rule("C07.types", "the 4-character type strings map to the same enumerator when written and when read, in both file flavours", floor=16)
    ftypes = {}
    sw = [s for s in stmt_list(wf["body"]) if s["k"] == "Switch"][0]
    for c in walk(sw):
        if c["k"] == "Case":
            en = enum_refs(c["v"])
            ls = [x["v"] for x in walk(c["sub"]) if x["k"] == "Str"]
            ftypes[en[0]] = (ls[0].strip(" '") if ls and en[0] != "C0NN" else "C0nn")

    def reader_map(f, var):
        m = {}
        for iff in [n for n in walk(f["body"]) if n["k"] == "If"]:
            c = iff["cond"]
            s = show(c)
            mm = re.match(r'^\(%s == "(\w+)"\)$' % var, s)
            asg = [enum_refs(x) for x in walk(iff["then"]) if x["k"] == "Bin" and x["op"] == "=" and "arrType" in show(x["c"][0])]
            if mm and asg and asg[0]:
                m[mm.group(1)] = asg[0][0]
            elif "substr(0, 1)" in s and '"C"' in s and asg and asg[0]:
                m["C0nn"] = asg[0][0]
        return m
    rb2 = [f for f in fx.fn("Opm::EclIO::readBinaryHeader") if len(f["params"]) == 5][0]
    rf = fx.fn1("Opm::EclIO::readFormattedHeader")
    rmap_b = reader_map(rb2, "tmpStrType")
    rmap_f = reader_map(rf, "arrTypeStr")
    for t in TYPES:
        wtxt = wtypes.get(t)
        wtxt = "C0nn" if t == "C0NN" else wtxt
        ftxt = ftypes.get(t)
        for flavour, txt, rmap in (("binary", wtxt, rmap_b), ("formatted", ftxt, rmap_f)):
            key = "%s:%s" % (flavour, t)
            back = rmap.get(txt)
            chk.instance(r_ty, key, sample=dict(type=t, written_as=txt, read_back_as=back))
            if txt is None or (t != "C0NN" and txt != t):
                chk.violation(r_ty, key + ":w", "%s header writes type %s as '%s'" % (flavour, t, txt), F_OUT, None)
            if back != t:
                chk.violation(r_ty, key + ":r", "%s header: '%s' written for %s is read back as %s" % (flavour, txt, t, back), F_UTIL, None)
    # element size implied by the type string on read
    for f, nm in ((rb2, "binary"), (rf, "formatted")):
        es = {}
        for iff in [n for n in walk(f["body"]) if n["k"] == "If"]:
            mm = re.match(r'^\(\w+ == "(\w+)"\)$', show(iff["cond"]))
            if mm:
                for x in walk(iff["then"]):
                    if x["k"] == "Bin" and x["op"] == "=" and show(x["c"][0]) == "elementSize":
                        es[mm.group(1)] = show(x["c"][1])
        chk.instance(r_ty, nm + ":elementSize", sample=es)
        if es != {"DOUB": "8", "CHAR": "8"}:
            chk.violation(r_ty, nm + ":elementSize", "%s header reader assigns element sizes %s; only DOUB and CHAR are 8 bytes, the default is 4" % (nm, es), f["file"], f["l"])

    # ---- C07.sib
    r_sib = chk.rule("C07.sib", "writer, reader and size arithmetic derive (element size, block bytes, elements per block) from the block table in the same way, including the C0NN adjustment", floor=5)
    sites = [("Opm::EclIO::EclOutput::writeBinaryArray", None), ("Opm::EclIO::EclOutput::writeBinaryCharArray", 2), ("Opm::EclIO::EclOutput::writeBinaryCharArray", 1),
             ("Opm::EclIO::readBinaryArray", None), ("Opm::EclIO::sizeOnDiskBinary", None)]
    derived = {}
    adj = {}
    for q, npar in sites:
        fs = [f for f in fx.fn(q) if npar is None or len(f["params"]) == npar]
        if len(fs) != 1:
            raise core.AnalysisBroken("%s: expected one definition" % q)
        f = fs[0]
        key = "%s/%s" % (q.split("::")[-1], npar if npar else "")
        env = {v["n"]: show(v.get("init")) for n in walk(f["body"]) if n["k"] == "Decl" for v in n["vars"]}
        trip = (env.get("sizeOfElement"), env.get("maxBlockSize"), env.get("maxNumberOfElements"))
        derived[key] = trip
        # C0NN adjustment: get<1> = get<1> / get<0> * E ; get<0> = E   (compared in rational normal form: 8 divides 840)
        for iff in [n for n in walk(f["body"]) if n["k"] == "If"]:
            asg = [x for x in stmt_list(iff["then"]) if x["k"] == "Bin" and x["op"] == "=" and "std::get" in show(x["c"][0])]
            if len(asg) == 2:
                def gleaf(n):
                    if n["k"] == "Call" and (n.get("fn") or "").endswith("std::get"):
                        return {"0": "e0", "1": "B"}.get((n.get("targs") or ["?"])[0], "?")
                    if n["k"] == "Ref" and n["n"] in ("element_size", "elementSize"):
                        return "E"
                    return None
                forms = []
                for x in asg:
                    tgt = gleaf(strip(x["c"][0]))
                    forms.append("%s = %s" % (tgt, poly_str(poly(x["c"][1], gleaf))))
                e = " ; ".join(forms)
                adj[key] = (re.sub(r"\belement_?[sS]ize\b", "E", show(iff["cond"]).replace("Opm::EclIO::", "")), e)
        chk.instance(r_sib, key, sample=dict(site=key, triple=trip, c0nn=adj.get(key)))
        if trip != ("std::get(sizeData)", "std::get(sizeData)", "(maxBlockSize / sizeOfElement)"):
            chk.violation(r_sib, key, "%s derives (sizeOfElement, maxBlockSize, maxNumberOfElements) as %s; the other sites use (get<0>, get<1>, maxBlockSize / sizeOfElement)" % (key, trip), f["file"], f["l"])
        gets = [x for x in walk(f["body"]) if x["k"] == "Decl" for v in x["vars"] if v["n"] in ("sizeOfElement", "maxBlockSize")]
        idx = {}
        for x in walk(f["body"]):
            if x["k"] == "Decl":
                for v in x["vars"]:
                    if v["n"] in ("sizeOfElement", "maxBlockSize") and v.get("init"):
                        c = [y for y in walk(v["init"]) if y["k"] == "Call" and (y.get("fn") or "").endswith("std::get")]
                        if c:
                            idx[v["n"]] = (c[0].get("targs") or ["?"])[0]
        if idx != {"sizeOfElement": "0", "maxBlockSize": "1"}:
            chk.violation(r_sib, key + ":idx", "%s reads tuple fields %s; element size is field 0 and block bytes field 1" % (key, idx), f["file"], f["l"])
    want_adj = "B = 1*B*E*e0^-1 ; e0 = 1*E"
    for key, (cond, e) in adj.items():
        ok = e == want_adj and cond in ("(type == C0NN)", "(arrType == C0NN)", "(E > sizeOfChar)", "(element_size > sizeOfChar)")
        if not ok:
            chk.violation(r_sib, key + ":c0nn", "%s adjusts the block geometry for long strings as `%s` under `%s`; the other sites use block bytes = (840 / 8) * E, element size = E for C0NN" % (key, e, cond), F_UTIL, None)
    for need in ("writeBinaryCharArray/2", "readBinaryArray/", "sizeOnDiskBinary/"):
        if need not in adj:
            chk.violation(r_sib, need + ":c0nn-missing", "%s has lost the C0NN block-geometry adjustment" % need, F_UTIL, None)
    # the writer keys the adjustment on element_size > 8: every caller must pass an element size >= 8
    wr = [f for f in fx.fns if f["q"] == "Opm::EclIO::EclOutput::write" and f["file"].endswith("EclOutput.cpp")]
    for f in wr:
        for c in walk_fn(f):
            if c["k"] == "MCall" and c.get("m") == "writeBinaryCharArray" and len(c.get("a", [])) == 2:
                a = show(c["a"][1])
                # accepted: the literal constant, or a value used under `if (<same> > sizeOfChar)`
                ok = a == "Opm::EclIO::sizeOfChar"
                if not ok:
                    for iff in [n for n in walk_fn(f) if n["k"] == "If"]:
                        if any(x is c for x in walk(iff["then"])) and show(iff["cond"]).replace("Opm::EclIO::", "") == "(%s > sizeOfChar)" % a:
                            ok = True
                chk.instance(r_sib, "caller:%d" % c["l"], sample=dict(element_size=a, at_least_8=ok))
                if not ok:
                    chk.violation(r_sib, "caller:%s" % a, "EclOutput::write passes element size `%s` to writeBinaryCharArray without ensuring it exceeds sizeOfChar: writer and reader would disagree on the block geometry" % a, f["file"], c["l"])

    # ---- C07.bracket
    r_br = chk.rule("C07.bracket", "every binary record is written as head, data, tail with head == tail == flipped byte count; the reader checks count range and head == tail", floor=4)
    for q, npar in sites[:3]:
        f = [x for x in fx.fn(q) if npar is None or len(x["params"]) == npar][0]
        key = "%s/%s" % (q.split("::")[-1], npar if npar else "")
        loops = [n for n in walk(f["body"]) if n["k"] == "While"]
        if len(loops) != 1:
            raise core.AnalysisBroken("%s: block loop not found" % key)
        lb = stmt_list(loops[0]["body"])
        ws = [(i, w) for i, s in enumerate(lb) for w in stream_writes(s) if s["k"] in ("MCall",)]
        tops = [i for i, s in enumerate(lb) if s["k"] == "MCall" and s.get("m") == "write" and show(strip(s["a"][0])) == "(&dhead)"]
        dh = [show(strip(x["c"][1])) for x in walk(loops[0]["body"]) if x["k"] == "Bin" and x["op"] == "=" and show(x["c"][0]) == "dhead"]
        dh += [show(strip(v["init"])) for x in walk(loops[0]["body"]) if x["k"] == "Decl" for v in x["vars"] if v["n"] == "dhead" and v.get("init")]
        datai = [i for i, s in enumerate(lb) if any(True for _ in stream_writes(s)) and i not in tops]
        chk.instance(r_br, key, sample=dict(site=key, head_tail_at=tops, data_at=datai, dhead=dh))
        okd = len(dh) == 1 and re.match(r"^Opm::EclIO::flipEndianInt\(\((num|numElm) \* sizeOfElement\)\)$", dh[0])
        if len(tops) != 2 or not datai or not (tops[0] < min(datai) and max(datai) < tops[1]) or tops[1] != len(lb) - 1 or not okd:
            chk.violation(r_br, key, "%s: a block must be written as write(&dhead,4), data, write(&dhead,4) with dhead = flipEndianInt(num * sizeOfElement) (found head/tail at %s, data at %s, dhead = %s)" % (key, tops, datai, dh), f["file"], loops[0]["l"])
        for i in tops:
            if nbytes(lb[i]["a"][1]) != 4:
                chk.violation(r_br, key + ":marker", "%s: the record marker is not 4 bytes" % key, f["file"], lb[i]["l"])
    check_reader_bracket(chk, fx, r_br)

    # ---- C07.wrap: formatted writers start a new line at every block boundary
    r_wr = chk.rule("C07.wrap", "in every formatted array writer the counter of the line-wrap test (c % nColumns) restarts at each block boundary - it is the induction variable of a loop nested in the block loop, or it is reset to 0 when c % maxBlockSize == 0 - because the size arithmetic and the readers count lines per block", floor=4)
    fo_w = chk.facts(["opm/io/eclipse/EclOutput.cpp"])
    for f in fo_w.fns:
        if not f.get("body") or not f["file"].endswith("EclOutput.cpp") or not f["n"].startswith("writeFormatted") or "Array" not in f["n"]:
            continue
        loops = []

        def visit(n, stack):
            if n["k"] in ("For", "While", "Do", "ForRange"):
                loops.append((n, list(stack)))
                stack = stack + [n]
            for v in n.values():
                for y in (v if isinstance(v, list) else [v]):
                    if isinstance(y, dict) and "k" in y:
                        visit(y, stack)
        visit(f["body"], [])
        tests = []
        if "maxBlockSize" not in show(f["body"]):
            # no block structure at all: right only if a block holds a whole number of lines
            hx = chk.facts(["opm/io/eclipse/EclOutput.cpp"], files_re="^/repo/opm/io/eclipse/EclIOdata.hpp$")
            cv = {v["n"]: v.get("ev") for v in hx.vars}
            mb, nc = cv.get("MaxNumBlockChar"), cv.get("numColumnsChar")
            key = "%s:unblocked" % f["n"]
            chk.instance(r_wr, key, sample=dict(function=f["q"], block_elements=mb, columns=nc))
            if mb is None or nc is None:
                chk.fail_broken("C07.wrap: MaxNumBlockChar / numColumnsChar not found in EclIOdata.hpp")
            elif mb % nc != 0:
                chk.violation(r_wr, key, "%s writes CHAR arrays without block structure, which is right only while a block (%d elements) holds a whole number of lines (%d per line)" % (f["q"], mb, nc), f["file"], f["l"])
            continue
        for n in walk(f["body"]):
            if n["k"] == "Bin" and n.get("op") == "%" and strip(n["c"][1])["k"] == "Ref" and strip(n["c"][1])["n"] == "nColumns":
                vs = [x["n"] for x in walk(n["c"][0]) if x["k"] == "Ref" and x.get("d") in ("Var", "Parm")]
                if len(vs) == 1:
                    tests.append((vs[0], n))
        for v, n in tests:
            # (a) induction variable of a nested loop
            nested_iv = False
            for lp, outer in loops:
                if lp["k"] == "For" and isinstance(lp.get("init"), dict) and lp["init"]["k"] == "Decl" and lp["init"]["vars"][0]["n"] == v and outer and any(x is n for x in walk(lp["body"])):
                    nested_iv = True
            # (b) reset at the block boundary
            reset = False
            for i_ in walk(f["body"]):
                if i_["k"] == "If" and "maxBlockSize" in show(i_["cond"]) and "%" in show(i_["cond"]) and v in show(i_["cond"]):
                    for a_ in walk(i_["then"]):
                        if a_["k"] == "Bin" and a_.get("asg") and a_["op"] == "=" and strip(a_["c"][0]).get("n") == v and strip(a_["c"][1]).get("k") == "Int" and strip(a_["c"][1])["v"] == 0:
                            reset = True
            # (c) the variable is a size that is itself block-local (declared inside the block loop)
            local_decl = False
            for lp, outer in loops:
                for d in walk(lp["body"]):
                    if d["k"] == "Decl" and any(x["n"] == v for x in d["vars"]) and any(y is n for y in walk(lp["body"])):
                        local_decl = True
            key = "%s:%s@%d" % (f["n"], v, n["l"] - f["l"])
            chk.instance(r_wr, key, sample=dict(function=f["q"], counter=v, test=show(n)[:50], nested_induction_variable=nested_iv, reset_at_block_boundary=reset, block_local=local_decl))
            if not (nested_iv or reset or local_decl):
                chk.violation(r_wr, key, "%s wraps lines on `%s`, but `%s` neither restarts with each block of the array nor is reset at the block boundary: from the second block on the line breaks fall at other elements than sizeOnDiskFormatted and the readers assume, and the arrays that follow cannot be located" % (f["q"], show(n)[:40], v), f["file"], n["l"])

    # ---- C07.fmtbuf: snprintf buffers hold the longest text their format can produce
    r_fb = chk.rule("C07.fmtbuf", "every snprintf of a floating-point value in EclOutput.cpp (%W.PE) writes into a buffer with room for the longest result - sign, digit, point, P digits, E, exponent sign and 3 exponent digits for double (2 for float) - plus the terminator; a shorter buffer silently drops the last exponent digit", floor=4)
    fo = chk.facts(["opm/io/eclipse/EclOutput.cpp"])
    for f in fo.fns:
        if not f.get("body") or not f["file"].endswith("EclOutput.cpp"):
            continue
        for n in walk(f["body"]):
            if n["k"] != "Call" or not (n.get("fn") or "").endswith("snprintf") or len(n.get("a", [])) < 4:
                continue
            fmt_ = strip(n["a"][2])
            if fmt_["k"] != "Str":
                continue
            m_ = re.match(r"^%(\d+)\.(\d+)[Ee]$", fmt_["v"])
            if not m_:
                continue
            W, P = int(m_.group(1)), int(m_.group(2))
            size = strip(n["a"][1]).get("ev")
            at = (strip(n["a"][3]).get("t") or "")
            expd = 2 if at.replace("const ", "").strip() == "float" else 3
            need = max(W, 1 + 1 + 1 + P + 1 + 1 + expd) + 1
            key = "%s@%s" % (f["n"], fmt_["v"])
            chk.instance(r_fb, key, sample=dict(function=f["q"], format=fmt_["v"], argument_type=at, buffer_bytes=size, needed=need))
            if size is None:
                chk.fail_broken("C07.fmtbuf: size argument of snprintf in %s is not a compile-time constant" % f["q"])
            elif size < need:
                chk.violation(r_fb, key, "%s formats a %s with \"%s\" into a buffer of %d bytes; a negative value with a %d-digit exponent needs %d: snprintf drops the last exponent digit and the file holds another number" % (f["q"], at, fmt_["v"], size, expd, need), f["file"], n["l"])

    # ---- C07.fmtexp: the formatted DOUB writer drops the 'D' for 3-digit exponents and may emit a leading '-'
    r_fe = chk.rule("C07.fmtexp", "formatted DOUB: the writer omits the exponent letter exactly for 3-digit exponents; the reader re-inserts it before the exponent's sign, never before the mantissa's", floor=2)
    wd = fx.fn1("Opm::EclIO::EclOutput::make_doub_string_ecl")
    env = {v["n"]: show(v.get("init")) for n in walk(wd["body"]) if n["k"] == "Decl" for v in n["vars"]}
    chk.instance(r_fe, "writer", sample=env.get("use_exp_char"))
    if env.get("use_exp_char") != "((exp >= (-100)) && (exp < 99))":
        chk.violation(r_fe, "writer", "make_doub_string_ecl writes the exponent letter when %s; three-digit exponents (exp+1 outside -99..99) have no room for it" % env.get("use_exp_char"), wd["file"], wd["l"])
    neg = any('"-0."' in show(x) for x in walk(wd["body"]) if x["k"] == "Str" or x["k"] == "OpCall")
    rdb = fx.fn1("Opm::EclIO::readFormattedDoubArray")
    srch = [c for c in walk(rdb["body"]) if c["k"] == "MCall" and c.get("m") in ("find_first_of", "find_last_of", "rfind", "find") and any(x["k"] == "Str" and set(x["v"]) == set("-+") for x in walk(c["a"][0]))]
    for c in srch:
        start = None
        if c["m"] == "find_first_of" or c["m"] == "find":
            a1 = c["a"][1] if len(c["a"]) > 1 else None
            start = 0 if a1 is None or a1["k"] == "DefArg" else strip(a1).get("v", strip(a1).get("ev"))
        chk.instance(r_fe, "reader:%d" % c["l"], sample=dict(search=c["m"], start=start, writer_emits_leading_minus=neg))
        if c["m"] in ("find_first_of", "find") and (start is None or start < 1) and neg:
            chk.violation(r_fe, "reader:sign", "readFormattedDoubArray looks for the exponent sign from position %s: for a negative value without exponent letter (3-digit exponent) it finds the mantissa's '-' and inserts the 'E' in front of the number" % start, rdb["file"], c["l"])
    if not srch:
        chk.violation(r_fe, "reader:missing", "readFormattedDoubArray no longer restores the exponent letter the writer drops for 3-digit exponents", rdb["file"], rdb["l"])
    _run_rest(chk, fx)


def check_reader_bracket(chk, fx, r_br):
    ra = fx.fn1("Opm::EclIO::readBinaryArray")
    loops = [n for n in walk(ra["body"]) if n["k"] == "While"]
    txt = show(loops[0]["body"]) if loops else ""
    conds = [show(n["cond"]) for n in walk(ra["body"]) if n["k"] == "If" and any(x["k"] == "Throw" for x in walk(n["then"]))]
    chk.instance(r_br, "readBinaryArray", sample=conds)
    need = ["((num > maxNumberOfElements) || (num < 0))", "(dhead != dtail)"]
    for c in need:
        if c not in conds:
            chk.violation(r_br, "readBinaryArray:" + c, "readBinaryArray no longer rejects a block when %s" % c, ra["file"], ra["l"])
    if "(dhead = Opm::EclIO::flipEndianInt(dhead))" not in txt or "(dtail = Opm::EclIO::flipEndianInt(dtail))" not in txt or "int const num = (dhead / sizeOfElement);" not in txt.replace("const int", "int const"):
        chk.violation(r_br, "readBinaryArray:flip", "readBinaryArray must byte-swap head and tail and derive the element count as dhead / sizeOfElement", ra["file"], ra["l"])
    if not any("rest != 0" in c and "num < maxNumberOfElements" in c for c in conds):
        chk.violation(r_br, "readBinaryArray:count", "readBinaryArray no longer rejects a short block that is not the last one", ra["file"], ra["l"])



def _run_rest(chk, fx):
    F_OUT = core.REPO + '/' + OUT
    F_UTIL = core.REPO + '/' + UTIL
    sites = [("Opm::EclIO::EclOutput::writeBinaryArray", None), ("Opm::EclIO::EclOutput::writeBinaryCharArray", 2), ("Opm::EclIO::EclOutput::writeBinaryCharArray", 1),
             ("Opm::EclIO::readBinaryArray", None), ("Opm::EclIO::sizeOnDiskBinary", None)]
    # ---- C07.flip
    r_fl = chk.rule("C07.flip", "every multi-byte value crosses the byte swap of its own type exactly once on the way out and on the way in", floor=7)
    wa = fx.fn1("Opm::EclIO::EclOutput::writeBinaryArray")
    WANTF = {"INTE": ("flipEndianInt", "int"), "REAL": ("flipEndianFloat", "float"), "DOUB": ("flipEndianDouble", "double")}
    for iff in [n for n in walk(wa["body"]) if n["k"] == "If"]:
        m = re.match(r"^\(arrType == Opm::EclIO::(\w+)\)$", show(iff["cond"]))
        if not m or m.group(1) not in WANTF:
            continue
        t = m.group(1)
        fl = [((x.get("fn") or "") + show(x.get("callee"))).replace("_", "").split("::")[-1] for x in walk(iff["then"]) if x["k"] == "Call" and "flipEndian" in ((x.get("fn") or "") + show(x.get("callee")))]
        szs = [x.get("t") for x in walk(iff["then"]) if x["k"] == "SizeOf"]
        wr_ = [w[0] for w in stream_writes(iff["then"])]
        chk.instance(r_fl, "write:" + t, sample=dict(type=t, flip=fl, sizeof=szs, writes=wr_))
        if fl != [WANTF[t][0]] or szs != [WANTF[t][1]] or wr_ != ["flipped_data.data()"]:
            chk.violation(r_fl, "write:" + t, "writeBinaryArray(%s) must swap every element with %s and write the swapped buffer with sizeof(%s) (found %s, sizeof %s, writes %s)" % (t, WANTF[t][0], WANTF[t][1], fl, szs, wr_), wa["file"], iff["l"])
    for q, flipf, t, sz in (("readBinaryInteArray", "flipEndianInt", "INTE", "sizeOfInte"), ("readBinaryRealArray", "flipEndianFloat", "REAL", "sizeOfReal"), ("readBinaryDoubArray", "flipEndianDouble", "DOUB", "sizeOfDoub")):
        f = fx.fn1("Opm::EclIO::" + q)
        txt = show(f["body"])
        env = {v["n"]: show(v.get("init")) for n in walk(f["body"]) if n["k"] == "Decl" for v in n["vars"]}
        call = [c for c in walk(f["body"]) if c["k"] == "Call" and (c.get("fn") or "").endswith("readBinaryArray")]
        args = [show(a).replace("Opm::EclIO::", "") for a in call[0]["a"]] if call else []
        chk.instance(r_fl, "read:" + t, sample=dict(reader=q, flip=env.get("f"), args=args[2:]))
        if ("::" + flipf) not in (env.get("f") or "").replace("}", "") + " " or not (env.get("f") or "").rstrip("}").endswith(flipf) or len(args) < 5 or args[2] != t or args[4] != sz:
            chk.violation(r_fl, "read:" + t, "%s must read %s blocks with %s and element size %s (found f = %s, args %s)" % (q, t, flipf, sz, env.get("f"), args), f["file"], f["l"])
    for q, n_, builtin in (("flipEndianInt", 4, "__builtin_bswap32"), ("flipEndianFloat", 4, None), ("flipEndianDouble", 8, None)):
        f = fx.fn1("Opm::EclIO::" + q)
        txt = show(f["body"])
        ok = (builtin in txt) if builtin else ("std::reverse" in txt and "+ %d)" % n_ in txt)
        chk.instance(r_fl, "impl:" + q, sample=txt[:120])
        if not ok:
            chk.violation(r_fl, "impl:" + q, "%s no longer reverses exactly %d bytes" % (q, n_), f["file"], f["l"])

    # ---- C07.logi
    r_lg = chk.rule("C07.logi", "LOGI values are written as the all-ones / IX true word or zero and read back to the same truth value", floor=2)
    env = {v["n"]: show(v.get("init")).replace("Opm::EclIO::", "") for n in walk(wa["body"]) if n["k"] == "Decl" for v in n["vars"]}
    chk.instance(r_lg, "write", sample=env.get("logi_true_val"))
    if env.get("logi_true_val") != "(this.ix_standard ? true_value_ix : true_value_ecl)":
        chk.violation(r_lg, "write", "the word written for true is %s" % env.get("logi_true_val"), wa["file"], wa["l"])
    lg = [iff for iff in walk(wa["body"]) if iff["k"] == "If" and show(iff["cond"]) == "(arrType == Opm::EclIO::LOGI)"]
    asg = sorted(show(strip(x["c"][1])).replace("Opm::EclIO::", "") for x in walk(lg[0]["then"]) if x["k"] == "Bin" and x["op"] == "=" and "logi_data[" in show(x["c"][0])) if lg else []
    if asg != ["false_value", "logi_true_val"]:
        chk.violation(r_lg, "write:values", "LOGI elements are written as %s" % asg, wa["file"], wa["l"])
    rl = fx.fn1("Opm::EclIO::readBinaryLogiArray")
    lam = [n for n in walk(rl["body"]) if n["k"] == "Lambda"][0]
    m = {}
    for iff in [n for n in walk(lam["body"]) if n["k"] == "If"]:
        mm = re.match(r"^\(intVal == Opm::EclIO::(\w+)\)$", show(iff["cond"]))
        vals = [show(x["c"][1]) for x in walk(iff["then"]) if x["k"] == "Bin" and x["op"] == "=" and show(x["c"][0]) == "value"]
        if mm and vals:
            m[mm.group(1)] = vals[0]
    chk.instance(r_lg, "read", sample=m)
    if m != {"true_value_ecl": "true", "false_value": "false", "true_value_ix": "true"}:
        chk.violation(r_lg, "read", "readBinaryLogiArray maps the stored words as %s" % m, rl["file"], rl["l"])

    # ---- C07.size
    r_sz = chk.rule("C07.size", "sizeOnDiskBinary = full blocks x (block bytes + 8) + (rest elements x element size + 8 if any): the byte count the writer produces", floor=1)
    sd = fx.fn1("Opm::EclIO::sizeOnDiskBinary")
    env = {}
    for n in walk(sd["body"]):
        if n["k"] == "Decl":
            for v in n["vars"]:
                if v.get("init"):
                    env[v["n"]] = v["init"]
        if n["k"] == "Bin" and n["op"] == "=" and strip(n["c"][0])["k"] == "Ref":
            env.setdefault("=" + strip(n["c"][0])["n"], []).append(n["c"][1])
    ATOM = {"maxBlockSize": "B", "sizeOfElement": "e", "maxNumberOfElements": "m", "num": "n", "Opm::EclIO::sizeOfInte": "i"}

    def leaf(n):
        if n["k"] == "Ref":
            nm = n.get("q") or n["n"]
            if nm in ATOM:
                return ATOM[nm]
            if n["n"] in ATOM:
                return ATOM[n["n"]]
            if n["n"] == "numBlocks":
                return "q"
            if n["n"] == "rest":
                return "r"
        return None
    sub = {k: v for k, v in env.items() if k in ("size2Inte", "sizeFullBlocks")}
    try:
        full = poly(env["sizeFullBlocks"], leaf, sub)
        last = [poly(x, leaf, sub) for x in env.get("=sizeLastBlock", [])]
        total = [show(x) for x in env.get("=size", [])]
        chk.instance(r_sz, "formula", sample=dict(full=poly_str(full), last=[poly_str(x) for x in last], total=total))
        ok = full == P("q*B + 2*q*i".replace("2*", "")) or full == {(("B", 1), ("q", 1)): Fraction(1), (("i", 1), ("q", 1)): Fraction(2)}
        okl = len(last) == 1 and last[0] == {(("e", 1), ("r", 1)): Fraction(1), (("i", 1),): Fraction(2)}
        okq = show(decast(env["numBlocks"])) == "(num / maxNumberOfElements)" and show(decast(env["rest"])).replace(" ", "") == "(num-(numBlocks*maxNumberOfElements))"
        if not (ok and okl and okq and "(sizeFullBlocks + sizeLastBlock)" in total):
            chk.violation(r_sz, "formula", "sizeOnDiskBinary computes full = %s, last = %s, numBlocks = %s, rest = %s; expected q*(B + 2*4) + (r*e + 2*4) with q = num / m, r = num - q*m" % (
                poly_str(full), [poly_str(x) for x in last], show(strip(env["numBlocks"])), show(strip(env["rest"]))), sd["file"], sd["l"])
    except KeyError as e:
        raise core.AnalysisBroken("sizeOnDiskBinary: local %s vanished" % e)
    # ---- C07.typesel: C++ element type -> array type tag, in every writer
    r_ts = chk.rule("C07.typesel", "the writers select the array type from the element type: typeid int -> INTE, float -> REAL, double -> DOUB, bool -> LOGI (anything else MESS), the same in writeBinaryArray and writeFormattedArray", floor=8)
    WANT_T = {"int": "INTE", "float": "REAL", "double": "DOUB", "bool": "LOGI"}
    for wname in ("writeBinaryArray", "writeFormattedArray"):
        ws_ = [f for f in fx.fns if f["n"] == wname and f.get("body") and f["file"].endswith("EclOutput.cpp")]
        if len(ws_) != 1:
            raise core.AnalysisBroken("%s: %d definitions" % (wname, len(ws_)))
        w = ws_[0]
        got = {}
        for n in walk(w["body"]):
            if n["k"] != "If" or not isinstance(n.get("cond"), dict):
                continue
            c = strip(n["cond"])
            if c.get("k") == "OpCall" and c.get("op") == "==" and len(c.get("a") or []) == 2 and all(strip(x).get("k") == "Typeid" for x in c["a"]):
                ofs = [strip(x).get("of") or "" for x in c["a"]]
                conc = [o for o in ofs if not re.search(r"\bT\b", o)]
                if len(conc) != 1:
                    continue
                m = re.fullmatch(r"(?:std::)?vector<(\w+)(?:, .*)?>|(\w+)", conc[0].replace("const ", "").strip())
                el = (m.group(1) or m.group(2)) if m else conc[0]
                asg = [x for x in stmt_list(n["then"]) if x["k"] == "Bin" and x.get("asg") and x.get("op") == "="]
                tag = [strip(x["c"][1]).get("n") for x in asg if strip(x["c"][1]).get("d") == "Enum"]
                got[el] = (tag, n["l"])
        for el, want in WANT_T.items():
            key = "%s:%s" % (wname, el)
            tag, ln = got.get(el, ([], w["l"]))
            chk.instance(r_ts, key, sample=dict(writer=wname, element=el, tag=tag))
            if tag != [want]:
                chk.violation(r_ts, key, "%s tags a vector of %s as %s; the header must say %s (the reader picks element size and conversion from the tag)" % (wname, el, tag or "nothing (MESS)", want), w["file"], ln)
        init = [v for n in walk(w["body"]) if n["k"] == "Decl" for v in n["vars"] if (v.get("t") or "").endswith("eclArrType")]
        if len(init) != 1 or strip(init[0].get("init") or {}).get("n") != "MESS":
            chk.violation(r_ts, wname + ":default", "%s: the array type no longer defaults to MESS before the element type is inspected" % wname, w["file"], w["l"])

    # ---- C07.blockloop: how the binary writers cut an array into records
    r_bl = chk.rule("C07.blockloop", "the three unformatted array writers of EclOutput (numeric/logical, strings, padded strings) cut the payload into records the same way: the byte count starts as size x element size; while it is positive a record takes min(rest, block bytes) - (rest > block) ? block / element : rest / element elements, rest becomes rest - block resp. 0 - (compared as symbolic terms, if/else and ?: alike); the element loop of a record runs from 0 to that count in steps of one, and the cursor into the data advances exactly once per element (data[m + offset] with offset += count after the record, data[n] with n++ in the loop, or an iterator advanced in the loop header)", floor=3)
    from verif import symb as syb
    bw = [f for f in fx.fns if f["n"] in ("writeBinaryArray", "writeBinaryCharArray") and f.get("body") and f["file"].endswith("EclOutput.cpp")]
    if len(bw) != 3:
        raise core.AnalysisBroken("EclOutput binary writers: %d found (3 expected)" % len(bw))
    for f in bw:
        key = "%s/%s" % (f["n"], (f["params"][0]["t"] if f["params"] else "")[:40])
        top = stmt_list(f["body"])
        whiles = [n for n in top if n["k"] == "While"]
        problems = []
        if len(whiles) != 1:
            problems.append("no single record loop")
        else:
            wl = whiles[0]
            decl_all = {v["n"]: v for n in walk(f["body"]) if n["k"] == "Decl" for v in n["vars"]}
            el = [k_ for k_, v in decl_all.items() if isinstance(v.get("init"), dict) and re.search(r"std::get<0>\(|get\(sizeData\)|std::get\(", show(v["init"])) and "0" in re.findall(r"get<(\d)>", show(v["init"]) + "get<9>")[:1]]
            names = {"e": None, "B": None, "M": None}
            for k_, v in decl_all.items():
                if not isinstance(v.get("init"), dict):
                    continue
                i0 = strip(v["init"])
                if i0.get("k") == "Call" and i0.get("fn") == "std::get" and (i0.get("targs") or [None])[0] in ("0", "1"):
                    names["e" if i0["targs"][0] == "0" else "B"] = k_
            for k_, v in decl_all.items():
                if isinstance(v.get("init"), dict) and names["B"] and names["e"] and show(strip(v["init"])) == "(%s / %s)" % (names["B"], names["e"]):
                    names["M"] = k_
            cnd = strip(wl["cond"])
            restv = strip(cnd["c"][0]).get("n") if cnd.get("k") == "Bin" and cnd.get("op") == ">" and show(strip(cnd["c"][1])) == "0" else None
            if restv is None or None in names.values():
                problems.append("record loop is not `while (rest > 0)` or element size / block bytes / elements per block not identified (%s, %s)" % (show(cnd), names))
            else:
                # initial byte count
                init_r = None
                for n in top:
                    if n["k"] == "Decl":
                        for v in n["vars"]:
                            if v["n"] == restv and isinstance(v.get("init"), dict):
                                init_r = v["init"]
                    elif n["k"] == "Bin" and n.get("asg") and n["op"] == "=" and strip(n["c"][0]).get("n") == restv and n is not wl:
                        init_r = n["c"][1]
                R_, B_, e_ = syb.S("R"), syb.S("B"), syb.S("e")

                def leaf_b(x):
                    if x.get("k") == "Ref":
                        if x.get("n") == names["e"]:
                            return e_
                        if x.get("n") == names["B"]:
                            return B_
                        if x.get("n") == names["M"]:
                            return syb.div(B_, e_)
                        if x.get("n") in ("size",) or (x.get("n") in decl_all and "size()" in show(decl_all[x["n"]].get("init"))):
                            return syb.S("N")
                    if x.get("k") == "MCall" and x.get("m") == "size":
                        return syb.S("N")
                    return None
                evb = syb.Eval(leaf_b, set(decl_all) | {restv})
                t0 = evb.term(init_r, {}) if init_r is not None else None
                if t0 != syb.mul(syb.S("N"), e_):
                    problems.append("the byte count starts as %s, required size x element size" % syb.show_term(t0))
                body_w = stmt_list(wl["body"])
                # statements up to the first write call
                pre = []
                for n in body_w:
                    if n["k"] == "MCall" and n.get("m") == "write":
                        break
                    pre.append(n)
                env_b = evb.run(pre, {restv: R_})
                # at rest == block both branches give the same record, so `>` and `>=` are the same split
                cntv = [k_ for k_, v in env_b.items() if v is not None and k_ != restv and v in (syb.cond(("gt", R_, B_), syb.div(B_, e_), syb.div(R_, e_)), syb.cond(("ge", R_, B_), syb.div(B_, e_), syb.div(R_, e_)))]
                want_rest = syb.cond(("gt", R_, B_), syb.sub(R_, B_), syb.I(0))
                if env_b.get(restv) == syb.cond(("ge", R_, B_), syb.sub(R_, B_), syb.I(0)):
                    want_rest = env_b.get(restv)
                if len(cntv) != 1:
                    problems.append("no variable holds (rest > block) ? block / element : rest / element before the head marker is written (%s)" % {k_: syb.show_term(v) for k_, v in env_b.items() if k_ in decl_all and v is not None and k_ not in names.values()})
                if env_b.get(restv) != want_rest:
                    problems.append("after a record the byte count is %s, required (rest > block) ? rest - block : 0" % syb.show_term(env_b.get(restv)))
                if len(cntv) == 1:
                    cv = cntv[0]
                    eloops = [n for n in walk(wl["body"]) if n["k"] == "For"]
                    if not eloops:
                        problems.append("no element loop")
                    for lp in eloops:
                        iv = lp["init"]["vars"][0]["n"] if lp.get("init") and lp["init"].get("k") == "Decl" else None
                        st0 = evb.term(lp["init"]["vars"][0]["init"], {}) if iv else None
                        inc_t = show(lp.get("inc"))
                        if not (iv and st0 == syb.I(0) and show(lp["cond"]) == "(%s < %s)" % (iv, cv) and re.search(r"\(\+\+%s\)|\(%s\+\+\)" % (iv, iv), inc_t)):
                            problems.append("element loop for (%s; %s; %s) is not 0 .. count in steps of one" % (show(lp.get("init"))[:40], show(lp["cond"]), inc_t))
                            continue
                        bt = show(lp["body"])
                        m_off = re.search(r"data\[\(%s \+ (\w+)\)\]|data\[\((\w+) \+ %s\)\]" % (iv, iv), bt)
                        m_n = re.search(r"data\[(\w+)\]", bt)
                        if m_off:
                            off = m_off.group(1) or m_off.group(2)
                            adv = [show(x) for x in body_w if x["k"] == "Bin" and x.get("asg") and strip(x["c"][0]).get("n") == off]
                            if adv != ["(%s += %s)" % (off, cv)]:
                                problems.append("the offset `%s` advances by %s per record, required += %s" % (off, adv, cv))
                        elif m_n and m_n.group(1) != iv:
                            nvar = m_n.group(1)
                            adv = [show(x) for x in stmt_list(lp["body"]) if x["k"] == "Un" and strip(x["c"][0]).get("n") == nvar]
                            if adv not in (["(%s++)" % nvar], ["(++%s)" % nvar]):
                                problems.append("the cursor `%s` advances %s per element, required once" % (nvar, adv))
                        else:
                            its = re.findall(r"\(\+\+(\w+)\)", inc_t)
                            others = [x for x in its if x != iv]
                            if len(others) != 1 or ("->%s" % others[0]) not in bt.replace("(->", "->").replace(")", "") and others[0] not in bt:
                                problems.append("no data cursor advancing once per element found in the element loop")
        chk.instance(r_bl, key, sample=dict(function=f["q"], line=f["l"], problems=problems))
        for pr in problems:
            chk.violation(r_bl, key + ":" + pr[:30], "%s (line %d): %s" % (f["q"], f["l"], pr), f["file"], f["l"])

    # ---- C07.getsel: typed accessors ask for the array type that belongs to the container they return from
    r_gs = chk.rule("C07.getsel", "the typed read accessors of the result-file classes (EclFile, ERst, EInit, EGrid): every getImpl(index, TYPE, container, ...) pairs INTE with inte_array, REAL with real_array, DOUB with doub_array, LOGI with logi_array; an accessor that RETURNS strings from char_array accepts both string types - it passes the array's own type array_type[index] (after checking it is CHAR or C0NN) or delegates to get<std::string>(index) - so an array that can be read by index can be read by name", floor=25)
    gx_units = [u for u in ("opm/io/eclipse/EclFile.cpp", "opm/io/eclipse/ERst.cpp", "opm/io/eclipse/EInit.cpp", "opm/io/eclipse/EGrid.cpp", "opm/io/eclipse/ERft.cpp", "opm/io/eclipse/ESmry.cpp")]
    gxf = chk.facts(gx_units)
    PAIR = {"INTE": "inte_array", "REAL": "real_array", "DOUB": "doub_array", "LOGI": "logi_array"}
    for f in gxf.fns:
        if not f.get("body") or not f["file"].startswith(core.REPO + "/opm/io/eclipse/"):
            continue
        for n in walk(f["body"]):
            if n["k"] not in ("Call", "MCall") or (n.get("m") or (n.get("fn") or "").split("::")[-1]) != "getImpl" or len(n.get("a") or []) < 3:
                continue
            ty = strip(n["a"][1])
            cont = show(strip(n["a"][2])).replace("this.", "")
            tname = ty.get("n") if ty.get("k") == "Ref" and ty.get("d") == "Enum" else None
            key = "%s@%d" % (f["q"], n["l"])
            returned = any(r_["k"] == "Return" and isinstance(r_.get("e"), dict) and any(x is n for x in walk(r_["e"])) for r_ in walk(f["body"]))
            chk.instance(r_gs, key, sample=dict(function=f["q"], line=n["l"], type=show(ty), container=cont, returned=returned))
            if tname in PAIR:
                if cont != PAIR[tname]:
                    chk.violation(r_gs, key, "%s: getImpl asks for type %s but returns from %s (expected %s)" % (f["q"], tname, cont, PAIR[tname]), f["file"], n["l"])
            elif cont in PAIR.values():
                chk.violation(r_gs, key, "%s: getImpl returns from %s with type argument `%s`" % (f["q"], cont, show(ty)), f["file"], n["l"])
            elif cont == "char_array" and returned:
                own = show(ty).replace("this.", "") == "array_type[%s]" % show(strip(n["a"][0]))
                if not own:
                    chk.violation(r_gs, key, "%s returns strings through getImpl(%s, %s, char_array): arrays of the other string type (entries longer than 8 characters are C0NN) are rejected with 'is not of type string' although get<std::string>(index) reads them; pass array_type[index] after the CHAR/C0NN test, or delegate to get<std::string>" % (f["q"], show(n["a"][0]), show(ty)), f["file"], n["l"])

    # ---- C07.payload: what lies between the head and the tail marker of a binary block is read
    r_pl = chk.rule("C07.payload", "readBinaryArray: in every block, between the read of the head marker and the read of the tail marker the payload is read - num elements of the element size into the buffer the values are taken from (per element for strings) - and every element read is appended to the result through the byte-order conversion", floor=2)
    rb_ = [f for f in fx.fns if f["n"] == "readBinaryArray" and f.get("body") and f["file"].endswith("EclUtil.cpp")]
    if len(rb_) != 1:
        raise core.AnalysisBroken("readBinaryArray: %d definitions" % len(rb_))
    rb_ = rb_[0]
    loops = [n for n in walk(rb_["body"]) if n["k"] == "While"]
    if len(loops) != 1:
        raise core.AnalysisBroken("readBinaryArray: block loop not found")
    reads = []

    def collect_reads(n, branch):
        if n["k"] == "If" and n.get("else") is not None and "is_same" in show(n["cond"]):
            collect_reads(n["then"], "string")
            collect_reads(n["else"], "numeric")
            return
        if n["k"] in ("Call", "MCall") and (n.get("m") or meth(n)[0]) == "read" and n.get("a"):
            reads.append((n, branch))
        for ch in __import__("verif.tree", fromlist=["children"]).children(n):
            collect_reads(ch, branch)
    collect_reads(loops[0]["body"], "both")
    marks = [r_ for r_ in reads if r_[1] == "both"]
    for br in ("numeric", "string"):
        pay = [r_ for r_ in reads if r_[1] == br]
        key = "payload:" + br
        ok = False
        detail = [show(r_[0])[:90] for r_ in pay]
        if len(pay) == 1 and len(marks) == 2 and marks[0][0]["l"] < pay[0][0]["l"] < marks[1][0]["l"]:
            a0, a1 = pay[0][0]["a"][0], pay[0][0]["a"][1]
            if br == "numeric":
                # buf.data(), buf.size() * sizeof(T2) with buf declared with num elements
                bufs = {v["n"]: v for n in walk(loops[0]["body"]) if n["k"] == "Decl" for v in n["vars"] if "vector" in (v.get("t") or "")}
                b = [x["n"] for x in walk(a0) if x["k"] == "Ref" and x["n"] in bufs]
                sz = show(decast(a1)).replace(" ", "")
                if len(b) == 1 and re.fullmatch(r"\(%s\.size\(\)\*sizeof\(T2\)\)|\(sizeof\(T2\)\*%s\.size\(\)\)|\(num\*sizeof\(T2\)\)" % (b[0], b[0]), sz) and "num" in show(bufs[b[0]].get("init")):
                    used = [fr for fr in walk(loops[0]["body"]) if fr["k"] == "ForRange" and show(strip(fr["range"])) == b[0] and any(meth(x)[0] == "push_back" and "flip(" in show(x) for x in walk(fr["body"]))]
                    ok = len(used) == 1
            else:
                lp = [fr for fr in walk(loops[0]["body"]) if fr["k"] == "For" and any(x is pay[0][0] for x in walk(fr["body"]))]
                if lp and re.search(r"< num\)", show(lp[0].get("cond"))) and show(decast(a1)) == "sizeOfElement" and any(meth(x)[0] == "push_back" and "flip(" in show(x) for x in walk(lp[0]["body"])):
                    ok = True
        chk.instance(r_pl, key, sample=dict(branch=br, payload_reads=detail, markers=len(marks), ok=ok))
        if not ok:
            chk.violation(r_pl, key, "readBinaryArray (%s elements): between the head and tail markers the block payload is no longer read as num elements into the buffer whose values are converted and appended (payload reads: %s, marker reads: %d): the array comes back empty, zero-filled or shifted" % (br, detail or "none", len(marks)), rb_["file"], loops[0]["l"])

    # ---- C07.mant: the pieces cut out of the printf rendering follow from the format's precision
    r_mt = chk.rule("C07.mant", "make_real_string_ecl / make_doub_string_ecl re-arrange the `%W.PE` rendering d.ddd..E+xx into 0.dddd..E+xx: the leading digit is character 0 (1 for negative values), the P fraction digits start at character 2 (3), the exponent text starts at character P+3 (P+4), and the literal returned for zero has P+1 zeros", floor=10)
    for fname in ("make_real_string_ecl", "make_doub_string_ecl"):
        fs_ = [f for f in fx.fns if f["n"] == fname and f.get("body")]
        if len(fs_) != 1:
            raise core.AnalysisBroken("%s: %d definitions" % (fname, len(fs_)))
        f = fs_[0]
        fmts = [strip(c_["a"][2])["v"] for c_ in walk(f["body"]) if c_["k"] == "Call" and (c_.get("fn") or "").endswith("snprintf") and len(c_.get("a") or []) >= 4 and strip(c_["a"][2]).get("k") == "Str" and re.fullmatch(r"%\d+\.\d+E", strip(c_["a"][2])["v"])]
        if len(fmts) != 1:
            raise core.AnalysisBroken("%s: the %%W.PE snprintf was not found" % fname)
        P_ = int(fmts[0].split(".")[1][:-1])
        pm_ = {}
        for n in walk(f["body"]):
            for ch in __import__("verif.tree", fromlist=["children"]).children(n):
                pm_[id(ch)] = n

        def sign_of(n):
            """'neg' / 'pos' from the enclosing `value < 0` branch or ?: arm"""
            child, p_ = n, pm_.get(id(n))
            while p_ is not None:
                if p_["k"] in ("If", "Cond"):
                    cnd = p_["cond"] if p_["k"] == "If" else p_["c"][0]
                    t = show(decast(cnd)).replace(" ", "")
                    m = re.fullmatch(r"\((\w+)<0(?:\.0)?\)", t)
                    if m:
                        if p_["k"] == "If":
                            if any(x is child for x in walk(p_["then"])):
                                return "neg"
                            if p_.get("else") is not None and any(x is child for x in walk(p_["else"])):
                                return "pos"
                        else:
                            if any(x is child for x in walk(p_["c"][1])):
                                return "neg"
                            if any(x is child for x in walk(p_["c"][2])):
                                return "pos"
                child, p_ = p_, pm_.get(id(p_))
            return None
        seen = {"neg": set(), "pos": set()}
        for n in walk(f["body"]):
            m_, o_ = meth(n)
            if m_ != "substr" or len(n.get("a") or []) != 2:
                continue
            a_, b_ = strip(n["a"][0]), strip(n["a"][1])
            if a_.get("k") != "Int" or b_.get("k") != "Int":
                continue
            sg = sign_of(n)
            if sg is None:
                raise core.AnalysisBroken("%s:%d substr outside a value < 0 branch" % (fname, n["l"]))
            s0 = 1 if sg == "neg" else 0
            a, b = a_["v"], b_["v"]
            role = "lead" if (a, b) == (s0, 1) else "fraction" if (a, b) == (s0 + 2, P_) else "exponent" if a == s0 + P_ + 3 and b >= 3 else None
            key = "%s:%s:substr(%d,%d)@%s" % (fname, sg, a, b, role)
            chk.instance(r_mt, key, sample=dict(function=fname, precision=P_, sign=sg, substr=[a, b], role=role))
            if role is None:
                chk.violation(r_mt, key, "%s: for a %s value the `%s` rendering has its leading digit at %d, its %d fraction digits at %d and its exponent at %d; substr(%d, %d) cuts something else: formatted reals lose or duplicate digits" % (fname, "negative" if sg == "neg" else "positive", fmts[0], s0, P_, s0 + 2, s0 + P_ + 3, a, b), f["file"], n["l"])
            else:
                seen[sg].add(role)
        for sg in ("neg", "pos"):
            miss = {"lead", "fraction", "exponent"} - seen[sg]
            if miss:
                chk.violation(r_mt, "%s:%s:roles" % (fname, sg), "%s: for %s values the pieces %s of the `%s` rendering are no longer used" % (fname, "negative" if sg == "neg" else "positive", sorted(miss), fmts[0]), f["file"], f["l"])
        zero = [strip(x)["v"] for r_ in walk(f["body"]) if r_["k"] == "Return" and r_.get("e") is not None for x in walk(r_["e"]) if x["k"] == "Str" and re.fullmatch(r"0\.0+[ED]\+00", x["v"])]
        key = "%s:zero" % fname
        chk.instance(r_mt, key, sample=dict(function=fname, literal=zero))
        if len(zero) != 1 or zero[0].count("0") != P_ + 1 + 1 + 2:
            chk.violation(r_mt, key, "%s: the literal returned for zero (%s) does not have %d mantissa zeros like every other value" % (fname, zero, P_ + 1), f["file"], f["l"])

    # ---- C07.fsize: the size of a formatted array as the index builder computes it
    r_fz = chk.rule("C07.fsize", "sizeOnDiskFormatted (used to skip over formatted arrays when the file index is built): as a symbolic term over num and the block / column / width triple of block_size_data_formatted, the returned size is [num/M full blocks of M*W characters + ceil(M/C) line ends] + (num%M)*W characters + ceil((num%M)/C) line ends - what writeFormattedArray emits; for C0NN the width is elementSize + 3 and the columns 80 / width (clamped to at least 1); the writers read the same triple from the same tuple fields", floor=5)
    from verif import symb as sy
    fz = [f for f in fx.fns if f["n"] == "sizeOnDiskFormatted" and f.get("body")]
    if len(fz) != 1:
        raise core.AnalysisBroken("sizeOnDiskFormatted: %d definitions" % len(fz))
    fz = fz[0]
    if len(fz["params"]) != 3:
        raise core.AnalysisBroken("sizeOnDiskFormatted: expected (num, type, elementSize)")
    p_num, p_type, p_es = (p_["n"] for p_ in fz["params"])

    def tuple_field(e):
        e = strip(e)
        if e.get("k") == "Call" and (e.get("fn") or "").endswith("std::get") and (e.get("targs") or [None])[0] in ("0", "1", "2") and e.get("a") and strip(e["a"][0]).get("k") == "Ref":
            return int(e["targs"][0]), strip(e["a"][0])["n"]
        return None

    def leaf(e):
        tf = tuple_field(e)
        if tf:
            return sy.S("MCW"[tf[0]])
        if e.get("k") == "Ref" and e.get("d") == "Parm":
            return sy.S({p_num: "num", p_type: "type", p_es: "elementSize"}.get(e["n"], e["n"]))
        if e.get("k") == "Ref" and e.get("d") == "Enum":
            return sy.S(e["n"])
        return None
    top_if = [n for n in stmt_list(fz["body"]) if n["k"] == "If" and n.get("else") is not None]
    rets = [n for n in stmt_list(fz["body"]) if n["k"] == "Return" and n.get("e") is not None]
    if len(top_if) != 1 or len(rets) != 1 or strip(rets[0]["e"]).get("k") != "Ref":
        raise core.AnalysisBroken("sizeOnDiskFormatted: the MESS / data split or the single return of a local was not recognised")
    rv = strip(rets[0]["e"])["n"]
    locs = {v["n"] for n in walk(fz["body"]) if n["k"] == "Decl" for v in n["vars"] if (v.get("t") or "").replace("std::", "") in ("int", "uint64_t", "int64_t", "const int", "long", "unsigned long")}
    ev_ = sy.Eval(leaf, locs)
    mess = show(top_if[0]["cond"]).replace("Opm::EclIO::", "")
    data_branch = top_if[0]["else"] if re.fullmatch(r"\(\w+ == MESS\)", mess) else top_if[0]["then"] if re.fullmatch(r"\(\w+ != MESS\)", mess) else None
    if data_branch is None:
        raise core.AnalysisBroken("sizeOnDiskFormatted: the top-level test is not `type == MESS` (%s)" % mess)
    env0 = ev_.run([n for n in stmt_list(fz["body"]) if n["k"] == "Decl"], {})
    got = ev_.run(stmt_list(data_branch), env0).get(rv)
    N_, M_, C_, W_ = sy.S("num"), sy.S("M"), sy.S("C"), sy.S("W")
    nb, last = sy.div(N_, M_), sy.mod(N_, M_)
    lines_block = sy.cond(sy.gt(sy.mod(M_, C_), sy.I(0)), sy.add(sy.div(M_, C_), sy.I(1)), sy.div(M_, C_))
    size1 = sy.cond(sy.gt(nb, sy.I(0)), sy.mul(nb, sy.add(sy.mul(M_, W_), lines_block)), sy.I(0))
    size2 = sy.add(size1, sy.mul(last, W_), sy.div(last, C_))
    want_t = sy.cond(sy.gt(sy.mod(last, C_), sy.I(0)), sy.add(size2, sy.I(1)), size2)
    chk.instance(r_fz, "formula", sample=dict(returned=sy.show_term(got)[:400], matches=got == want_t))
    if ev_.gave_up or got is None:
        raise core.AnalysisBroken("sizeOnDiskFormatted: the returned size could not be expressed as a term (loop at line %s)" % ev_.gave_up)
    if got != want_t:
        chk.violation(r_fz, "formula", "sizeOnDiskFormatted returns %s; the characters writeFormattedArray emits for num values are %s (M values per block, C per line, W characters each): the index built over a formatted file points into the middle of the following arrays" % (sy.show_term(got), sy.show_term(want_t)), fz["file"], fz["l"])
    # C0NN override of width and columns
    ov = {}
    for n in walk(fz["body"]):
        if n["k"] == "Bin" and n.get("asg") and n.get("op") == "=" and tuple_field(n["c"][0]):
            rhs_ = strip(n["c"][1])
            if rhs_.get("k") == "Call" and (rhs_.get("fn") or "").endswith("std::max") and len(rhs_.get("a") or []) == 2:
                # a lower clamp of the column count (decided by C07.c0nncols): the term is the clamped expression
                cand_ = [a_ for a_ in rhs_["a"] if strip(a_).get("k") != "Int"]
                if len(cand_) == 1:
                    rhs_ = cand_[0]
            ov[tuple_field(n["c"][0])[0]] = (ev_.term(rhs_, {}), n)
    okc = ov.get(2, (None,))[0] == sy.add(sy.S("elementSize"), sy.I(3)) and ov.get(1, (None,))[0] == sy.div(sy.I(80), sy.S("W")) and 0 not in ov
    chk.instance(r_fz, "c0nn", sample=dict(width=sy.show_term(ov.get(2, (None,))[0]), columns=sy.show_term(ov.get(1, (None,))[0])))
    if not okc:
        chk.violation(r_fz, "c0nn", "sizeOnDiskFormatted: for C0NN strings the column width must be elementSize + 3 (two quotes and a blank) and the columns 80 / width; found width = %s, columns = %s" % (sy.show_term(ov.get(2, (None,))[0]), sy.show_term(ov.get(1, (None,))[0])), fz["file"], fz["l"])
    # the writers take the same triple from the same fields and use it for the same purpose
    for wname in ("writeFormattedArray", "writeFormattedCharArray"):
        for w in [f for f in fx.fns if f["n"] == wname and f.get("body") and f["file"].endswith("EclOutput.cpp")]:
            fld = {}
            for n in walk(w["body"]):
                if n["k"] == "Decl":
                    for v in n["vars"]:
                        if isinstance(v.get("init"), dict) and tuple_field(v["init"]) and any(meth(x)[0] is None and x.get("k") == "Call" and (x.get("fn") or "").endswith("block_size_data_formatted") for d2 in walk(w["body"]) if d2["k"] == "Decl" for v2 in d2["vars"] if v2["n"] == tuple_field(v["init"])[1] and isinstance(v2.get("init"), dict) for x in walk(v2["init"])):
                            fld[tuple_field(v["init"])[0]] = v["n"]
            if not fld:
                continue
            setw = {strip(c_["a"][0]).get("n") for c_ in walk(w["body"]) if c_["k"] == "Call" and (c_.get("fn") or "").endswith("setw") and c_.get("a")}
            mods = {}
            for n in walk(w["body"]):
                if n["k"] == "Bin" and n.get("op") == "%" and strip(n["c"][1]).get("k") == "Ref":
                    mods.setdefault(strip(n["c"][1])["n"], 0)
                    mods[strip(n["c"][1])["n"]] += 1
            key = "writer:%s@%d" % (wname, w["l"])
            if wname == "writeFormattedArray":
                okw = set(fld) == {0, 1, 2} and setw <= {fld.get(2)} and bool(setw) and fld.get(1) in mods and fld.get(0) in mods
            else:
                # the string writers pad by hand and need only part of the triple: what they read must be used in its role
                okw = (1 not in fld or fld[1] in mods) and (2 not in fld or fld[2] not in mods) and (0 not in fld or fld[0] != fld.get(1))
            chk.instance(r_fz, key, sample=dict(writer=wname, block=fld.get(0), columns=fld.get(1), width=fld.get(2), setw=sorted(x for x in setw if x), wraps_on=sorted(mods)))
            if not okw:
                chk.violation(r_fz, key, "%s takes (values per block, columns, width) from tuple fields %s and pads with setw(%s), wraps on %s: the triple of block_size_data_formatted is (block, columns, width) in fields 0, 1, 2 and sizeOnDiskFormatted reads it that way" % (wname, fld, sorted(x for x in setw if x), sorted(mods)), w["file"], w["l"])

    # ---- C07.sticky: nothing leaves a persistent formatting state on the output file stream
    r_sk = chk.rule("C07.sticky", "no insertion into the file stream of EclOutput applies a persistent (sticky) manipulator - setfill, setprecision, setbase, left/right/internal, hex/oct, fixed/scientific, showpos, uppercase, boolalpha, showpoint: such a state survives the statement and re-formats every array written afterwards (columns padded with '0', other bases or precisions); fixed-width fields use std::setw, which does not persist, or a private ostringstream", floor=15)
    STICKY_CALL = ("setfill", "setprecision", "setbase", "setiosflags", "resetiosflags")
    STICKY_REF = ("left", "right", "internal", "hex", "oct", "fixed", "scientific", "showpos", "uppercase", "boolalpha", "showpoint", "showbase", "hexfloat", "unitbuf")
    for f in fx.fns:
        if not f.get("body") or not f["file"].endswith("EclOutput.cpp"):
            continue
        tops_seen = set()
        for n in walk(f["body"]):
            if n["k"] != "OpCall" or n.get("op") != "<<" or id(n) in tops_seen:
                continue
            # leftmost operand of the chain
            chain = [n]
            x = n
            while strip(x["a"][0]).get("k") == "OpCall" and strip(x["a"][0]).get("op") == "<<":
                x = strip(x["a"][0])
                chain.append(x)
            for c_ in chain:
                tops_seen.add(id(c_))
            root_ = strip(x["a"][0])
            if not (root_.get("k") == "Mem" and root_.get("n") == "ofileH"):
                continue
            bad = []
            for c_ in chain:
                rhs = strip(c_["a"][1]) if len(c_.get("a") or []) > 1 else {}
                if rhs.get("k") == "Call" and (rhs.get("fn") or "").split("::")[-1].split("<")[0] in STICKY_CALL:
                    bad.append((rhs.get("fn") or "").split("::")[-1].split("<")[0])
                if rhs.get("k") in ("Ref", "ULookup", "Cast") and any(y.get("k") in ("Ref", "ULookup") and y.get("n") in STICKY_REF and "std" in ((y.get("q") or "") + (y.get("qual") or "")) for y in walk(rhs)):
                    bad.append([y.get("n") for y in walk(rhs) if y.get("n") in STICKY_REF][0])
            key = "%s@%s" % (f["n"], n["l"] - f["l"])
            chk.instance(r_sk, key, sample=dict(function=f["q"], statement=show(n)[:90], sticky=bad))
            if bad:
                chk.violation(r_sk, key, "%s applies %s to the file stream itself: the setting persists after this statement, so every number written to this file afterwards is formatted with it (e.g. columns padded with '0' instead of blanks)" % (f["q"], ", ".join("std::" + b for b in bad)), f["file"], n["l"])

    # ---- C07.hdrpair: the header announces what the payload writer then writes
    r_hp = chk.rule("C07.hdrpair", "every EclOutput::write overload: a header call is directly followed by the array writer of the same file flavour (formatted under isFormatted, unformatted otherwise) for the same vector whose size() the header announces; when the array writer takes an element width it is the width given to the header (the reader derives the record lengths from the header's C0nn width); a CHAR header has width sizeOfChar; the padded-string writer goes with a (CHAR, sizeOfChar) header", floor=12)
    hx = chk.facts([OUT], files_re=r"^/repo/opm/io/eclipse/EclOutput\.hpp$")

    def callname(n):
        if n.get("k") == "MCall":
            return n.get("m") or ""
        if n.get("k") == "Call":
            return (n.get("fn") or (n.get("callee") or {}).get("n") or "").split("::")[-1]
        return ""

    def hdr_walk(stmts, flavour, f):
        for i, st in enumerate(stmts):
            if st["k"] == "If":
                c = show(strip(st["cond"])) if isinstance(st.get("cond"), dict) else ""
                fl_t, fl_e = flavour, flavour
                if c in ("this.isFormatted", "isFormatted"):
                    fl_t, fl_e = "Formatted", "Binary"
                elif c in ("(!this.isFormatted)", "(!isFormatted)"):
                    fl_t, fl_e = "Binary", "Formatted"
                hdr_walk(stmt_list(st["then"]), fl_t, f)
                if st.get("else") is not None:
                    hdr_walk(stmt_list(st["else"]), fl_e, f)
                continue
            if st["k"] == "Block":
                hdr_walk(stmt_list(st), flavour, f)
                continue
            nm = callname(st)
            m_ = re.fullmatch(r"write(Binary|Formatted)Header", nm)
            if not m_:
                if any(re.fullmatch(r"write(Binary|Formatted)Header", callname(x)) for x in walk(st)):
                    chk.instance(r_hp, "%s@%d" % (f["n"], st["l"]))
                    chk.violation(r_hp, "%s@%d" % (f["n"], st["l"]), "a header is written inside a larger statement (%s): header and payload can no longer be paired" % show(st)[:120], f["file"], st["l"])
                continue
            key = "%s@%d" % (os.path.basename(f["file"]), st["l"])
            args = [show(strip(a)).replace("Opm::EclIO::", "") for a in st["a"]]
            nxt = stmts[i + 1] if i + 1 < len(stmts) else None
            arr = [x for x in walk(nxt) if re.fullmatch(r"write(Binary|Formatted)(Char)?Array", callname(x))] if nxt is not None else []
            det = dict(header=args, flavour=flavour, next=show(nxt)[:160] if nxt is not None else None)
            chk.instance(r_hp, key, sample=det)
            probs = []
            if flavour != m_.group(1):
                probs.append("a %s header is written on the %s path" % (m_.group(1).lower(), (flavour or "undetermined").lower()))
            if len(args) != 4:
                probs.append("the header call has %d arguments" % len(args))
            elif len(arr) != 1:
                probs.append("the statement after the header does not write the array (%s)" % det["next"])
            else:
                an = callname(arr[0])
                aargs = [show(strip(a)).replace("Opm::EclIO::", "") for a in arr[0]["a"]]
                if not an.startswith("write" + m_.group(1)):
                    probs.append("a %s header is followed by %s" % (m_.group(1).lower(), an))
                if args[1] != "%s.size()" % aargs[0]:
                    probs.append("the header announces %s elements but the payload is %s" % (args[1], aargs[0]))
                if len(aargs) == 2 and aargs[1] != args[3]:
                    probs.append("the header says element width %s, the payload is written with width %s" % (args[3], aargs[1]))
                if an.endswith("CharArray") and len(aargs) == 1 and (args[2], args[3]) != ("CHAR", "sizeOfChar"):
                    probs.append("8-character padded strings are announced as (%s, %s)" % (args[2], args[3]))
                if an.endswith("CharArray") and args[2] not in ("CHAR", "C0NN"):
                    probs.append("a string payload is announced as %s" % args[2])
                if not an.endswith("CharArray") and args[2] in ("CHAR", "C0NN"):
                    probs.append("a numeric payload is announced as %s" % args[2])
            if len(args) == 4 and args[2] == "CHAR" and args[3] != "sizeOfChar":
                probs.append("a CHAR header carries width %s" % args[3])
            if probs:
                chk.violation(r_hp, key, "%s: %s - the reader sizes and splits the records from the header, so the array cannot be read back" % (f["q"], "; ".join(probs)), f["file"], st["l"])

    for f in hx.fns:
        if f.get("body") and f["n"] == "write" and (f.get("cls") or "").endswith("EclOutput") and os.path.basename(f["file"]) in ("EclOutput.cpp", "EclOutput.hpp"):
            hdr_walk(stmt_list(f["body"]), None, f)

    # ---- C07.c0nn: the three-digit element width of a C0nn type string
    r_cw = chk.rule("C07.c0nn", "the type string of a long-string array is 'C' followed by the element width as THREE zero-filled digits: both header writers print setw(3) / setfill('0') after the 'C', and both header readers (readBinaryHeader, readFormattedHeader) parse the width from the three characters after the first (substr(1, 3)); a reader that takes fewer digits sizes the records of every array of width 100 or more wrongly and loses the rest of the file", floor=4)
    for rn in ("readBinaryHeader", "readFormattedHeader"):
        rf = [f for f in fx.fns if f["n"] == rn and f.get("body") and f["file"].endswith("EclUtil.cpp") and any(x.get("k") == "Call" and (x.get("fn") or "").endswith("stoi") for x in walk(f["body"]))]
        if len(rf) != 1:
            raise core.AnalysisBroken("%s: %d definitions" % (rn, len(rf)))
        rf = rf[0]
        got_w = []
        for n in walk(rf["body"]):
            if n.get("k") == "Bin" and n.get("asg") and n.get("op") == "=" and any((x.get("fn") or "").endswith("stoi") for x in walk(n["c"][1]) if x.get("k") == "Call"):
                for x in walk(n["c"][1]):
                    if x.get("k") == "MCall" and x.get("m") == "substr":
                        got_w.append(tuple(show(strip(a_)) for a_ in x.get("a") or []))
        chk.instance(r_cw, rn, sample=dict(width_from=got_w))
        if got_w != [("1", "3")]:
            chk.violation(r_cw, rn, "%s parses the C0nn element width from substr%s; the width is the three digits after the 'C' (substr(1, 3)), as the writers print it" % (rn, got_w), rf["file"], rf["l"])
    fo_c = chk.facts(["opm/io/eclipse/EclOutput.cpp"])
    for wn in ("writeBinaryHeader", "writeFormattedHeader"):
        wf = [f for f in fo_c.fns if f["n"] == wn and f.get("body") and f["file"].endswith("EclOutput.cpp")]
        if len(wf) != 1:
            raise core.AnalysisBroken("%s: %d definitions" % (wn, len(wf)))
        wf = wf[0]
        txt = " ".join(show(x) for x in walk(wf["body"]) if x.get("k") in ("OpCall", "Call") and "setw" in show(x) and "\"C\"" in show(x))
        okw = re.search(r'"C"\)?, std::setw\(3\)\)?, std::setfill\(\'0\'\)\)?, element_size\)|"C"\) << std::setw\(3\)\) << std::setfill\(\'0\'\)\) << element_size', txt) is not None or ('"C"' in txt and "std::setw(3)" in txt and "std::setfill('0')" in txt)
        chk.instance(r_cw, wn, sample=dict(format=txt[:160]))
        if not okw:
            chk.violation(r_cw, wn, "%s no longer prints the C0nn width as 'C' + setw(3) + setfill('0') (%s)" % (wn, txt[:160]), wf["file"], wf["l"])

    # ---- C07.c0nncols: elements per line of a formatted long-string array
    r_cc = chk.rule("C07.c0nncols", "formatted C0nn arrays: the number of elements per 80-column line, 80 / (width + 3), is used as a divisor by the writer (line breaks) and by sizeOnDiskFormatted (skipping the array); both clamp it to at least 1 (std::max(1, ..)), the same way - unclamped it is 0 from width 78 on and the `%` / `/` by it is a division by zero (SIGFPE, not an exception), clamped in one place only the reader skips a different number of bytes than the writer wrote", floor=2)
    from verif import cow as _cow7
    fo_cc = chk.facts(["opm/io/eclipse/EclOutput.cpp"])
    sites_cc = []
    for f in list(fx.fns) + list(fo_cc.fns):
        if not f.get("body") or f["n"] not in ("writeFormattedCharArray", "sizeOnDiskFormatted") or os.path.basename(f["file"]) not in ("EclOutput.cpp", "EclUtil.cpp"):
            continue
        par_c = _cow7.parent_map(f)
        for n in walk(f["body"]):
            if n.get("k") == "Bin" and n.get("op") == "/" and strip(n["c"][0]).get("k") == "Int" and int(strip(n["c"][0])["v"]) == 80:
                if any(id(n) == s_[2] for s_ in sites_cc):
                    continue
                cur = n
                clamp = None
                while id(cur) in par_c:
                    cur = par_c[id(cur)]
                    if cur.get("k") == "Call" and (cur.get("fn") or "").endswith("std::max"):
                        others = [strip(a_) for a_ in cur.get("a") or [] if n not in list(walk(a_))]
                        clamp = [show(o_) for o_ in others]
                        break
                    if cur.get("k") not in ("Cast", "Temp", "Bind", "Paren"):
                        break
                sites_cc.append((f, n, id(n), clamp))
    for f, n, _, clamp in sites_cc:
        key = "%s@%d" % (f["n"], n["l"])
        chk.instance(r_cc, key, sample=dict(function=f["q"], quotient=show(n), clamped_with=clamp))
        if not clamp or not all(re.fullmatch(r"[1-9]\d*", c_) for c_ in clamp):
            chk.violation(r_cc, key, "%s: the column count %s is not clamped to at least 1: for element widths of 78 or more it is 0 and is then used as a divisor" % (f["q"], show(n)), f["file"], n["l"])
    if len({tuple(c_ or ()) for _, _, _, c_ in sites_cc}) > 1:
        chk.violation(r_cc, "agree", "writer and size computation clamp the C0nn column count differently (%s)" % [c_ for _, _, _, c_ in sites_cc], sites_cc[0][0]["file"], sites_cc[0][1]["l"])

    # ---- C07.realparse: text -> float without a range exception
    r_rp = chk.rule("C07.realparse", "the formatted readers of opm/io/eclipse convert a REAL token with a function that cannot raise a range error for text the writer produces: std::stod followed by narrowing, or strtof / strtod (which return a value and do not throw).  std::stof throws std::out_of_range for every subnormal float (and for values beyond FLT_MAX), which `%e` output of a float array contains legally", floor=8)
    rpx = chk.facts([u for u in core.library_units() if "opm/io/eclipse/" in u])
    for f in rpx.fns:
        if not f.get("body") or "/opm/io/eclipse/" not in f["file"]:
            continue
        for n in walk(f["body"]):
            if n.get("k") != "Call":
                continue
            nm = (n.get("fn") or "").split("::")[-1]
            if nm not in ("stof", "stod", "stold", "strtof", "strtod", "atof"):
                continue
            key = "%s@%d" % (f["q"].split("::")[-1], n["l"])
            chk.instance(r_rp, key, sample=dict(function=f["q"], call=nm))
            if nm == "stof":
                chk.violation(r_rp, key, "%s converts text with std::stof: a subnormal REAL value (written legally by the formatted writer) raises std::out_of_range, so the array cannot be read back" % f["q"], f["file"], n["l"])

    from verif import narrow
    narrow.run_offwidth(chk, "C07")

    from verif import fallthrough
    fallthrough.run(chk, "C07", floor=6)
    from verif import rawio
    rawio.run(chk, "C07", floor=30)
    from verif import argorder
    argorder.run(chk, "C07", floor=28)

    chk.assumptions += ["tables/ecl_layout.json: published Eclipse file-format constants"]
