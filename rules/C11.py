"""C11  Serialization round trip — member coverage of serializeOp and operator==.

Decides: every non-static data member of every class that defines serializeOp is named in
serializeOp (C11.ser) and compared by the class's operator== (C11.eq), unless the pair
(class, member) is exempt in tables/c11_exempt.json with a reason.
"""
import os
import re

from verif import core
from verif.tree import walk, walk_fn, show, strip, stmt_list, meth

LEVEL = "other"

# the objects the property names
ROOTS = ["Opm::EclipseState", "Opm::Schedule", "Opm::SummaryConfig", "Opm::SummaryState", "Opm::UDQState",
         "Opm::Action::State", "Opm::WellTestState", "Opm::RestartValue"]

FLOOR_CLASSES = 260      # 271 on the pinned tree
FLOOR_MEMBERS = 1200


def member_names(fn, cls, fields):
    """Names of fields of `cls` referenced in fn (directly, via this->, through another object of the same
    class).  Template-dependent member expressions are matched by name."""
    out = set()
    for n in walk_fn(fn):
        k = n["k"]
        if k == "Mem" and not n.get("meth"):
            if n.get("cls") == cls or n["n"] in fields and n.get("cls") is None:
                out.add(n["n"])
        elif k in ("DMem", "UMem", "DRef", "ULookup"):
            if n["n"] in fields:
                out.add(n["n"])
    return out


def transferred_names(fn, cls, fields, param=None):
    """Fields of `cls` that occur inside the arguments of a call on the serializer parameter (serializer(x), serializer.vector(x), ...)
    or are handed, together with the serializer, to another function (pack_unpack helpers)."""
    sp = param or (fn.get("params") or [{}])[0].get("n") or "serializer"
    out = set()
    for n in walk_fn(fn):
        if n["k"] not in ("Call", "OpCall", "MCall"):
            continue
        on_ser = False
        cal = n.get("callee") if isinstance(n.get("callee"), dict) else None
        obj = n.get("obj") if isinstance(n.get("obj"), dict) else None
        args = list(n.get("a") or [])
        if cal is not None and strip(cal).get("k") == "Ref" and strip(cal).get("n") == sp:
            on_ser = True
        elif n["k"] == "OpCall" and n.get("op") == "()" and args and strip(args[0]).get("k") == "Ref" and strip(args[0]).get("n") == sp:
            on_ser = True
            args = args[1:]
        elif obj is not None and strip(obj).get("k") == "Ref" and strip(obj).get("n") == sp:
            on_ser = True
        elif cal is not None and cal.get("k") in ("DMem", "UMem", "Mem") and strip(cal.get("b") or {}).get("k") == "Ref" and strip(cal.get("b") or {}).get("n") == sp:
            on_ser = True
        elif any(strip(a).get("k") == "Ref" and strip(a).get("n") == sp for a in args):
            on_ser = True      # helper(serializer, member...) / this->pack_unpack(serializer)
        if not on_ser:
            continue
        for a in args:
            for x in walk(a):
                k = x.get("k")
                if k == "Mem" and not x.get("meth") and (x.get("cls") == cls or (x["n"] in fields and x.get("cls") is None)):
                    out.add(x["n"])
                elif k in ("DMem", "UMem", "DRef", "ULookup") and x.get("n") in fields:
                    out.add(x["n"])
    return out


def handled_in_place(fn, cls, fields):
    """Fields that serializeOp itself rebuilds: assigned, or the object of a non-const member call (seed(), clear(), resize(), ...)."""
    out = set()
    for n in walk_fn(fn):
        tgt = None
        if n["k"] == "Bin" and n.get("asg"):
            tgt = strip(n["c"][0])
        elif n["k"] == "OpCall" and n.get("op") in ("=", "+=") and n.get("a"):
            tgt = strip(n["a"][0])
        elif n["k"] in ("MCall",) and isinstance(n.get("obj"), dict) and not n.get("const"):
            tgt = strip(n["obj"])
        elif n["k"] == "Call" and isinstance(n.get("callee"), dict) and n["callee"].get("k") in ("DMem", "UMem"):
            tgt = strip(n["callee"].get("b") or {})
        while isinstance(tgt, dict) and tgt.get("k") in ("Idx",):
            tgt = strip(tgt["c"][0])
        if isinstance(tgt, dict) and tgt.get("k") in ("Mem", "DMem", "UMem", "DRef", "ULookup") and tgt.get("n") in fields:
            out.add(tgt["n"])
    return out


def own_calls(fn, cls, methods):
    """Short names of methods of cls called in fn (resolved callee with parent cls, or dependent by name)."""
    out = set()
    for n in walk_fn(fn):
        k = n["k"]
        if k == "MCall":
            if n.get("cls") == cls and n.get("m"):
                out.add(n["m"])
            elif n.get("fn") is None and isinstance(n.get("callee"), dict) and n["callee"].get("k") in ("DMem", "UMem") and n["callee"]["n"] in methods:
                out.add(n["callee"]["n"])
        elif k == "Call":
            # static member helpers / free helpers in the same class scope
            f = n.get("fn") or ""
            if f.startswith(cls + "::"):
                out.add(f[len(cls) + 2:])
            c = n.get("callee")
            if isinstance(c, dict) and c.get("k") in ("DMem", "UMem", "ULookup") and c["n"] in methods:
                out.add(c["n"])
        elif k == "OpCall" and n.get("cls") == cls and n.get("m"):
            out.add(n["m"])
    return out


def str_lits(n):
    return [x["v"] for x in walk(n) if x["k"] == "Str"]


def units_naming(units, text):
    """Units whose own source text contains `text` - only selects which units are parsed for a definition, decides nothing."""
    out = []
    for u in units:
        try:
            if text in open(u, errors="replace").read():
                out.append(u)
        except OSError:
            pass
    return out


def run_split(chk, fx, ser, closure, units):
    """C11.split: a serializeOp that packs through a helper structure (pack side: `auto split = helper(...)`) and rebuilds
    members from it on unpack (`if (!serializer.isSerializing()) {...}`) must rebuild what the helper took apart:
      cover  every field of the helper structure is handed to the serializer;
      ctor   a field that the unpack side passes to a constructor parameter initialising member m of T must be filled
             on the pack side from T's accessor of m (or m itself);
      key    the container key the pack side looks up equals the key the unpack side inserts under."""
    r = chk.rule("C11.split", "hand-written pack/unpack asymmetries: helper-structure fields are all transferred, constructor arguments on unpack come from the accessor of the member they initialise, look-up key on pack equals insertion key on unpack", floor=6)
    waived = {w["key"]: w for w in core.load_table("c11_split_waived.json")["waived"]}
    used = set()
    sites = []
    for cls, fs in sorted(ser.items()):
        if cls not in closure:
            continue
        for f in fs:
            if not f.get("body"):
                continue
            unp = [n for n in walk_fn(f) if n["k"] == "If" and "isSerializing" in show(n["cond"])]
            helpers = []
            for n in walk_fn(f):
                if n["k"] == "Decl":
                    for v in n["vars"]:
                        i = v.get("init")
                        if i and i["k"] == "MCall" and i.get("cls") == cls and (v["t"] in fx.recs or ("Opm::" + v["t"]) in fx.recs):
                            helpers.append((v, i))
            if unp and helpers:
                sites.append((cls, f, unp, helpers))
    if not sites:
        raise core.AnalysisBroken("no serializeOp with a pack-side helper structure and an unpack block was found (TableManager is one on the pinned tree)")
    for cls, f, unp, helpers in sites:
        for v, call in helpers:
            st = v["t"] if v["t"] in fx.recs else "Opm::" + v["t"]
            fields = [x["n"] for x in fx.recs[st]["fields"]]
            hname = call["m"]
            # -- cover
            passed = set()
            for n in walk_fn(f):
                if n["k"] in ("Call", "OpCall", "MCall") and show(n).startswith("serializer("):
                    for m in walk(n):
                        if m["k"] == "Mem" and m.get("cls") == st:
                            passed.add(m["n"])
            for fld in fields:
                key = "%s:%s.%s:cover" % (cls, v["n"], fld)
                chk.instance(r, key, sample=dict(cls=cls, helper=hname, field=fld, serialized=fld in passed))
                if fld not in passed:
                    chk.violation(r, key, "%s::serializeOp does not transfer %s.%s, a field of the structure %s::%s() takes the members apart into" % (cls, v["n"], fld, cls, hname), f["file"], f["l"])
            # -- helper body and the classes it touches
            hx = chk.facts(units_naming(units, "::" + hname + "("), files_re="^/repo/opm/", fn_re=r"^%s::%s$" % (re.escape(cls), re.escape(hname)))
            hfs = [h for h in hx.fns if h["q"] == "%s::%s" % (cls, hname) and h.get("body")]
            if not hfs:
                raise core.AnalysisBroken("body of pack-side helper %s::%s not found" % (cls, hname))
            hf = hfs[0]
            # pack side: result.F = E, with the look-up key in force
            pack = {}
            cur_key = None
            order = [n for n in walk_fn(hf)]
            for n in order:
                if n["k"] == "MCall" and n.get("m") == "find" and str_lits(n):
                    cur_key = (str_lits(n)[0], n["l"])
                if n["k"] == "Bin" and n.get("asg") and n["c"][0]["k"] == "Mem" and n["c"][0].get("cls") == st:
                    pack.setdefault(n["c"][0]["n"], []).append((n["c"][1], cur_key, n["l"]))
                if n["k"] == "MCall" and n.get("m") in ("insert", "emplace", "push_back") and isinstance(n.get("obj"), dict) and n["obj"]["k"] == "Mem" and n["obj"].get("cls") == st:
                    pack.setdefault(n["obj"]["n"], []).append((None, cur_key, n["l"]))
            # unpack side: innermost If blocks that mention split.F
            for u in unp:
                for blk in [n for n in walk(u["then"]) if n["k"] == "If"]:
                    mentioned = {m["n"] for m in walk(blk) if m["k"] == "Mem" and m.get("cls") == st}
                    if not mentioned:
                        continue
                    ins = [n for n in walk(blk["then"]) if n["k"] == "MCall" and n.get("m") in ("insert", "emplace", "insert_or_assign") and str_lits(n)]
                    ukey = str_lits(ins[0])[0] if ins else None
                    for fld in sorted(mentioned):
                        for e, pk, pl in pack.get(fld, []):
                            key = "%s:%s.%s:key" % (cls, v["n"], fld)
                            if pk is None or ukey is None:
                                continue
                            chk.instance(r, key, sample=dict(cls=cls, field=fld, pack_looks_up=pk[0], unpack_inserts=ukey))
                            if pk[0] != ukey:
                                w = waived.get(key)
                                if w and w.get("pack") == pk[0] and w.get("unpack") == ukey:
                                    used.add(key)
                                    chk.info(r, "%s: pack side looks up \"%s\", unpack side inserts \"%s\" - waived: %s" % (key, pk[0], ukey, w["reason"]))
                                else:
                                    chk.violation(r, key, "%s::%s() takes the container \"%s\" apart into %s.%s but serializeOp rebuilds it under \"%s\": the special path never pairs up and the objects travel as their base type" % (cls, hname, pk[0], v["n"], fld, ukey), hf["file"], pk[1])
                    # constructor arguments
                    for n in walk(blk["then"]):
                        if n["k"] == "Ctor" and n.get("fn") and n.get("a"):
                            for ai, a in enumerate(n["a"]):
                                a0 = strip(a)
                                if a0["k"] == "Mem" and a0.get("cls") == st:
                                    fld = a0["n"]
                                    T = n["t"].replace("const ", "").strip()
                                    tx = chk.facts(units_naming(units, T.split("::")[-1] + "::"), files_re="^/repo/opm/", fn_re=r"^%s::" % re.escape(T))
                                    ctors = [c for c in tx.fns if c["q"] == n["fn"] and c.get("ctor") and len(c.get("params", [])) == len(n["a"]) and c.get("inits") is not None and not c.get("light")]
                                    key = "%s:%s.%s:ctor" % (cls, v["n"], fld)
                                    if not ctors:
                                        raise core.AnalysisBroken("constructor %s used on the unpack side of %s::serializeOp not found" % (n["fn"], cls))
                                    pname = ctors[0]["params"][ai]["n"]
                                    members = [i["member"] for i in ctors[0]["inits"] if strip(i["init"]).get("k") == "Ref" and strip(i["init"]).get("n") == pname]
                                    if len(members) != 1:
                                        chk.info(r, "%s: parameter %s of %s does not initialise exactly one member; not paired" % (key, pname, n["fn"]))
                                        continue
                                    mem = members[0]
                                    for e, pk, pl in pack.get(fld, []):
                                        if e is None:
                                            continue
                                        e0 = strip(e)
                                        src = None
                                        if e0["k"] == "Mem" and e0.get("cls") == T:
                                            src = e0["n"]
                                        elif e0["k"] == "MCall" and e0.get("cls") == T:
                                            acc = [a_ for a_ in tx.fns if a_["q"] == e0["fn"] and a_.get("body")]
                                            if acc:
                                                rets = [x for x in walk_fn(acc[0]) if x["k"] == "Return"]
                                                if len(rets) == 1 and rets[0].get("e") is not None:
                                                    rv = strip(rets[0]["e"])
                                                    if rv["k"] == "Mem" and rv.get("cls") == T:
                                                        src = rv["n"]
                                                    else:
                                                        src = "<%s>" % show(rv)
                                        chk.instance(r, key, sample=dict(cls=cls, field=fld, unpack_passes_to="%s(%s) -> %s" % (n["fn"], pname, mem), pack_reads=show(e0)[:80], which_is=src))
                                        if src != mem:
                                            chk.violation(r, key, "%s.%s is passed on unpack to %s, whose parameter `%s` initialises %s::%s, but %s::%s() fills it from `%s` (%s): the rebuilt object differs from the packed one whenever the two quantities differ" % (
                                                v["n"], fld, n["fn"], pname, T, mem, cls, hname, show(e0)[:80], src or "not that member"), hf["file"], pl)
    for k in waived:
        if k not in used:
            chk.info(r, "waiver %s in tables/c11_split_waived.json not needed on this tree" % k)


def run_ptr(chk):
    """C11.ptr: the pointer handlers of the generic Serializer."""
    r = chk.rule("C11.ptr", "Serializer pointer handlers: shared_ptr transfers the pointer's identity first and nothing more for a null pointer; while packing the pointee follows exactly at the first occurrence of an identity (count == 0), which is then recorded; while unpacking the first occurrence creates the object, records it under the identity and unpacks into it, every later occurrence aliases the recorded object - so sharing survives and pack and unpack consume the same bytes; unique_ptr transfers a presence flag and the pointee iff present, and unpacks the pointee iff the flag is 1", floor=7)
    probe = os.path.join(core.VERIF, "probes", "serializer_probe.cpp")
    fx = chk.facts([probe], files_re="^/repo/opm/common/utility/Serializer\\.hpp$")
    sp = [f for f in fx.fns if f["n"] == "shared_ptr" and f.get("cls") == "Opm::Serializer" and f.get("body")]
    upf = [f for f in fx.fns if f["n"] == "unique_ptr" and f.get("cls") == "Opm::Serializer" and f.get("body")]
    if len(sp) != 1 or len(upf) != 1:
        raise core.AnalysisBroken("Serializer::shared_ptr / unique_ptr handlers not found")
    sp, upf = sp[0], upf[0]

    def clause(key, f, ok, found, want, line=None):
        chk.instance(r, key, sample=dict(found=found))
        if not ok:
            chk.violation(r, key, "Serializer::%s: %s; required: %s" % (f["n"], found, want), f["file"], line or f["l"])
    d = sp["params"][0]["n"]
    top = [x for x in stmt_list(sp["body"]) if show(x).strip()]
    idv = [v["n"] for n in top if n["k"] == "Decl" for v in n["vars"] if ".get()" in show(v.get("init"))]
    if len(idv) != 1:
        raise core.AnalysisBroken("Serializer::shared_ptr: identity variable not found")
    pid = idv[0]
    txt = [show(x) for x in top]
    i_send = next((i for i, t in enumerate(txt) if t == "(*this)(%s)" % pid), None)
    i_null = next((i for i, t in enumerate(txt) if t.startswith("if ((!%s)) return" % pid)), None)
    clause("shared:identity", sp, i_send is not None and i_null is not None and i_send < i_null and i_send == 1, txt[:3], "identity transferred first, then `if (!identity) return`")
    br = [n for n in top if n["k"] == "If" and "Operation::PACK" in show(n["cond"])]
    okb = len(br) == 1 and br[0].get("else") is not None
    cnd = show(strip(br[0]["cond"])) if br else ""
    okb = okb and ("Operation::PACK ==" in cnd and "Operation::PACKSIZE ==" in cnd and "||" in cnd)
    clause("shared:modes", sp, okb, cnd, "one branch for PACK or PACKSIZE, the other for UNPACK")
    if okb:
        pk = stmt_list(br[0]["then"])
        first = "(this.m_ptrmap.count(%s) == 0)" % pid
        okp = len(pk) == 1 and pk[0]["k"] == "If" and show(strip(pk[0]["cond"])) == first and pk[0].get("else") is None and [show(x) for x in stmt_list(pk[0]["then"])][:1] == ["(*this)((*%s))" % d] and any(("this.m_ptrmap[%s]" % pid) in show(x) for x in stmt_list(pk[0]["then"])[1:])
        clause("shared:pack", sp, okp, [show(x)[:160] for x in pk], "if (map.count(identity) == 0) { serialize *data; record identity }", pk[0]["l"] if pk else None)
        un = stmt_list(br[0]["else"])
        oku = len(un) == 1 and un[0]["k"] == "If" and show(strip(un[0]["cond"])) == first and un[0].get("else") is not None
        if oku:
            th = [show(x) for x in stmt_list(un[0]["then"])]
            el = [show(x) for x in stmt_list(un[0]["else"])]
            oku = (len(th) == 3 and "std::make_shared" in th[0] and th[0].startswith("((PtrType &)%s = " % d) and th[1].startswith("(this.m_ptrmap[%s] = " % pid) and "(%s)" % d in th[1] and th[2] == "(*this)((*%s))" % d
                   and len(el) == 1 and el[0].startswith("((PtrType &)%s = " % d) and "this.m_ptrmap[%s]" % pid in el[0])
        clause("shared:unpack", sp, oku, [show(x)[:260] for x in un], "if (map.count(identity) == 0) { data = make_shared; map[identity] = data; unpack *data } else data = map[identity]", un[0]["l"] if un else None)
    du = upf["params"][0]["n"]
    topu = [x for x in stmt_list(upf["body"]) if show(x).strip()]
    oku = len(topu) == 1 and topu[0]["k"] == "If" and topu[0].get("else") is not None and show(strip(topu[0]["cond"])) in ("(Operation::UNPACK != this.m_op)",)
    clause("unique:modes", upf, oku, show(topu[0]["cond"]) if topu else "-", "if (op != UNPACK) pack side else unpack side")
    if oku:
        pk = [show(x) for x in stmt_list(topu[0]["then"])]
        clause("unique:pack", upf, pk == ["(*this)((%s ? 1 : 0))" % du, "if (%s) { (*this)((*%s)) }" % (du, du)], pk, "flag (data ? 1 : 0), then *data iff data")
        un = stmt_list(topu[0]["else"])
        fl = [v["n"] for n in un if n["k"] == "Decl" for v in n["vars"]]
        ut = [show(x) for x in un if x["k"] != "Decl"]
        okk = len(fl) == 1 and len(ut) == 2 and ut[0] == "(*this)(%s)" % fl[0] and re.fullmatch(r"if \(\(%s == 1\)\) \{ \(\(PtrType &\)%s = std::make_unique\(\)\) \(\*this\)\(\(\*%s\)\) \}" % (fl[0], du, du), ut[1]) is not None
        clause("unique:unpack", upf, okk, ut, "read the flag; iff it is 1 create the object and unpack into it")


def run_lvalue(chk, fx):
    """C11.lvalue: what serializeOp hands to the serializer designates the object's own storage."""
    r = chk.rule("C11.lvalue", "every argument a serializeOp hands to the serializer is an lvalue of the object's own state - a member, a dereferenced member pointer, *this seen as a base through a REFERENCE cast, a call that returns a reference, a local of the hand-written split helpers - never a temporary (a by-value cast such as static_cast<std::string>(*this), a constructor expression, an arithmetic result): packing a temporary writes the right bytes, unpacking fills the temporary and leaves the object untouched", floor=1500)
    for f in fx.fns:
        if f["n"] != "serializeOp" or not f.get("body"):
            continue
        sp = [p_["n"] for p_ in f["params"]][:1]
        for n in walk(f["body"]):
            args = None
            if n["k"] == "Call" and (n.get("callee") or {}).get("n") in sp:
                args = n.get("a") or []
            elif n["k"] == "OpCall" and n.get("op") == "()" and n.get("a") and (n["a"][0] or {}).get("n") in sp:
                args = n["a"][1:]
            if args is None:
                continue
            for a in args:
                k = a.get("k")
                t = (a.get("t") or "")
                bad = None
                if k == "Cast" and not t.rstrip().endswith("&") and a.get("ck") in ("static", "functional", "cstyle", "const", "reinterpret", None) and not t.rstrip().endswith("*"):
                    inner = strip(a["c"][0]) if a.get("c") else {}
                    # an lvalue-to-rvalue or no-op cast printed without a target type is not a conversion
                    if t and "dependent" not in t and (t != (inner.get("t") or "") or inner.get("k") in ("Ctor", "Temp")):
                        bad = "a by-value conversion to `%s`" % t
                elif k in ("Ctor", "Temp", "Bin", "Int", "Flt", "Str", "Cond", "InitList"):
                    bad = "a temporary (%s)" % k
                chk.instance(r, "%s@%s:%s" % (f["q"], a.get("l"), show(a)[:40]), sample=dict(function=f["q"], argument=show(a)[:80], kind=k))
                if bad:
                    chk.violation(r, "%s:%s" % (f["q"], show(a)[:50]), "%s hands the serializer `%s`, %s: when the object is unpacked the transferred value lands in that temporary and the object keeps what it had (an empty string, a default) - pack size and byte count stay right, so nothing throws" % (f["q"], show(a)[:80], bad), f["file"], a.get("l") or n["l"])


def run_driver(chk):
    """C11.phase: the generic Serializer's drivers reset the per-pass state before every pass over the data."""
    r = chk.rule("C11.phase", "Serializer::pack/unpack (all overloads): every pass over the data - each call that receives the driver's argument - is preceded, since the previous pass, by an assignment of the operation, by a reset of the shared-pointer map (the first pass: unless every driver ends with one) and by a reset of the counter that pass advances (PACKSIZE: the size, PACK/UNPACK: the position); the PACK pass is preceded by the resize of the buffer to the computed size", floor=6)
    probe = os.path.join(core.VERIF, "probes", "serializer_probe.cpp")
    fx = chk.facts([probe], files_re="^/repo/opm/common/utility/Serializer\\.hpp$")
    rec = fx.recs.get("Opm::Serializer")
    if rec is None:
        raise core.AnalysisBroken("class Opm::Serializer not found through probes/serializer_probe.cpp")
    ftypes = {f["n"]: f.get("t") or "" for f in rec["fields"]}
    ptrmap = [n for n, t in ftypes.items() if "shared_ptr<void>" in t]
    opmem = [n for n, t in ftypes.items() if t.endswith("Operation")]
    if len(ptrmap) != 1 or len(opmem) != 1:
        raise core.AnalysisBroken("Serializer: pointer map / operation members not identified (%s, %s)" % (ptrmap, opmem))
    ptrmap, opmem = ptrmap[0], opmem[0]
    # the counters: the member that the PACKSIZE branch accumulates into, the member handed to the packer as position
    calls = [f for f in fx.fns if f["q"] == "Opm::Serializer::operator()" and f.get("body")]
    size_m, pos_m, buf_m = set(), set(), set()
    for f in fx.fns:
        if f.get("cls") != "Opm::Serializer" or not f.get("body"):
            continue
        for n in walk(f["body"]):
            if n["k"] == "Bin" and n.get("op") == "+=" and strip(n["c"][0]).get("k") == "Mem" and any(meth(x)[0] == "packSize" for x in walk(n["c"][1])):
                size_m.add(strip(n["c"][0])["n"])
            m_, o_ = meth(n)
            if m_ in ("pack", "unpack") and o_ is not None and strip(o_).get("k") == "Mem" and len(n.get("a") or []) >= 3:
                a_ = [strip(x) for x in n["a"]]
                if a_[-1].get("k") == "Mem" and a_[-2].get("k") == "Mem":
                    pos_m.add(a_[-1]["n"])
                    buf_m.add(a_[-2]["n"])
    if len(size_m) != 1 or len(pos_m) != 1 or len(buf_m) != 1:
        raise core.AnalysisBroken("Serializer: size / position / buffer members not identified (%s, %s, %s)" % (size_m, pos_m, buf_m))
    size_m, pos_m, buf_m = size_m.pop(), pos_m.pop(), buf_m.pop()
    drivers = [f for f in fx.fns if f.get("cls") == "Opm::Serializer" and f["n"] in ("pack", "unpack") and f.get("body") and f.get("params")]
    if len(drivers) < 4:
        raise core.AnalysisBroken("Serializer: expected the four pack/unpack drivers, found %d" % len(drivers))

    def memname(e):
        e = strip(e)
        return e["n"] if e.get("k") == "Mem" and strip(e.get("b") or {"k": "This"}).get("k") == "This" else None

    def classify(s_, pnames):
        m_, o_ = meth(s_)
        if m_ == "clear" and o_ is not None and memname(o_) == ptrmap:
            return ("clear",)
        if m_ == "resize" and o_ is not None and memname(o_) == buf_m:
            return ("resize", memname(s_["a"][0]) if s_.get("a") else None)
        if s_["k"] == "Bin" and s_.get("op") == "=" and memname(s_["c"][0]):
            lhs = memname(s_["c"][0])
            rhs = strip(s_["c"][1])
            if lhs == opmem:
                return ("op", rhs.get("n"))
            if rhs.get("k") == "Int" and rhs.get("v") == 0:
                return ("zero", lhs)
        if s_["k"] in ("Call", "MCall", "OpCall") and any(x.get("k") == "Ref" and x.get("d") == "Parm" and x.get("n") in pnames for a_ in (s_.get("a") or []) for x in walk(a_)):
            return ("pass",)
        return ("other", show(s_)[:60])
    seqs = {}
    for f in drivers:
        pn = {p_["n"] for p_ in f["params"]}
        st = stmt_list(f["body"])
        if any(s_["k"] in ("If", "For", "While", "ForRange", "Do", "Switch", "Try") for s_ in st):
            raise core.AnalysisBroken("Serializer::%s %s: the driver is no longer a straight-line sequence" % (f["n"], f["sig"]))
        seqs[(f["n"], f["sig"])] = (f, [classify(s_, pn) for s_ in st])
    all_end_clear = all(("clear",) in seq[max([i for i, t in enumerate(seq) if t == ("pass",)] or [0]):] for f, seq in seqs.values())
    for (n_, sig), (f, seq) in sorted(seqs.items()):
        passes = [i for i, t in enumerate(seq) if t == ("pass",)]
        if not passes:
            raise core.AnalysisBroken("Serializer::%s %s: no pass over the data recognised" % (n_, sig))
        prev = -1
        cur_op = None
        for pi, i in enumerate(passes):
            seg = seq[prev + 1:i]
            ops = [t[1] for t in seg if t[0] == "op"]
            cur_op = ops[-1] if ops else None
            key = "%s%s:pass%d" % (n_, sig, pi + 1)
            need_counter = size_m if cur_op == "PACKSIZE" else pos_m
            has_clear = ("clear",) in seg
            has_zero = ("zero", need_counter) in seg
            has_resize = ("resize", size_m) in seg
            chk.instance(r, key, sample=dict(driver="%s %s" % (n_, sig), operation=cur_op, clear=has_clear, counter_reset=has_zero, resize=has_resize if cur_op == "PACK" else None))
            where = (f["file"], stmt_list(f["body"])[i]["l"])
            if cur_op is None:
                chk.violation(r, key + ":op", "Serializer::%s %s: pass %d over the data runs without the operation being set since the previous pass" % (n_, sig, pi + 1), *where)
                prev = i
                continue
            if not has_clear and not (pi == 0 and all_end_clear):
                chk.violation(r, key + ":ptrmap", "Serializer::%s %s: the shared-pointer map is not cleared between the previous pass and the %s pass: every pointee recorded by the previous pass counts as already written, so the %s pass emits only its key and the buffer is left partly unfilled" % (n_, sig, cur_op, cur_op), *where)
            if not has_zero:
                chk.violation(r, key + ":counter", "Serializer::%s %s: %s is not reset to 0 before the %s pass" % (n_, sig, need_counter, cur_op), *where)
            if cur_op == "PACK" and not has_resize:
                chk.violation(r, key + ":resize", "Serializer::%s %s: the buffer is not resized to %s before the PACK pass" % (n_, sig, size_m), *where)
            prev = i
    # ---- C11.dispatch: which handler a type reaches, and what the handlers put on the wire
    r_d = chk.rule("C11.dispatch", "Serializer::operator(): pointers go to unique_ptr / shared_ptr, pairs and tuples to tuple, variant, optional, vector, map, array and set to the handler of that name, classes with serializeOp to their serializeOp, and everything else to the packer - packSize added to the size in the PACKSIZE pass, pack in the PACK pass, unpack in the UNPACK pass, on the same buffer and position.  The optional / unique_ptr handlers write a presence flag and the value only when present, and read them back under the same flag", floor=12)
    ops = [f for f in fx.fns if f["q"] == "Opm::Serializer::operator()" and f.get("body")]
    if len(ops) != 1:
        raise core.AnalysisBroken("Serializer::operator(): %d definitions" % len(ops))
    op = ops[0]
    WANT_H = {"is_pair_or_tuple": "tuple", "is_variant": "variant", "is_optional": "optional", "is_vector": "vector", "is_map": "map", "is_array": "array", "is_set": "set"}
    node = stmt_list(op["body"])[0] if stmt_list(op["body"]) else None
    seen_t = {}
    last = None
    while node is not None and node.get("k") == "If":
        trait = re.sub(r"<.*", "", (strip(node["cond"]).get("qual") or show(node["cond"])).replace("detail::", ""))
        calls = [x.get("m") or ((x.get("callee") or {}).get("n")) for x in walk(node["then"]) if x["k"] in ("MCall", "Call")]
        seen_t[trait] = (calls, node)
        last = node.get("else")
        node = last
    for trait, want in WANT_H.items():
        g = seen_t.get(trait)
        chk.instance(r_d, trait, sample=dict(trait=trait, handler=g[0] if g else None))
        if not g or g[0] != [want]:
            chk.violation(r_d, trait, "Serializer::operator() sends types with %s to %s; the handler for them is %s(): the data is written in a form the matching reader does not expect (or not at all)" % (trait, g[0] if g else "nothing", want), op["file"], g[1]["l"] if g else op["l"])
    g = seen_t.get("is_ptr")
    okp = False
    if g:
        inner = [n for n in walk(g[1]["then"]) if n["k"] == "If"]
        if len(inner) == 1 and "is_unique_ptr" in (strip(inner[0]["cond"]).get("qual") or show(inner[0]["cond"])):
            t_ = [x.get("m") or ((x.get("callee") or {}).get("n")) for x in walk(inner[0]["then"]) if x["k"] in ("MCall", "Call")]
            e_ = [x.get("m") or ((x.get("callee") or {}).get("n")) for x in walk(inner[0].get("else") or {"k": "Block", "c": []}) if x["k"] in ("MCall", "Call")]
            okp = t_ == ["unique_ptr"] and e_ == ["shared_ptr"]
    chk.instance(r_d, "is_ptr", sample=dict(ok=okp))
    if not okp:
        chk.violation(r_d, "is_ptr", "Serializer::operator() must send unique_ptr types to unique_ptr() and the other pointer types to shared_ptr()", op["file"], g[1]["l"] if g else op["l"])
    g = seen_t.get("has_serializeOp")
    oks = bool(g) and g[0] == ["serializeOp"] and any(x["k"] == "Un" and x.get("op") == "*" and strip(x["c"][0]).get("k") == "This" for c_ in walk(g[1]["then"]) if c_["k"] in ("MCall", "Call") for a_ in c_.get("a") or [] for x in walk(a_))
    chk.instance(r_d, "has_serializeOp", sample=dict(ok=oks))
    if not oks:
        chk.violation(r_d, "has_serializeOp", "Serializer::operator() must hand itself to the class's serializeOp", op["file"], g[1]["l"] if g else op["l"])
    prim = {}
    node = last
    nodes_ = stmt_list(node) if node is not None else []
    cur = nodes_[0] if nodes_ else None
    while cur is not None and cur.get("k") == "If":
        en = [x["n"] for x in walk(cur["cond"]) if x.get("k") in ("Ref", "DRef", "ULookup") and x.get("n") in ("PACKSIZE", "PACK", "UNPACK")]
        eqop = strip(cur["cond"]).get("op")
        prim[en[0] if len(en) == 1 and eqop == "==" else "?"] = show(cur["then"]).replace(" ", "")
        cur = cur.get("else")
    want_p = {"PACKSIZE": r"\(this\.m_packSize\+=this\.m_packer\.packSize\(data\)\)", "PACK": r"this\.m_packer\.pack\(data,this\.m_buffer,this\.m_position\)", "UNPACK": r"this\.m_packer\.unpack\((\(T&\))?data,this\.m_buffer,this\.m_position\)"}
    for k_, rx in want_p.items():
        chk.instance(r_d, "primitive:" + k_, sample=dict(pass_=k_, does=prim.get(k_)))
        if not prim.get(k_) or not re.fullmatch(rx, prim[k_]):
            chk.violation(r_d, "primitive:" + k_, "Serializer::operator(), plain data in the %s pass: found %s; PACKSIZE adds packSize(data) to the size, PACK packs and UNPACK unpacks data at (m_buffer, m_position)" % (k_, prim.get(k_)), op["file"], op["l"])
    # presence flags
    for hname, flagw, flagr in (("optional", r"data\.has_value\(\)", None), ("unique_ptr", r"\(data\?1:0\)|\(data\.operatorbool\(\)\?1:0\)", 1)):
        hs = [f for f in fx.fns if f.get("cls") == "Opm::Serializer" and f["n"] == hname and f.get("body")]
        if len(hs) != 1:
            raise core.AnalysisBroken("Serializer::%s: %d definitions" % (hname, len(hs)))
        h = hs[0]
        top = [n for n in stmt_list(h["body"]) if n["k"] == "If" and n.get("else") is not None and any(x.get("n") == "UNPACK" for x in walk(n["cond"]))]
        ok = False
        det = {}
        if len(top) == 1:
            c = strip(top[0]["cond"])
            unp, wr = (top[0]["then"], top[0]["else"]) if c.get("op") == "==" else (top[0]["else"], top[0]["then"]) if c.get("op") == "!=" else (None, None)
            if unp is not None:
                w_st = stmt_list(wr)
                u_st = stmt_list(unp)
                w_flag = show(strip(w_st[0]["a"][0])).replace(" ", "") if w_st and w_st[0]["k"] in ("Call", "OpCall") and w_st[0].get("a") else None
                w_if = [n for n in w_st[1:] if n["k"] == "If"]
                w_cond = show(strip(w_if[0]["cond"])).replace(" ", "").replace(".operatorbool()", "") if w_if else None
                w_pay = [show(x).replace(" ", "") for x in walk(w_if[0]["then"]) if x["k"] == "Call" and strip(x.get("callee") or {}).get("k") == "Un"] if w_if else []
                u_flagvar = [v["n"] for n in u_st if n["k"] == "Decl" for v in n["vars"]][:1]
                u_read = [n for n in u_st if n["k"] == "Call" and n.get("a") and strip(n["a"][0]).get("n") in u_flagvar]
                u_if = [n for n in u_st if n["k"] == "If"]
                u_cond = show(strip(u_if[0]["cond"])).replace(" ", "") if u_if else None
                u_pay = [x for x in walk(u_if[0]["then"]) if x["k"] == "Call" and strip(x.get("callee") or {}).get("k") == "Un"] if u_if else []
                det = dict(written_flag=w_flag, value_written_if=w_cond, value_written=w_pay, flag_read=bool(u_read), value_read_if=u_cond, value_read=len(u_pay))
                want_ucond = [u_flagvar[0]] if flagr is None and u_flagvar else ["(%s==%d)" % (u_flagvar[0], flagr)] if u_flagvar else []
                ok = w_flag is not None and re.fullmatch(flagw, w_flag.replace(".operatorbool()", "")) is not None and w_cond in ("data.has_value()", "data") and len(w_pay) == 1 and "(*data)" in w_pay[0] \
                    and len(u_read) == 1 and u_cond in want_ucond and len(u_pay) == 1
        chk.instance(r_d, "flag:" + hname, sample=det)
        if not ok:
            chk.violation(r_d, "flag:" + hname, "Serializer::%s must write a presence flag followed by the value only when present, and read the flag back and the value under the same flag (%s): writer and reader disagree about whether a value follows, and every later field is read from the wrong bytes" % (hname, det), h["file"], h["l"])
    chk.assumptions += ["Serializer.hpp is parsed through probes/serializer_probe.cpp (no library unit includes it); its member templates are analysed uninstantiated"]


def run_packer(chk):
    """C11.packer: the byte-level packer transfers every bit of a std::bitset."""
    r = chk.rule("C11.packer", "MemPacker, std::bitset<Size>: packSize, pack and unpack move the same number of bytes, and that number holds all Size bits for every instantiated Size (3, 4, 10, NumFip): either the whole to_ullong() value through Packing<true, unsigned long long>, or a byte count c(Size) with 8 c(Size) >= Size (evaluated for the instantiated sizes as the compiler would); time_point: its own tick count is transferred and rebuilt (no conversion through a coarser clock); std::string: the length as size_t, then exactly that many characters, and the output holds exactly them", floor=9)
    fx = chk.facts(["opm/common/utility/MemPacker.cpp"], files_re="^/repo/opm/(common/utility/MemPacker|input/eclipse/EclipseState/IOConfig/FIPConfig)")
    sizes = {}
    for k in fx.recs:
        m = re.search(r"Packing<false, std::bitset<(\w+)>>$", k)
        if m:
            v = m.group(1)
            if v.isdigit():
                sizes[v] = int(v)
            else:
                cv = [x for x in fx.vars if x["n"] == v and "ev" in x]
                if not cv:
                    raise core.AnalysisBroken("MemPacker: the value of %s (a bitset size) is not a compile-time constant in the facts" % v)
                sizes[v] = int(cv[0]["ev"])
    if len(sizes) < 3:
        raise core.AnalysisBroken("MemPacker: explicit instantiations of the bitset packer not found (%s)" % sizes)
    fns = {f["n"]: f for f in fx.fns if "bitset" in f["q"] and f["file"].endswith("MemPacker.cpp") and f.get("body") and f["n"] in ("pack", "packSize", "unpack")}
    if sorted(fns) != ["pack", "packSize", "unpack"]:
        raise core.AnalysisBroken("MemPacker: bitset packer functions found: %s" % sorted(fns))
    helpers = {f["n"]: f for f in fx.fns if f["file"].endswith("MemPacker.cpp") and f.get("body") and not f.get("cls")}

    def const_eval(e, size, depth=0):
        e = strip(e)
        k = e.get("k")
        if "ev" in e and k != "Ref":
            return int(e["ev"])
        if k == "Int":
            return int(e["v"])
        if k == "Ref":
            if e.get("n") in ("Size", "_Nb"):
                return size
            if "ev" in e:
                return int(e["ev"])
            if e.get("n") == "CHAR_BIT":
                return 8
            return None
        if k == "Un" and e.get("op") == "sizeof":
            t = (e.get("of") or e.get("t") or "")
            return {"unsigned long long": 8, "unsigned long": 8, "char": 1, "int": 4}.get(t)
        if k in ("Bin", "OpCall") and e.get("op") in ("+", "-", "*", "/", "%"):
            a, b = (const_eval(x, size, depth) for x in (e.get("c") or e.get("a")))
            if a is None or b is None:
                return None
            return {"+": a + b, "-": a - b, "*": a * b, "/": a // b if b else None, "%": a % b if b else None}[e["op"]]
        if k == "Call":
            nm = (e.get("fn") or (e.get("callee") or {}).get("n") or "").split("::")[-1].split("<")[0]
            args = [const_eval(a, size, depth) for a in e.get("a") or [] if a.get("k") != "DefArg"]
            if nm in ("max", "min") and len(args) == 2 and None not in args:
                return max(args) if nm == "max" else min(args)
            if nm in helpers and depth < 3:
                rets = [r_ for r_ in walk(helpers[nm]["body"]) if r_["k"] == "Return" and r_.get("e") is not None]
                if len(rets) == 1:
                    return const_eval(rets[0]["e"], size, depth + 1)
        return None
    modes = {}
    for nm, f in fns.items():
        def callee_name(c):
            cal = c.get("callee") or {}
            return c.get("fn") or ((cal.get("qual") or "") + (cal.get("n") or ""))
        inner = [c for c in walk(f["body"]) if c["k"] == "Call" and re.search(r"Packing<true, ?([\w ]+)>::%s$" % nm, callee_name(c))]
        if len(inner) != 1:
            raise core.AnalysisBroken("MemPacker bitset %s: the forwarding call to Packing<true, T>::%s was not found" % (nm, nm))
        T = re.search(r"Packing<true, ?([\w ]+)>", callee_name(inner[0])).group(1).strip()
        args = [a for a in inner[0].get("a") or [] if a.get("k") != "DefArg"]
        if T in ("unsigned long long", "unsigned long", "uint64_t", "std::uint64_t"):
            whole = nm == "unpack" or any(meth(x)[0] in ("to_ullong", "to_ulong") for x in walk(args[0]))
            modes[nm] = ("integer:" + T, {k_: 64 for k_ in sizes} if whole else None, inner[0]["l"])
        elif T == "char" and len(args) >= 2:
            cnt = args[1]
            modes[nm] = ("bytes", {k_: (8 * const_eval(cnt, v_) if const_eval(cnt, v_) is not None else None) for k_, v_ in sizes.items()}, inner[0]["l"])
        else:
            modes[nm] = ("other:" + T, None, inner[0]["l"])
    kinds = {m[0] for m in modes.values()}
    chk.instance(r, "agreement", sample=dict(modes={k_: v_[0] for k_, v_ in modes.items()}))
    if len(kinds) != 1:
        chk.violation(r, "agreement", "the bitset packer's packSize / pack / unpack use different representations (%s): the buffer positions of writer and reader drift apart" % {k_: v_[0] for k_, v_ in modes.items()}, fns["pack"]["file"], fns["pack"]["l"])
    for sz_name, sz in sorted(sizes.items()):
        key = "bitset<%s>" % sz_name
        bits = {nm: (m[1] or {}).get(sz_name) for nm, m in modes.items()}
        chk.instance(r, key, sample=dict(size=sz, bits_transferred=bits))
        if any(b is None for b in bits.values()):
            raise core.AnalysisBroken("MemPacker bitset<%s>: the number of transferred bits could not be evaluated (%s)" % (sz_name, bits))
        if len(set(bits.values())) != 1 or min(bits.values()) < sz:
            chk.violation(r, key, "std::bitset<%s> (%d bits) is transferred as %s bits (packSize/pack/unpack): the flags in the upper bits do not survive the round trip (equal lengths, so nothing throws)" % (sz_name, sz, bits), fns["pack"]["file"], modes["pack"][2])


    # --- time_point: the whole tick count, not a coarser clock
    tp = {f["n"]: f for f in fx.fns if "time_point" in f["q"] and f["file"].endswith("MemPacker.cpp") and f.get("body") and f["n"] in ("pack", "packSize", "unpack")}
    if sorted(tp) != ["pack", "packSize", "unpack"]:
        raise core.AnalysisBroken("MemPacker: time_point packer functions found: %s" % sorted(tp))
    coarse = []
    for nm, f in tp.items():
        for c in walk(f["body"]):
            if c["k"] in ("Call", "MCall"):
                cn = (c.get("fn") or c.get("m") or (c.get("callee") or {}).get("n") or "")
                if re.search(r"(to_time_t|from_time_t|duration_cast|time_point_cast|floor|ceil|round)$", cn.split("<")[0]):
                    coarse.append((nm, cn, c["l"]))
    pk = [c for c in walk(tp["pack"]["body"]) if c["k"] == "Call" and "Packing<true" in (c.get("fn") or "")]
    arg = show(strip(pk[0]["a"][0])) if len(pk) == 1 and pk[0].get("a") else None
    datap = tp["pack"]["params"][0]["n"]
    chk.instance(r, "time_point", sample=dict(packed=arg, conversions=[c[:2] for c in coarse]))
    if coarse or arg not in ("%s.time_since_epoch().count()" % datap,):
        chk.violation(r, "time_point", "the time_point packer transfers `%s`%s: time_point counts milliseconds, so anything but its own tick count (time_since_epoch().count()) drops the fraction of a second - a Schedule with report steps less than a second apart does not equal its unpacked copy" % (arg, (" and converts through %s" % sorted({c[1].split("::")[-1] for c in coarse})) if coarse else ""), tp["pack"]["file"], (coarse[0][2] if coarse else tp["pack"]["l"]))
    up = tp["unpack"]
    outp = up["params"][0]["n"]
    asg = [show(x) for x in walk(up["body"]) if (x["k"] == "Bin" and x.get("asg") and show(strip(x["c"][0])) == outp) or (x["k"] == "OpCall" and x.get("op") == "=" and show(strip(x["a"][0])) == outp)]
    chk.instance(r, "time_point:unpack", sample=dict(assignments=asg))
    if len(asg) != 1 or "duration" not in asg[0]:
        chk.violation(r, "time_point:unpack", "the time_point unpacker assigns %s; required: the value rebuilt from the transferred tick count (time_point(duration(ticks)))" % asg, up["file"], up["l"])
    # --- std::string: length, then that many characters; the output receives exactly them
    st_ = {f["n"]: f for f in fx.fns if re.search(r"Packing<false, ?std::(__cxx11::)?(basic_)?string", f["q"]) and f["file"].endswith("MemPacker.cpp") and f.get("body") and f["n"] in ("pack", "packSize", "unpack")}
    if sorted(st_) != ["pack", "packSize", "unpack"]:
        raise core.AnalysisBroken("MemPacker: string packer functions found: %s" % sorted(st_))
    d_ = st_["pack"]["params"][0]["n"]
    pcalls = [re.sub(r"Opm::Serialization::detail::", "", show(x)) for x in stmt_list(st_["pack"]["body"])]
    okp = len(pcalls) == 2 and re.fullmatch(r"Packing<true, ?(unsigned long|std::size_t|size_t)>::pack\(%s\.size\(\), (\w+), (\w+)\)" % d_, pcalls[0]) is not None and re.fullmatch(r"Packing<true, ?char>::pack\(%s\.data\(\), %s\.size\(\), (\w+), (\w+)\)" % (d_, d_), pcalls[1]) is not None
    chk.instance(r, "string:pack", sample=dict(statements=pcalls))
    if not okp:
        chk.violation(r, "string:pack", "the string packer does %s; required: the length as size_t, then data() with size() characters" % pcalls, st_["pack"]["file"], st_["pack"]["l"])
    ds = st_["packSize"]["params"][0]["n"]
    rets = [show(x["e"]) for x in walk(st_["packSize"]["body"]) if x["k"] == "Return"]
    chk.instance(r, "string:packSize", sample=dict(returns=rets))
    if rets not in (["(sizeof(std::size_t) + %s.size())" % ds], ["(%s.size() + sizeof(std::size_t))" % ds], ["(sizeof(unsigned long) + %s.size())" % ds]):
        chk.violation(r, "string:packSize", "the string packer's size is %s; required sizeof(size_t) + size()" % rets, st_["packSize"]["file"], st_["packSize"]["l"])
    us = st_["unpack"]
    du = us["params"][0]["n"]
    utxt = [re.sub(r"Opm::Serialization::detail::", "", show(x)) for x in stmt_list(us["body"])]
    lens = [v["n"] for x in stmt_list(us["body"]) if x["k"] == "Decl" for v in x["vars"] if "size_t" in (v.get("t") or "") or "unsigned long" in (v.get("t") or "")]
    oku = False
    if len(lens) == 1:
        L_ = lens[0]
        order = [i_ for i_, t in enumerate(utxt) if re.search(r"Packing<true, ?(unsigned long|std::size_t|size_t)>::unpack\(%s," % L_, t)] + [i_ for i_, t in enumerate(utxt) if re.search(r"Packing<true, ?char>::unpack\(\w+\.data\(\), %s," % L_, t)]
        sets = [t for t in utxt if re.fullmatch(r"%s\.(append|assign)\(\w+\.data\(\), %s\)" % (du, L_), t) or re.fullmatch(r"\(%s = std::string\{\w+\.data\(\), %s\}\)" % (du, L_), t)]
        clears = [t for t in utxt if t == "%s.clear()" % du]
        appended = any(".append(" in t for t in sets)
        oku = len(order) == 2 and order[0] < order[1] and len(sets) == 1 and (not appended or len(clears) == 1 and utxt.index(clears[0]) < utxt.index(sets[0]))
    chk.instance(r, "string:unpack", sample=dict(statements=utxt))
    if not oku:
        chk.violation(r, "string:unpack", "the string unpacker does %s; required: read the length, read that many characters, and give the output exactly these characters (cleared first if they are appended)" % utxt, us["file"], us["l"])


def run(chk):
    units = core.library_units()
    fx = chk.facts(units, files_re="^/repo/opm/", fn_re=r"::(serializeOp|operator==)$", rest_light=True)
    run_lvalue(chk, fx)
    exempt = {(e["class"], e["member"]): e for e in core.load_table("c11_exempt.json")["exempt"]}
    used_exempt = set()

    r_ser = chk.rule("C11.ser", "every non-static data member of a class with serializeOp is named in serializeOp", floor=800)
    r_eq = chk.rule("C11.eq", "information: members compared by operator== (a transferred member that is not compared weakens the test oracle only)", floor=500)
    r_cls = chk.rule("C11.classes", "classes defining serializeOp, merged by qualified name over all library units", floor=FLOOR_CLASSES)
    r_hasEq = chk.rule("C11.has-eq", "information: in-scope classes with serializeOp and >=1 data member that have an operator==", floor=150)

    r_der = chk.rule("C11.derived", "members exempt as 'derived' are recomputed by the function serializeOp calls on unpack", floor=4)

    # index functions by class
    ser = {}
    eq = {}
    light = {}
    for f in fx.fns:
        if f["n"] == "serializeOp" and f.get("cls") and not f.get("light"):
            ser.setdefault(f["cls"], []).append(f)
        elif f["n"] == "operator==" and not f.get("light"):
            if f.get("cls"):
                eq.setdefault(f["cls"], []).append(f)
            else:
                # free operator==(const T&, const T&)
                ps = f.get("params", [])
                if len(ps) == 2:
                    t = re.sub(r"^const\s+|\s*&$", "", ps[0]["t"]).strip()
                    eq.setdefault(t, []).append(f)
                    if not t.startswith("Opm::"):
                        eq.setdefault("Opm::" + t, []).append(f)
        elif f.get("light") and f.get("cls"):
            light.setdefault((f["cls"], f["n"]), []).append(f)

    def eq_fields(cls, fields, methods):
        """Fields compared by operator==, following calls to the class's own methods to depth 2."""
        got = set()
        fns = eq.get(cls, [])
        frontier = set()
        for f in fns:
            got |= member_names(f, cls, fields)
            frontier |= own_calls(f, cls, methods)
        seen = set()
        for depth in range(2):
            nxt = set()
            for m in frontier - seen:
                seen.add(m)
                for lf in light.get((cls, m), []):
                    for mr in lf.get("mrefs", []):
                        c, _, n = mr.rpartition("::")
                        if (c == cls or c == "?") and n in fields:
                            got.add(n)
                    for cal in lf.get("callees", []):
                        if cal.startswith(cls + "::"):
                            nxt.add(cal[len(cls) + 2:])
            frontier = nxt
        return got

    # ---- scope: classes contained (by value, container, smart pointer, base) in the objects the property names
    tok = re.compile(r"[A-Za-z_][A-Za-z0-9_]*(?:::[A-Za-z_][A-Za-z0-9_]*)+")
    closure = set()
    work = [r for r in ROOTS]
    for r in ROOTS:
        fx.rec1(r)
    while work:
        c = work.pop()
        if c in closure:
            continue
        closure.add(c)
        rec = fx.recs.get(c)
        if not rec:
            continue
        types = [f["ct"] for f in rec["fields"]] + [b.get("q") or b["t"] for b in rec.get("bases", [])]
        for t in types:
            for m in tok.findall(t):
                # a nested-class token may be spelt through its enclosing template: try progressively shorter prefixes
                parts = m.split("::")
                for i in range(len(parts), 1, -1):
                    q = "::".join(parts[:i])
                    if q in fx.recs and q not in closure:
                        work.append(q)
    chk.extra["closure_classes"] = len(closure)

    n_out = 0
    for cls in sorted(ser):
        in_scope = cls in closure
        rec = fx.recs.get(cls)
        if rec is None:
            raise core.AnalysisBroken("class %s defines serializeOp but its record was not extracted" % cls)
        fields = [f for f in rec["fields"]]
        names = {f["n"] for f in fields}
        methods = {m["n"] for m in rec.get("methods", [])}
        chk.instance(r_cls, cls, nontrivial=bool(fields) and in_scope, sample=dict(cls=cls, fields=len(fields), in_scope=in_scope, file=rec["file"]))
        S = set()
        for f in ser[cls]:
            # transferred = handed to the serializer (directly or through a helper that also receives the serializer), or rebuilt by
            # serializeOp itself; a member that is merely read there (to re-bind pointers, say) is NOT transferred
            S |= transferred_names(f, cls, names) | handled_in_place(f, cls, names)
        has_eq = cls in eq
        E = eq_fields(cls, names, methods) if has_eq else set()
        if not in_scope:
            n_out += 1
            missing = sorted(names - S)
            if missing:
                chk.info("C11.out-of-scope", "%s (not contained in the objects the property names) does not transfer: %s" % (cls, ", ".join(missing)))
            continue
        if fields:
            chk.instance(r_hasEq, cls, sample=dict(cls=cls, has_operator_eq=has_eq))
            if not has_eq:
                chk.info(r_hasEq, "class %s has serializeOp and %d data members but no operator== was found" % (cls, len(fields)))
        for f in fields:
            key = "%s::%s" % (cls, f["n"])
            ex = exempt.get((cls, f["n"]))
            chk.instance(r_ser, key, sample=dict(member=key, in_serializeOp=f["n"] in S, in_operator_eq=f["n"] in E))
            if f["n"] not in S:
                if ex:
                    used_exempt.add((cls, f["n"]))
                    if ex.get("kind") == "derived":
                        # the recomputation must be there: serializeOp calls cls::<via>, which (depth 2) references the member
                        via = ex["via"]
                        called = set()
                        for sf in ser[cls]:
                            called |= own_calls(sf, cls, methods)
                        refs = set()
                        frontier = {via}
                        for depth in range(2):
                            nxt = set()
                            for m in frontier:
                                for lf in light.get((cls, m), []):
                                    refs |= {mr.rpartition("::")[2] for mr in lf.get("mrefs", []) if mr.startswith(cls + "::")}
                                    nxt |= {c[len(cls) + 2:] for c in lf.get("callees", []) if c.startswith(cls + "::")}
                            frontier = nxt
                        chk.instance(r_der, key, sample=dict(member=key, recomputed_by=via, called=via in called, assigns=f["n"] in refs))
                        if via not in called or f["n"] not in refs:
                            chk.violation(r_der, key, "derived member %s is neither transferred nor recomputed: serializeOp must call %s::%s which must set it" % (f["n"], cls, via), rec["file"], f["l"])
                else:
                    chk.violation(r_ser, key, "data member %s (%s) is not transferred by %s::serializeOp%s" % (
                        f["n"], f["t"], cls, "" if f["n"] in E else " and not compared by operator== either (invisible to the round-trip tests)"),
                        rec["file"], f["l"], serializeOp=[(s["file"], s["l"]) for s in ser[cls]], compared_by_operator_eq=f["n"] in E)
            elif ex:
                chk.info("C11.exempt", "exemption %s not needed: the member is transferred" % key)
            if has_eq:
                chk.instance(r_eq, key, sample=dict(member=key, in_operator_eq=f["n"] in E))
                if f["n"] not in E and f["n"] in S:
                    chk.info(r_eq, "%s is transferred but not compared by operator== (weakens the test oracle; not a violation of the property)" % key)
    chk.extra["classes_out_of_scope"] = n_out

    run_split(chk, fx, ser, closure, units)

    # ---- C11.rebind: process-local pointers that serializeOp re-establishes on unpack are re-established in EVERY instance
    r_rb = chk.rule("C11.rebind", "a process-local pointer member that the owner's serializeOp re-binds after unpacking is re-bound in every instance: the re-binding call sits in range-for loops over the whole containers that hold the instances", floor=1)
    for (cls_, mem_), ex in sorted(exempt.items()):
        rb = ex.get("rebound")
        if not rb:
            continue
        owner = rb["in"]
        sfs = [f for f in ser.get(owner, []) if f.get("body")]
        if not sfs:
            raise core.AnalysisBroken("C11.rebind: %s::serializeOp not found" % owner)
        found = False
        for f in sfs:
            for blk in [n for n in walk_fn(f) if n["k"] == "If" and "isSerializing" in show(n["cond"])]:
                def search(n, loops):
                    nonlocal found
                    if n["k"] == "ForRange":
                        search(n["body"], loops + [n])
                        return
                    m_ = meth(n)[0] if n["k"] in ("MCall", "Call") else None
                    if m_ == rb["by"]:
                        found = True
                        ranges = [show(strip(l_["range"])) for l_ in loops]
                        key = "%s::%s" % (cls_, mem_)
                        whole = []
                        for want, l_ in zip(rb["over"], loops[-len(rb["over"]):] if len(loops) >= len(rb["over"]) else []):
                            r0 = strip(l_["range"])
                            whole.append(r0["k"] in ("Mem", "Ref") and r0["n"] == want or (r0["k"] == "Mem" and r0["n"] == want))
                        chk.instance(r_rb, key, sample=dict(member=key, rebound_by=rb["by"], loops=ranges, expected_over=rb["over"]))
                        if len(loops) < len(rb["over"]) or not all(whole):
                            chk.violation(r_rb, key, "%s::serializeOp re-binds %s (via %s) inside the loops %s; every instance lives in %s, so the call must sit in range-for loops over exactly those containers - instances that are skipped keep a null/stale pointer after unpacking (operator== differs, use dereferences it)" % (owner, key, rb["by"], ranges or "none", " x ".join(rb["over"])), f["file"], n["l"])
                    for v in n.values():
                        for y in (v if isinstance(v, list) else [v]):
                            if isinstance(y, dict) and "k" in y:
                                search(y, loops)
                search(blk["then"], [])
        if not found:
            chk.violation(r_rb, "%s::%s" % (cls_, mem_), "%s::serializeOp no longer re-binds %s::%s after unpacking (no call to %s in its unpack block)" % (owner, cls_, mem_, rb["by"]), sfs[0]["file"], sfs[0]["l"])

    # stale exemptions are themselves reported (an exception that no longer matches anything)
    for k, e in exempt.items():
        if k not in used_exempt:
            cls, mem = k
            rec = fx.recs.get(cls)
            if rec is None or mem not in {f["n"] for f in rec["fields"]}:
                chk.fail_broken("stale exemption in tables/c11_exempt.json: %s::%s no longer exists" % k)
            else:
                chk.info("C11.exempt", "exemption %s::%s not needed on this tree" % k)
    run_driver(chk)
    run_ptr(chk)
    run_packer(chk)
    # ---- C11.fixup: the code run after unpacking does not reset what was just transferred
    r_fx = chk.rule("C11.fixup", "UnitSystem::serializeOp transfers its members and then, on the unpacking side, calls init() to rebuild the conversion tables: no function of that fix-up chain (init and the init<SYSTEM> functions it calls) assigns a numeric or boolean literal to a member that serializeOp transfers - such a reset silently replaces the transferred value (the use counter that guards against switching the unit family would read 0 on every unpacked object)", floor=5)
    ux = chk.facts(["opm/input/eclipse/Units/UnitSystem.cpp"], files_re=r"^/repo/opm/input/eclipse/Units/UnitSystem\.hpp$")
    sop = [f for f in ux.fns if f["q"] == "Opm::UnitSystem::serializeOp" and f.get("body")]
    if len(sop) != 1:
        raise core.AnalysisBroken("UnitSystem::serializeOp: %d definitions" % len(sop))
    sent = []
    after = []
    for st in stmt_list(sop[0]["body"]):
        t_ = show(st)
        m_ = re.fullmatch(r"serializer\((?:this\.)?(\w+)\)", t_)
        if m_:
            sent.append(m_.group(1))
        else:
            after += [meth(x)[0] or (x.get("fn") or "").split("::")[-1] for x in walk(st) if x.get("k") in ("Call", "MCall") and (meth(x)[0] or (x.get("fn") or "").split("::")[-1]) not in ("isSerializing", None, "")]
    byname = {}
    for f in ux.fns:
        if f.get("body") and (f.get("cls") or "") == "Opm::UnitSystem":
            byname.setdefault(f["n"], []).append(f)
    chain, todo = set(), [a_ for a_ in after if a_ in byname]
    while todo:
        nm = todo.pop()
        if nm in chain:
            continue
        chain.add(nm)
        for f in byname.get(nm, []):
            for x in walk(f["body"]):
                cn = meth(x)[0] if x.get("k") in ("Call", "MCall") else None
                if cn in byname and cn not in chain and cn.startswith("init"):
                    todo.append(cn)
    if not sent or not chain:
        raise core.AnalysisBroken("UnitSystem::serializeOp: transferred members %s, fix-up chain %s" % (sent, sorted(chain)))
    for nm in sorted(chain):
        for f in byname[nm]:
            resets = []
            for x in walk(f["body"]):
                if x.get("k") == "Bin" and x.get("asg") and x.get("op") == "=":
                    l_ = strip(x["c"][0])
                    r_ = strip(x["c"][1])
                    if l_.get("k") == "Mem" and l_.get("n") in sent and r_.get("k") in ("Int", "Flt", "Bool"):
                        resets.append((x.get("l"), l_["n"], show(r_)))
            chk.instance(r_fx, nm, sample=dict(function=f["q"], literal_resets=len(resets)))
            for ln, mem, val in resets:
                chk.violation(r_fx, nm, "UnitSystem::%s, run after every unpack, sets the transferred member %s to the literal %s: the value that came over the wire is lost" % (nm, mem, val), f["file"], ln)

    chk.assumptions += [
        "clang 14 AST of the library units with the build's flags (HAVE_QUAD instantiations excluded)",
        "tables/c11_exempt.json: members that are process-local, derived, or documented as distributed separately",
        "what serializeOp names is assumed to be encoded/decoded faithfully by the generic Serializer (not decided here)",
    ]
