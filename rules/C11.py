"""C11  Serialization round trip — member coverage of serializeOp and operator==.

Decides: every non-static data member of every class that defines serializeOp is named in
serializeOp (C11.ser) and compared by the class's operator== (C11.eq), unless the pair
(class, member) is exempt in tables/c11_exempt.json with a reason.
"""
import re

from verif import core
from verif.tree import walk, walk_fn

LEVEL = "other"

# the objects the property names
ROOTS = ["Opm::EclipseState", "Opm::Schedule", "Opm::SummaryConfig", "Opm::SummaryState", "Opm::UDQState",
         "Opm::Action::State", "Opm::WellTestState", "Opm::RestartValue"]

FLOOR_CLASSES = 260      # 271 on the pinned tree
FLOOR_MEMBERS = 1200


def member_names(fn, cls, fields):
    """Names of fields of `cls` referenced in fn (directly, via this->, through another object of the same
    class).  Template-dependent member expressions are matched by name."""
    out = set()
    for n in walk_fn(fn):
        k = n["k"]
        if k == "Mem" and not n.get("meth"):
            if n.get("cls") == cls or n["n"] in fields and n.get("cls") is None:
                out.add(n["n"])
        elif k in ("DMem", "UMem", "DRef", "ULookup"):
            if n["n"] in fields:
                out.add(n["n"])
    return out


def own_calls(fn, cls, methods):
    """Short names of methods of cls called in fn (resolved callee with parent cls, or dependent by name)."""
    out = set()
    for n in walk_fn(fn):
        k = n["k"]
        if k == "MCall":
            if n.get("cls") == cls and n.get("m"):
                out.add(n["m"])
            elif n.get("fn") is None and isinstance(n.get("callee"), dict) and n["callee"].get("k") in ("DMem", "UMem") and n["callee"]["n"] in methods:
                out.add(n["callee"]["n"])
        elif k == "Call":
            # static member helpers / free helpers in the same class scope
            f = n.get("fn") or ""
            if f.startswith(cls + "::"):
                out.add(f[len(cls) + 2:])
            c = n.get("callee")
            if isinstance(c, dict) and c.get("k") in ("DMem", "UMem", "ULookup") and c["n"] in methods:
                out.add(c["n"])
        elif k == "OpCall" and n.get("cls") == cls and n.get("m"):
            out.add(n["m"])
    return out


def run(chk):
    units = core.library_units()
    fx = chk.facts(units, files_re="^/repo/opm/", fn_re=r"::(serializeOp|operator==)$", rest_light=True)
    exempt = {(e["class"], e["member"]): e for e in core.load_table("c11_exempt.json")["exempt"]}
    used_exempt = set()

    r_ser = chk.rule("C11.ser", "every non-static data member of a class with serializeOp is named in serializeOp", floor=800)
    r_eq = chk.rule("C11.eq", "information: members compared by operator== (a transferred member that is not compared weakens the test oracle only)", floor=500)
    r_cls = chk.rule("C11.classes", "classes defining serializeOp, merged by qualified name over all library units", floor=FLOOR_CLASSES)
    r_hasEq = chk.rule("C11.has-eq", "information: in-scope classes with serializeOp and >=1 data member that have an operator==", floor=150)

    r_der = chk.rule("C11.derived", "members exempt as 'derived' are recomputed by the function serializeOp calls on unpack", floor=4)

    # index functions by class
    ser = {}
    eq = {}
    light = {}
    for f in fx.fns:
        if f["n"] == "serializeOp" and f.get("cls") and not f.get("light"):
            ser.setdefault(f["cls"], []).append(f)
        elif f["n"] == "operator==" and not f.get("light"):
            if f.get("cls"):
                eq.setdefault(f["cls"], []).append(f)
            else:
                # free operator==(const T&, const T&)
                ps = f.get("params", [])
                if len(ps) == 2:
                    t = re.sub(r"^const\s+|\s*&$", "", ps[0]["t"]).strip()
                    eq.setdefault(t, []).append(f)
                    if not t.startswith("Opm::"):
                        eq.setdefault("Opm::" + t, []).append(f)
        elif f.get("light") and f.get("cls"):
            light.setdefault((f["cls"], f["n"]), []).append(f)

    def eq_fields(cls, fields, methods):
        """Fields compared by operator==, following calls to the class's own methods to depth 2."""
        got = set()
        fns = eq.get(cls, [])
        frontier = set()
        for f in fns:
            got |= member_names(f, cls, fields)
            frontier |= own_calls(f, cls, methods)
        seen = set()
        for depth in range(2):
            nxt = set()
            for m in frontier - seen:
                seen.add(m)
                for lf in light.get((cls, m), []):
                    for mr in lf.get("mrefs", []):
                        c, _, n = mr.rpartition("::")
                        if (c == cls or c == "?") and n in fields:
                            got.add(n)
                    for cal in lf.get("callees", []):
                        if cal.startswith(cls + "::"):
                            nxt.add(cal[len(cls) + 2:])
            frontier = nxt
        return got

    # ---- scope: classes contained (by value, container, smart pointer, base) in the objects the property names
    tok = re.compile(r"[A-Za-z_][A-Za-z0-9_]*(?:::[A-Za-z_][A-Za-z0-9_]*)+")
    closure = set()
    work = [r for r in ROOTS]
    for r in ROOTS:
        fx.rec1(r)
    while work:
        c = work.pop()
        if c in closure:
            continue
        closure.add(c)
        rec = fx.recs.get(c)
        if not rec:
            continue
        types = [f["ct"] for f in rec["fields"]] + [b.get("q") or b["t"] for b in rec.get("bases", [])]
        for t in types:
            for m in tok.findall(t):
                # a nested-class token may be spelt through its enclosing template: try progressively shorter prefixes
                parts = m.split("::")
                for i in range(len(parts), 1, -1):
                    q = "::".join(parts[:i])
                    if q in fx.recs and q not in closure:
                        work.append(q)
    chk.extra["closure_classes"] = len(closure)

    n_out = 0
    for cls in sorted(ser):
        in_scope = cls in closure
        rec = fx.recs.get(cls)
        if rec is None:
            raise core.AnalysisBroken("class %s defines serializeOp but its record was not extracted" % cls)
        fields = [f for f in rec["fields"]]
        names = {f["n"] for f in fields}
        methods = {m["n"] for m in rec.get("methods", [])}
        chk.instance(r_cls, cls, nontrivial=bool(fields) and in_scope, sample=dict(cls=cls, fields=len(fields), in_scope=in_scope, file=rec["file"]))
        S = set()
        for f in ser[cls]:
            S |= member_names(f, cls, names)
        has_eq = cls in eq
        E = eq_fields(cls, names, methods) if has_eq else set()
        if not in_scope:
            n_out += 1
            missing = sorted(names - S)
            if missing:
                chk.info("C11.out-of-scope", "%s (not contained in the objects the property names) does not transfer: %s" % (cls, ", ".join(missing)))
            continue
        if fields:
            chk.instance(r_hasEq, cls, sample=dict(cls=cls, has_operator_eq=has_eq))
            if not has_eq:
                chk.info(r_hasEq, "class %s has serializeOp and %d data members but no operator== was found" % (cls, len(fields)))
        for f in fields:
            key = "%s::%s" % (cls, f["n"])
            ex = exempt.get((cls, f["n"]))
            chk.instance(r_ser, key, sample=dict(member=key, in_serializeOp=f["n"] in S, in_operator_eq=f["n"] in E))
            if f["n"] not in S:
                if ex:
                    used_exempt.add((cls, f["n"]))
                    if ex.get("kind") == "derived":
                        # the recomputation must be there: serializeOp calls cls::<via>, which (depth 2) references the member
                        via = ex["via"]
                        called = set()
                        for sf in ser[cls]:
                            called |= own_calls(sf, cls, methods)
                        refs = set()
                        frontier = {via}
                        for depth in range(2):
                            nxt = set()
                            for m in frontier:
                                for lf in light.get((cls, m), []):
                                    refs |= {mr.rpartition("::")[2] for mr in lf.get("mrefs", []) if mr.startswith(cls + "::")}
                                    nxt |= {c[len(cls) + 2:] for c in lf.get("callees", []) if c.startswith(cls + "::")}
                            frontier = nxt
                        chk.instance(r_der, key, sample=dict(member=key, recomputed_by=via, called=via in called, assigns=f["n"] in refs))
                        if via not in called or f["n"] not in refs:
                            chk.violation(r_der, key, "derived member %s is neither transferred nor recomputed: serializeOp must call %s::%s which must set it" % (f["n"], cls, via), rec["file"], f["l"])
                else:
                    chk.violation(r_ser, key, "data member %s (%s) is not transferred by %s::serializeOp%s" % (
                        f["n"], f["t"], cls, "" if f["n"] in E else " and not compared by operator== either (invisible to the round-trip tests)"),
                        rec["file"], f["l"], serializeOp=[(s["file"], s["l"]) for s in ser[cls]], compared_by_operator_eq=f["n"] in E)
            elif ex:
                chk.info("C11.exempt", "exemption %s not needed: the member is transferred" % key)
            if has_eq:
                chk.instance(r_eq, key, sample=dict(member=key, in_operator_eq=f["n"] in E))
                if f["n"] not in E and f["n"] in S:
                    chk.info(r_eq, "%s is transferred but not compared by operator== (weakens the test oracle; not a violation of the property)" % key)
    chk.extra["classes_out_of_scope"] = n_out

    # stale exemptions are themselves reported (an exception that no longer matches anything)
    for k, e in exempt.items():
        if k not in used_exempt:
            cls, mem = k
            rec = fx.recs.get(cls)
            if rec is None or mem not in {f["n"] for f in rec["fields"]}:
                chk.fail_broken("stale exemption in tables/c11_exempt.json: %s::%s no longer exists" % k)
            else:
                chk.info("C11.exempt", "exemption %s::%s not needed on this tree" % k)
    chk.assumptions += [
        "clang 14 AST of the library units with the build's flags (HAVE_QUAD instantiations excluded)",
        "tables/c11_exempt.json: members that are process-local, derived, or documented as distributed separately",
        "what serializeOp names is assumed to be encoded/decoded faithfully by the generic Serializer (not decided here)",
    ]
