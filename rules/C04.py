"""C04  Applying an ACTIONX equals inlining its keywords; earlier steps are immutable.

Decides: the protocol of Schedule::applyAction (C04.order), that no handler distinguishes action mode from
input mode except the documented ones (C04.mode), the event marker (C04.event), and - by re-using the C03
copy-on-write rules - that nothing reachable from keyword handling writes through storage shared with
earlier report steps (C04.escape / C04.through / C04.inplace).  Not decided: state-by-state equality with
the inlined schedule (runtime).
"""
import re

from verif import core, cow
from verif.tree import walk, walk_fn, show, stmt_list, meth, strip

from rules import C03

LEVEL = "other"

MODE_READERS = {
    "actionx_mode": {
        "Opm::(anonymous namespace)::handleWELPI": "WELPI inside an ACTIONX rescales at run time (keyword whose meaning is defined per report step)",
        "(anonymous namespace)::makeDynamicSelector": "UDQ ASSIGN/DEFINE in an ACTIONX substitutes the matching wells for '?'",
    },
    "matches": {
        "(anonymous namespace)::makeDynamicSelector": "'?' substitution by the action's matching wells",
        "Opm::Schedule::wellNames": "'?' substitution by the action's matching wells",
    },
    "sim_update": {q: "bookkeeping for the simulator: only writes into the pointee" for q in (
        "Opm::HandlerContext::affected_well", "Opm::HandlerContext::record_tran_change",
        "Opm::HandlerContext::record_well_structure_change", "Opm::HandlerContext::welpi_well")},
    "target_wellpi": {"Opm::HandlerContext::getWellPI": "run-time well PI supplied by the simulator for WELPI"},
    "welsegs_wells": {"Opm::HandlerContext::welsegs_handled": "WELSEGS/COMPSEGS pairing check at end of step"},
    "compsegs_wells": {"Opm::HandlerContext::compsegs_handled": "WELSEGS/COMPSEGS pairing check at end of step"},
}


def top_index(body, pred):
    for i, s in enumerate(stmt_list(body)):
        if pred(s):
            return i
    return None


def has_call(s, m, top_only=True):
    """statement s *is* (after stripping) a call to method m"""
    s = strip(s)
    return s.get("k") == "MCall" and s.get("m") == m


def run(chk):
    units = core.library_units()
    fx = chk.facts(units)
    C03.run_lostupdate(chk, fx, "C04")
    C03.run_itemused(chk, fx, "C04")
    C03.run_records(chk, fx, "C04")
    fh = chk.facts(["opm/input/eclipse/Schedule/Schedule.cpp"], files_re="^/repo/opm/input/eclipse/Schedule/", fn_re="^$")
    for q, r in fh.recs.items():
        fx.recs.setdefault(q, r)
    fns = [f for f in fx.fns if f["file"].startswith(core.REPO + "/opm/")]

    # ---- C04.order
    r_ord = chk.rule("C04.order", "applyAction: truncate to step n, append each keyword to block n and handle it in action mode, close the step, then re-iterate blocks n+1.. with keywords kept", floor=7)
    aa = [f for f in fx.fn("Opm::Schedule::applyAction") if len(f["params"]) == 4 and "double" in f["params"][3]["t"]]
    if len(aa) != 1:
        raise core.AnalysisBroken("Schedule::applyAction(step, action, matches, map<string,double>) not found")
    aa = aa[0]
    step = aa["params"][0]["n"]
    body = stmt_list(aa["body"])
    if cow and any(x["k"] == "Goto" for x in walk(aa["body"])):
        raise core.AnalysisBroken("applyAction uses goto")

    def viol(key, msg, line=None):
        chk.violation(r_ord, key, "Schedule::applyAction: " + msg, aa["file"], line or aa["l"])

    i_resize = top_index(aa["body"], lambda s: has_call(s, "resize") and "this.snapshots" in show(strip(s).get("obj")))
    chk.instance(r_ord, "resize", sample=show(body[i_resize]) if i_resize is not None else None)
    if i_resize is None:
        viol("resize", "the snapshots are no longer truncated unconditionally before the action's keywords are handled")
    else:
        a0 = show(strip(body[i_resize])["a"][0])
        if a0 != "(%s + 1)" % step:
            viol("resize:arg", "snapshots.resize(%s): states after the action's step must be dropped and states up to and including it kept, i.e. resize(%s + 1)" % (a0, step), body[i_resize]["l"])
    env = {v["n"]: (show(v.get("init")), i) for i, s in enumerate(body) if s["k"] == "Decl" for v in s["vars"]}
    ib = env.get("input_block")
    chk.instance(r_ord, "input_block", sample=ib and ib[0])
    if not ib or ib[0] != "this.m_sched_deck[%s]" % step:
        viol("input_block", "the action's keywords must be appended to the input block of step %s (found %s)" % (step, ib and ib[0]))
    i_loop = top_index(aa["body"], lambda s: s["k"] == "ForRange" and show(s["range"]) == aa["params"][1]["n"])
    if i_loop is None:
        viol("loop", "no unconditional loop over the action's keywords")
    else:
        lb = stmt_list(body[i_loop]["body"])
        kw = body[i_loop]["var"]["n"]
        i_pb = next((i for i, s in enumerate(lb) if has_call(s, "push_back") and show(strip(s).get("obj")) == "input_block"), None)
        i_hk = next((i for i, s in enumerate(lb) if has_call(s, "handleKeyword")), None)
        chk.instance(r_ord, "loop", sample=dict(push_back=i_pb, handleKeyword=i_hk))
        if i_pb is None or show(strip(lb[i_pb])["a"][0]) != kw:
            viol("push_back", "every keyword of the action must be appended to the input block unconditionally (so that a later re-iteration sees it inlined)", body[i_loop]["l"])
        if i_hk is None:
            viol("handleKeyword", "every keyword of the action must be handled unconditionally", body[i_loop]["l"])
        else:
            hk = strip(lb[i_hk])
            args = [show(a) for a in hk["a"]]
            chk.instance(r_ord, "handleKeyword:args", sample=args)
            want = {0: step, 1: "input_block", 2: kw, 6: aa["params"][2]["n"], 7: "true", 8: "(&sim_update)", 9: "(&%s)" % aa["params"][3]["n"]}
            for i, w in want.items():
                if i >= len(args) or args[i] != w:
                    viol("handleKeyword:arg%d" % i, "handleKeyword argument %d is %s, expected %s" % (i, args[i] if i < len(args) else None, w), hk["l"])
        if i_resize is not None and i_resize > i_loop:
            viol("resize:order", "the truncation happens after the keywords are handled")
    i_wpi = top_index(aa["body"], lambda s: has_call(s, "applyGlobalWPIMULT"))
    i_end = top_index(aa["body"], lambda s: has_call(s, "end_report"))
    chk.instance(r_ord, "close", sample=dict(applyGlobalWPIMULT=i_wpi, end_report=i_end))
    if i_end is None or i_loop is None or i_end < i_loop or show(strip(body[i_end])["a"][0]) != step:
        viol("end_report", "the step must be closed with end_report(%s) after all keywords have been handled" % step)
    if i_wpi is None or (i_end is not None and i_wpi > i_end) or (i_loop is not None and i_wpi < i_loop):
        viol("applyGlobalWPIMULT", "accumulated WPIMULT factors must be applied after the keywords and before the step is closed")
    tails = [(i, s) for i, s in enumerate(body) if s["k"] == "If" and any(c.get("m") == "iterateScheduleSection" for c in walk(s["then"]) if c["k"] == "MCall")]
    if len(tails) != 1:
        viol("tail", "the later report steps are no longer re-built exactly once")
    else:
        i_t, t = tails[0]
        cond = show(t["cond"])
        it = [c for c in walk(t["then"]) if c["k"] == "MCall" and c.get("m") == "iterateScheduleSection"][0]
        args = [show(a) for a in it["a"]]
        envt = {v["n"]: show(v.get("init")) for s in walk(t["then"]) if s["k"] == "Decl" for v in s["vars"]}
        chk.instance(r_ord, "tail", sample=dict(guard=cond, args=args[:2], keepKeywords=envt.get("keepKeywords")))
        if cond != "(%s < (this.m_sched_deck.size() - 1))" % step:
            viol("tail:guard", "the re-iteration is guarded by %s; it must run whenever later blocks exist" % cond, t["l"])
        if args[:2] != ["(%s + 1)" % step, "this.m_sched_deck.size()"]:
            viol("tail:range", "the re-iteration covers (%s); it must cover blocks %s + 1 .. size()" % (", ".join(args[:2]), step), it["l"])
        keep = args[7] if len(args) > 7 else None
        if not (keep == "true" or envt.get(keep) == "true"):
            viol("tail:keep", "the re-iteration must keep the stored keywords (keepKeywords = true), otherwise a second action cannot re-build the tail", it["l"])
        if i_end is not None and i_t < i_end:
            viol("tail:order", "the tail is re-built before the action's step is closed")
    # iterateScheduleSection creates the next state before handling its block and closes it afterwards
    its = fx.fn1("Opm::Schedule::iterateScheduleSection")
    loops = [n for n in walk(its["body"]) if n["k"] == "For" and any(c.get("m") == "create_next" for c in walk(n["body"]) if c["k"] == "MCall")]
    if len(loops) != 1:
        raise core.AnalysisBroken("iterateScheduleSection: block loop not found")
    order = [c["m"] for c in walk(loops[0]["body"]) if c["k"] == "MCall" and c.get("m") in ("create_next", "handleKeyword", "end_report") and (c.get("cls") == "Opm::Schedule")]
    chk.instance(r_ord, "iterate", sample=order)
    if not order or order[0] != "create_next" or order[-1] != "end_report" or "handleKeyword" not in order:
        viol("iterate", "iterateScheduleSection no longer runs create_next, handleKeyword..., end_report per block: %s" % order)

    # ---- C04.keep: the stored keywords survive construction whenever an action could later re-build the tail
    r_keep = chk.rule("C04.keep", "the Schedule constructor keeps the stored keywords whenever the input (or the restart file) contains an ACTIONX/PYACTION, whatever the caller asked for (decision table over 5 atoms)", floor=32)
    ctors = [f for f in fx.fns if f["q"] == "Opm::Schedule::Schedule" and any(p["n"] == "keepKeywords" for p in f["params"]) and f.get("body")
             and any(c.get("m") == "iterateScheduleSection" for c in walk(f["body"]) if c["k"] == "MCall")]
    if len(ctors) != 1:
        raise core.AnalysisBroken("the Schedule constructor that iterates the SCHEDULE section was not found (%d)" % len(ctors))
    ct = ctors[0]
    import itertools

    def batom(e, val):
        t = show(e).replace("std::basic_string<char>", "std::string")
        t = re.sub(r"(?:const )?std::string\{(\"[A-Z]+\"), <default>\}", r"\1", t)
        if t == "keepKeywords":
            return val["K"]
        if t == 'section.has_keyword("ACTIONX")':
            return val["A"]
        if t == 'section.has_keyword("PYACTION")':
            return val["P"]
        if t == "rst":
            return val["R"]
        if t in ("(!(->rst).actions.empty())", "(!rst.actions.empty())"):
            return val["RA"]
        return None

    def beval(e, val):
        e = strip(e)
        v = batom(e, val)
        if v is not None:
            return v
        if e["k"] == "Bin" and e["op"] == "||":
            return beval(e["c"][0], val) or beval(e["c"][1], val)
        if e["k"] == "Bin" and e["op"] == "&&":
            return beval(e["c"][0], val) and beval(e["c"][1], val)
        if e["k"] == "Un" and e["op"] == "!":
            return not beval(e["c"][0], val)
        raise core.AnalysisBroken("Schedule constructor: unrecognised condition on keepKeywords: %s" % show(e))

    def interp(stmts, val, seen):
        for s_ in stmts:
            if s_["k"] == "If":
                touches = any((x["k"] == "Ref" and x["n"] == "keepKeywords") or (x["k"] == "MCall" and x.get("m") == "iterateScheduleSection") for x in walk(s_))
                if not touches:
                    continue
                if beval(s_["cond"], val):
                    interp(stmt_list(s_["then"]), val, seen)
                elif s_.get("else"):
                    interp(stmt_list(s_["else"]), val, seen)
            elif s_["k"] == "Bin" and s_["op"] == "=" and show(s_["c"][0]) == "keepKeywords":
                val["K"] = beval(s_["c"][1], val)
            else:
                for c in walk(s_):
                    if c["k"] == "MCall" and c.get("m") == "iterateScheduleSection":
                        seen.append(beval(c["a"][7], val))
    import re
    for bits in itertools.product([False, True], repeat=5):
        val0 = dict(zip(["K", "A", "P", "R", "RA"], bits))
        val = dict(val0)
        seen = []
        top = stmt_list(ct["body"])
        if len(top) == 1 and top[0]["k"] == "Try":      # function-try-block
            top = stmt_list(top[0]["body"])
        interp(top, val, seen)
        want = val0["K"] or val0["A"] or val0["P"] or (val0["R"] and val0["RA"])
        key = "".join("1" if val0[k] else "0" for k in ["K", "A", "P", "R", "RA"])
        chk.instance(r_keep, key, sample=dict(asked=val0["K"], has_actionx=val0["A"], has_pyaction=val0["P"], restart=val0["R"], restart_has_actions=val0["RA"], kept=seen))
        if not seen or any(v != want for v in seen):
            chk.violation(r_keep, key, "Schedule constructor: with keepKeywords=%s, ACTIONX in input=%s, PYACTION in input=%s, restart=%s with actions=%s the section is iterated with keepKeywords=%s; it must be %s, otherwise a later applyAction re-builds the following report steps from emptied blocks" % (
                val0["K"], val0["A"], val0["P"], val0["R"], val0["RA"], seen, want), ct["file"], ct["l"])
    # and iterateScheduleSection only clears when told not to keep
    clr = [n for n in walk(its["body"]) if n["k"] == "If" and any(c.get("m") == "clearKeywords" for c in walk(n["then"]) if c["k"] == "MCall")]
    chk.instance(r_keep, "clear-guard", sample=[show(n["cond"]) for n in clr])
    if len(clr) != 1 or show(clr[0]["cond"]) != "(!keepKeywords)":
        chk.violation(r_keep, "clear-guard", "iterateScheduleSection clears the stored keywords under %s; it must be exactly `!keepKeywords`" % [show(n["cond"]) for n in clr], its["file"], its["l"])

    # ---- C04.mode
    r_mode = chk.rule("C04.mode", "only the documented places read the action-mode parameters of HandlerContext; every other handler behaves identically in action and input mode", floor=10)
    seen = {}
    for f in fns:
        if not f.get("body"):
            continue
        for n in walk_fn(f):
            if n["k"] == "Mem" and n.get("cls") == "Opm::HandlerContext" and n["n"] in MODE_READERS:
                seen.setdefault((n["n"], f["q"]), (f, n))
    for (mem, q), (f, n) in sorted(seen.items()):
        chk.instance(r_mode, "%s:%s" % (mem, q), sample=dict(member=mem, function=q, reason=MODE_READERS[mem].get(q)))
        if q not in MODE_READERS[mem]:
            chk.violation(r_mode, "%s:%s" % (mem, q), "%s reads HandlerContext::%s: this keyword behaves differently when it is applied from an ACTIONX than when it is written in the input" % (q, mem), f["file"], n["l"])
    for mem, fnsok in MODE_READERS.items():
        for q in fnsok:
            if (mem, q) not in seen:
                chk.info(r_mode, "documented reader %s of %s no longer exists" % (q, mem))
    # bookkeeping methods only write into the pointee
    for q in MODE_READERS["sim_update"]:
        f = fx.fn1(q)
        writes = [show(n) for n in walk(f["body"]) if (n["k"] == "Bin" and n.get("asg")) or (n["k"] == "MCall" and not n.get("const"))]
        bad = [w for w in writes if "sim_update" not in w]
        chk.instance(r_mode, "book:" + q, sample=writes)
        if bad:
            chk.violation(r_mode, "book:" + q, "%s does more than record into *sim_update: %s" % (q, bad), f["file"], f["l"])
    # the two call sites of handleKeyword differ only in the mode arguments
    calls = []
    for f in fns:
        if f.get("body") and f.get("cls") == "Opm::Schedule":
            for n in walk_fn(f):
                if n["k"] == "MCall" and n.get("fn") == "Opm::Schedule::handleKeyword":
                    calls.append((f, n))
    chk.instance(r_mode, "handleKeyword:sites", sample=[(f["q"], n["l"]) for f, n in calls])
    modes = {}
    for f, n in calls:
        modes[f["q"]] = show(n["a"][7]) if len(n["a"]) > 7 else None
    if modes.get("Opm::Schedule::applyAction") != "true" or modes.get("Opm::Schedule::iterateScheduleSection") != "false":
        chk.violation(r_mode, "handleKeyword:mode", "actionx_mode must be true exactly at the applyAction call site and false in iterateScheduleSection: %s" % modes, aa["file"], aa["l"])

    # ---- C04.event
    r_ev = chk.rule("C04.event", "the only direct write of applyAction to the current state is the ACTIONX_WELL_EVENT marker, guarded by a non-empty set of affected wells", floor=2)
    adds = [n for n in walk(aa["body"]) if n["k"] == "MCall" and n.get("m") == "addEvent"]
    evs = sorted({x["n"] for a in adds for x in walk(a) if x["k"] == "Ref" and x.get("d") == "Enum"})
    guard = [s for s in body if s["k"] == "If" and any(a is x for a in adds for x in walk(s["then"]))]
    chk.instance(r_ev, "marker", sample=dict(events=evs, guard=show(guard[0]["cond"]) if guard else None))
    if evs != ["ACTIONX_WELL_EVENT"] or len(guard) != 1 or show(guard[0]["cond"]) != "(!sim_update.affected_wells.empty())":
        chk.violation(r_ev, "marker", "applyAction adds events %s under guard %s; state n may differ from the inlined schedule only by the ACTIONX_WELL_EVENT marker of the affected wells" % (evs, show(guard[0]["cond"]) if guard else None), aa["file"], aa["l"])
    # the marker goes on state n: it is written through snapshots.back() while the last state is still the action's step, i.e.
    # before the later report steps are re-built - or it addresses snapshots[reportStep] explicitly
    step_param = aa["params"][0]["n"]
    rebuild = [i for i, s_ in enumerate(body) if any(x["k"] == "MCall" and x.get("m") == "iterateScheduleSection" for x in walk(s_))]
    if guard and rebuild:
        gi = [i for i, s_ in enumerate(body) if s_ is guard[0]]
        via_back = any(x["k"] == "MCall" and x.get("m") == "back" for a_ in adds for x in walk(a_))
        explicit = any(__import__("rules.C05", fromlist=["subscript"]).subscript(x) and show(strip(__import__("rules.C05", fromlist=["subscript"]).subscript(x)[1])) == step_param for a_ in adds for x in walk(a_) if x["k"] in ("Idx", "OpCall"))
        chk.instance(r_ev, "marker:state", sample=dict(marker_statement=gi, rebuild_statement=rebuild, through_back=via_back, indexed_by_step=explicit))
        if not explicit and (not via_back or not gi or gi[0] > min(rebuild)):
            chk.violation(r_ev, "marker:state", "applyAction adds the ACTIONX_WELL_EVENT marker through snapshots.back() AFTER the later report steps have been re-built: back() is then the last report step, so state n loses the marker and the last state gets one the inlined schedule does not have", aa["file"], guard[0]["l"])
    direct = []
    for n in walk(aa["body"]):
        if n["k"] == "Mem" and n["n"] == "snapshots" and n.get("cls") == "Opm::Schedule":
            for kind, node, why in cow.classify(aa, n, via="snapshots"):
                if kind != "safe":
                    direct.append((node.get("l"), why))
    chk.instance(r_ev, "direct-writes", sample=direct)
    allowed = ("std::vector::resize", "Opm::ScheduleState::events ", "Opm::ScheduleState::wellgroup_events ")
    glines = range(guard[0]["l"], max([x.get("l", 0) for x in walk(guard[0]["then"])] + [guard[0]["l"]]) + 1) if guard else range(0)
    bad = [d for d in direct if not any(a in d[1] + " " for a in allowed) or ("ScheduleState::" in d[1] and d[0] not in glines)]
    if bad:
        chk.violation(r_ev, "direct", "applyAction writes the schedule states directly outside resize/handleKeyword/end_report/event marker: %s" % bad, aa["file"], bad[0][0])

    # ---- copy-on-write on everything keyword handling can reach (shared with C03)
    closure = C03.closure_from(fx, C03.SS)
    C03.run_escape(chk, fx, fns, prefix="C04")
    C03.run_through(chk, fx, fns, closure, prefix="C04")
    C03.run_inplace(chk, fx, fns, prefix="C04")
    C03.run_items(chk, fx, prefix="C04")
    # ---- C04.store: the action keeps the keywords it is given, in order, and hands exactly them to applyAction
    r_st4 = chk.rule("C04.store", "ActionX keeps its keywords: addKeyword appends the keyword to the member sequence (push_back / emplace_back, nothing else), begin()/end() - what applyAction iterates over - are begin and end of that same sequence; the handler of ACTIONX in the SCHEDULE section hands every keyword of the block to addKeyword", floor=3)
    ax4 = chk.facts(["opm/input/eclipse/Schedule/Action/ActionX.cpp"], files_re=r"^/repo/opm/input/eclipse/Schedule/Action/ActionX\.(cpp|hpp)$")
    ak = [f for f in ax4.fns if f["n"] == "addKeyword" and (f.get("cls") or "").endswith("ActionX") and f.get("body")]
    if len(ak) != 1:
        raise core.AnalysisBroken("ActionX::addKeyword not found")
    ak = ak[0]
    kp = ak["params"][0]["n"]
    body4 = [show(x) for x in stmt_list(ak["body"])]
    m4 = re.fullmatch(r"this\.(\w+)\.(push_back|emplace_back)\(%s\)" % kp, body4[0]) if len(body4) == 1 else None
    chk.instance(r_st4, "addKeyword", sample=dict(body=body4))
    if not m4:
        chk.violation(r_st4, "addKeyword", "ActionX::addKeyword does %s; it appends its argument to the action's keyword sequence - otherwise the action, when it triggers, applies fewer (or no) keywords than the same block inlined" % body4, ak["file"], ak["l"])
    else:
        seqm = m4.group(1)
        for nm_ in ("begin", "end"):
            bf = [f for f in ax4.fns if f["n"] == nm_ and (f.get("cls") or "").endswith("ActionX") and f.get("body")]
            if len(bf) != 1:
                raise core.AnalysisBroken("ActionX::%s not found" % nm_)
            bt = [show(x) for x in stmt_list(bf[0]["body"])]
            chk.instance(r_st4, nm_, sample=dict(body=bt))
            if bt != ["return this.%s.%s();" % (seqm, nm_)]:
                chk.violation(r_st4, nm_, "ActionX::%s() returns %s; applyAction iterates the action from begin() to end(), which are those of the keyword sequence `%s`" % (nm_, bt, seqm), bf[0]["file"], bf[0]["l"])

    # ---- C04.wellorder: the well names a keyword receives come in the model's well order on every route
    r_wo = chk.rule("C04.wellorder", "the list of wells a keyword handler receives is in well-definition order whatever it came from - the '?' of an ACTIONX (the matching wells, sorted by the step's WellMatcher), a well list, a pattern or a name: Schedule::wellNames(pattern, step, matching) returns only WellMatcher results; WellMatcher::wells returns a subsequence of the well order, a sorted list or at most one name; WellMatcher::sort delegates to NameOrder::sort, which orders by insertion index", floor=8)
    wx = chk.facts(["opm/input/eclipse/Schedule/Schedule.cpp", "opm/input/eclipse/Schedule/Well/WellMatcher.cpp", "opm/input/eclipse/Schedule/Well/NameOrder.cpp"])

    def leaves(e):
        e = strip(e)
        while e.get("k") in ("Ctor", "Temp", "Bind", "Cast") and len([c for c in (e.get("a") or e.get("c") or []) if c.get("k") != "DefArg"]) == 1 and (e.get("k") != "Ctor" or "vector" in (e.get("t") or "")) and strip([c for c in (e.get("a") or e.get("c")) if c.get("k") != "DefArg"][0]).get("k") in ("Cond", "MCall", "Call", "Ref", "Ctor", "Temp", "Bind", "Cast"):
            e = strip([c for c in (e.get("a") or e.get("c")) if c.get("k") != "DefArg"][0])
        if e.get("k") == "Cond":
            return leaves(e["c"][1]) + leaves(e["c"][2])
        return [e]

    def returns(f):
        return [n for n in walk(f["body"], skip_lambda=True) if n["k"] == "Return" and isinstance(n.get("e"), dict)]
    wn = [f for f in wx.fn("Opm::Schedule::wellNames") if len(f["params"]) == 3 and "vector" in f["params"][2]["t"]]
    if len(wn) != 1:
        raise core.AnalysisBroken("Schedule::wellNames(pattern, step, matching_wells) not found")
    wn = wn[0]
    pat, stp, mat = [p_["n"] for p_ in wn["params"]]
    wms = {v["n"] for n in walk(wn["body"]) if n["k"] == "Decl" for v in n["vars"] if isinstance(v.get("init"), dict) and show(strip(v["init"])) in ("this.wellMatcher(%s)" % stp,)}
    for r_ in returns(wn):
        for lf in leaves(r_["e"]):
            t = show(lf)
            ok = any(t in ("%s.sort(%s)" % (w, mat), "%s.wells(%s)" % (w, pat)) for w in wms)
            chk.instance(r_wo, "wellNames:%s" % t[:40], sample=dict(function=wn["q"], returns=t))
            if not ok:
                chk.violation(r_wo, "wellNames:%s" % t[:40], "Schedule::wellNames(pattern, step, matching wells) returns `%s`: the names do not pass through the WellMatcher of the step (sort(%s) for '?', wells(%s) otherwise), so a keyword applied from an ACTIONX sees its wells in another order than the same keyword in the input" % (t, mat, pat), wn["file"], r_["l"])
    qm = [n for n in walk(wn["body"]) if n["k"] == "Cond" and show(strip(n["c"][0])) in ('(%s == "?")' % pat,)]
    chk.instance(r_wo, "wellNames:?", sample=dict(cond=[show(n["c"][0]) for n in qm]))
    if len(qm) != 1 or not any(show(strip(qm[0]["c"][1])) == "%s.sort(%s)" % (w, mat) for w in wms):
        chk.violation(r_wo, "wellNames:?", "Schedule::wellNames: the pattern '?' no longer selects the action's matching wells sorted into well order", wn["file"], wn["l"])
    wl = [f for f in wx.fn("Opm::WellMatcher::wells") if len(f["params"]) == 1]
    ws = wx.fn("Opm::WellMatcher::sort")
    ns = wx.fn("Opm::NameOrder::sort")
    if len(wl) != 1 or len(ws) != 1 or len(ns) != 1:
        raise core.AnalysisBroken("WellMatcher::wells(pattern) / WellMatcher::sort / NameOrder::sort not found")
    wl, ws, ns = wl[0], ws[0], ns[0]
    for r_ in returns(wl):
        for lf in leaves(r_["e"]):
            t = show(lf)
            kids = [c for c in (lf.get("a") or lf.get("c") or []) if isinstance(c, dict) and c.get("k") != "DefArg"]
            ok = False
            why = ""
            if lf.get("k") in ("Ctor", "InitList", "Temp") and len(kids) <= 1 and not (kids and "vector" in (kids[0].get("t") or "")):
                ok, why = True, "at most one name"
            elif lf.get("k") == "MCall" and lf.get("m") == "sort" and show(strip(lf.get("obj"))) == "this":
                ok, why = True, "sorted"
            elif lf.get("k") == "Ref" and lf.get("d") == "Var":
                nm = lf["n"]
                fills = [n for n in walk(wl["body"], skip_lambda=True) if n["k"] in ("Call", "MCall") and any(x.get("k") == "Ref" and x.get("n") == nm for a_ in (n.get("a") or []) + ([n["obj"]] if isinstance(n.get("obj"), dict) else []) for x in walk(a_))]
                writers = [n for n in fills if not (n["k"] == "MCall" and n.get("m") in ("reserve", "shrink_to_fit", "size", "empty"))]
                ok = len(writers) >= 1 and all(n["k"] == "Call" and (n.get("fn") or "").endswith("copy_if") and show(n["a"][0]) == "this.m_well_order.begin()" and show(n["a"][1]) == "this.m_well_order.end()" for n in writers if not ((n.get("fn") or "").endswith("back_inserter")))
                why = "copy_if over the well order"
            chk.instance(r_wo, "wells:%s" % t[:40], sample=dict(function=wl["q"], returns=t, ordered_because=why))
            if not ok:
                chk.violation(r_wo, "wells:%s" % t[:40], "WellMatcher::wells(pattern) returns `%s`, which is neither sorted into well order (this->sort), nor filtered from the well order in place, nor a single name" % t, wl["file"], r_["l"])
    ts = [show(lf) for r_ in returns(ws) for lf in leaves(r_["e"])]
    cnd = [n for n in walk(ws["body"]) if n["k"] == "Cond"]
    pw = ws["params"][0]["n"]
    ok = len(cnd) == 1 and show(strip(cnd[0]["c"][0])) == "(this.m_well_order != nullptr)" and show(strip(cnd[0]["c"][1])) in ("this.m_well_order.sort(std::move(%s))" % pw, "this.m_well_order.sort(%s)" % pw)
    chk.instance(r_wo, "WellMatcher::sort", sample=dict(returns=ts))
    if not ok:
        chk.violation(r_wo, "WellMatcher::sort", "WellMatcher::sort returns %s: with a well order present the names must be ordered by it (m_well_order->sort(wells))" % ts, ws["file"], ws["l"])
    srt = [n for n in walk(ns["body"], skip_lambda=True) if n["k"] == "Call" and (n.get("fn") or "") in ("std::sort", "std::stable_sort")]
    pn_ = ns["params"][0]["n"]
    ok = False
    cmp_txt = None
    if len(srt) == 1 and show(srt[0]["a"][0]) == "%s.begin()" % pn_ and show(srt[0]["a"][1]) == "%s.end()" % pn_ and len(srt[0]["a"]) == 3:
        lam = [x for x in walk(srt[0]["a"][2]) if x["k"] == "Lambda"]
        if len(lam) == 1 and len(lam[0].get("params") or []) == 2:
            a_, b_ = [p_["n"] for p_ in lam[0]["params"]]
            rr = [n for n in walk(lam[0]["body"]) if n["k"] == "Return"]
            cmp_txt = show(rr[0]["e"]) if len(rr) == 1 else None
            ok = cmp_txt in ("(this.m_index_map.at(%s) < this.m_index_map.at(%s))" % (a_, b_), "(this.m_index_map.at(%s) > this.m_index_map.at(%s))" % (b_, a_))
    rets = [show(r_["e"]) for r_ in returns(ns)]
    ok = ok and rets == [pn_]
    chk.instance(r_wo, "NameOrder::sort", sample=dict(comparator=cmp_txt, returns=rets))
    if not ok:
        chk.violation(r_wo, "NameOrder::sort", "NameOrder::sort: the names must be sorted by ascending insertion index (m_index_map.at(a) < m_index_map.at(b)) and returned; found comparator %s, returns %s" % (cmp_txt, rets), ns["file"], ns["l"])

    from verif import fallthrough
    fallthrough.run(chk, "C04", floor=2)
    from verif import patname
    patname.run(chk, "C04", floor=45)
    from verif import moved
    moved.run(chk, "C04", r"^/repo/opm/input/eclipse/Schedule/", floor=95)
    from verif import argorder
    argorder.run(chk, "C04", floor=45)

    chk.assumptions += [
        "the C03 copy-on-write rules are evaluated on every library function (a superset of what applyAction reaches)",
        "documented mode-dependent keywords: WELPI, UDQ '?' substitution (tables in rules/C04.py)",
    ]
