"""C17  UDQ expression semantics — grammar stratification, token classes, name->function tables.

Decides precedence/associativity as encoded in the structure of the recursive-descent parser
(C17.strat), the guards of every level (C17.guard), left-nesting of the iterative levels
(C17.assoc), consistency of the token classes (C17.class), agreement of the name->token and
name->implementation tables (C17.table), that each implementation applies the operator its name
says (C17.impl) and operator pairing in UDQScalar/UDQSet arithmetic (C17.arith).
Not decided: set arithmetic on concrete values, ASSIGN/DEFINE/UPDATE ordering over report steps.
"""
import re

from verif import core
from verif.tree import plain_num, walk, walk_fn, show, stmt_list, meth, strip

LEVEL = "other"
PARSER = "opm/input/eclipse/Schedule/UDQ/UDQParser.cpp"
ENUMS = "opm/input/eclipse/Schedule/UDQ/UDQEnums.cpp"
FTABLE = "opm/input/eclipse/Schedule/UDQ/UDQFunctionTable.cpp"
FUNCS = "opm/input/eclipse/Schedule/UDQ/UDQFunction.cpp"
SET = "opm/input/eclipse/Schedule/UDQ/UDQSet.cpp"

# documented order, loosest first (the property statement)
LEVELS = ["parse_set", "parse_cmp", "parse_add", "parse_mul", "parse_pow", "parse_factor"]
RANK = {n: i for i, n in enumerate(LEVELS)}
GUARD = {
    "parse_pow": {"binary_op_pow"},
    "parse_mul": {"binary_op_mul", "binary_op_div"},
    "parse_add": {"binary_op_add", "binary_op_sub"},
    "parse_cmp": {"cmpFunc"},
    "parse_set": {"setFunc"},
}
ITERATIVE = ("parse_add", "parse_mul")

# name -> implementation, from the documented meaning of each UDQ function/operator name
NAME_IMPL = {
    "SUM": "SUM", "AVEA": "AVEA", "AVEG": "AVEG", "AVEH": "AVEH", "MAX": "UDQ_MAX", "MIN": "UDQ_MIN",
    "NORM1": "NORM1", "NORM2": "NORM2", "NORMI": "NORMI", "PROD": "PROD",
    "ABS": "ABS", "DEF": "DEF", "EXP": "EXP", "IDV": "IDV", "LN": "LN", "LOG": "LOG", "NINT": "NINT",
    "SORTA": "SORTA", "SORTD": "SORTD", "UNDEF": "UNDEF",
    "RANDN": "RANDN", "RANDU": "RANDU", "RRNDN": "RANDN", "RRNDU": "RANDU",
    "==": "EQ", "!=": "NE", ">=": "GE", "<=": "LE", "^": "POW", "<": "LT", ">": "GT",
    "+": "ADD", "*": "MUL", "/": "DIV", "-": "SUB", "UADD": "UADD", "UMUL": "UMUL", "UMIN": "UMIN", "UMAX": "UMAX",
}
NAME_TOKEN = {
    "+": "binary_op_add", "-": "binary_op_sub", "/": "binary_op_div", "DIV": "binary_op_div", "*": "binary_op_mul", "^": "binary_op_pow",
    "UADD": "binary_op_uadd", "UMUL": "binary_op_umul", "UMIN": "binary_op_umin", "UMAX": "binary_op_umax",
    "==": "binary_cmp_eq", "!=": "binary_cmp_ne", "<=": "binary_cmp_le", ">=": "binary_cmp_ge", "<": "binary_cmp_lt", ">": "binary_cmp_gt",
    "RANDN": "elemental_func_randn", "RANDU": "elemental_func_randu", "RRNDN": "elemental_func_rrandn", "RRNDU": "elemental_func_rrandu",
    "ABS": "elemental_func_abs", "DEF": "elemental_func_def", "EXP": "elemental_func_exp", "IDV": "elemental_func_idv",
    "LN": "elemental_func_ln", "LOG": "elemental_func_log", "NINT": "elemental_func_nint", "SORTA": "elemental_func_sorta",
    "SORTD": "elemental_func_sortd", "UNDEF": "elemental_func_undef",
    "SUM": "scalar_func_sum", "AVEA": "scalar_func_avea", "AVEG": "scalar_func_aveg", "AVEH": "scalar_func_aveh",
    "MAX": "scalar_func_max", "MIN": "scalar_func_min", "NORM1": "scalar_func_norm1", "NORM2": "scalar_func_norm2",
    "NORMI": "scalar_func_normi", "PROD": "scalar_func_prod",
}
# names the tokenizer accepts that are not part of the documented expression language
UNDOCUMENTED = {"DIV": "alias of '/' known to the tokenizer only; not in the documented operator set, evaluating it throws"}
TOKEN_CLASS = {"binary": "UDQBinaryFunction", "scalar_func": "UDQScalarFunction", "elemental_func": "UDQUnaryElementalFunction"}


def token_refs(n):
    """UDQTokenType enumerators and class predicates mentioned in an expression."""
    out = set()
    for x in walk(n):
        if x["k"] == "Ref" and x.get("d") == "Enum" and (x.get("q") or "").startswith("Opm::UDQTokenType::"):
            out.add(x["n"])
        if x["k"] == "Call" and (x.get("fn") or "").startswith("Opm::UDQ::") and x["fn"].split("::")[-1] in ("cmpFunc", "setFunc", "scalarFunc", "elementalUnaryFunc", "binaryFunc"):
            out.add(x["fn"].split("::")[-1])
    return out


def calls_in(n, names):
    return [x for x in walk(n) if x["k"] == "MCall" and x.get("m") in names]


def run(chk):
    fx = chk.facts([PARSER, ENUMS, FTABLE, FUNCS, SET])
    pf = {}
    for name in LEVELS:
        fns = [f for f in fx.fns if f["n"] == name and f["file"].endswith("UDQParser.cpp")]
        if len(fns) != 1:
            raise core.AnalysisBroken("UDQParser::%s: expected one definition, found %d" % (name, len(fns)))
        pf[name] = fns[0]
    others = [f["n"] for f in fx.fns if f["file"].endswith("UDQParser.cpp") and f["n"].startswith("parse_") and f["n"] not in LEVELS]
    if others:
        raise core.AnalysisBroken("UDQParser has parse levels unknown to the rule: %s" % others)

    # ---- C17.strat
    r_strat = chk.rule("C17.strat", "a parse level only calls the next-tighter level (or itself on the right of its operator); only parse_factor may re-enter the loosest level, and only inside parentheses", floor=10)
    for name in LEVELS:
        fn = pf[name]
        for c in calls_in(fn["body"], set(LEVELS)):
            callee = c["m"]
            key = "%s->%s@%s" % (name, callee, "first" if c is calls_in(fn["body"], set(LEVELS))[0] else "later")
            ok = False
            why = ""
            if name == "parse_factor":
                ok = callee == "parse_set"
                why = "parenthesised sub-expression / function argument restarts at the loosest level"
            else:
                nxt = LEVELS[RANK[name] + 1]
                ok = callee == nxt or callee == name
                why = "operand of %s must be parsed by %s (or %s itself)" % (name, nxt, name)
            chk.instance(r_strat, "%s->%s:%d" % (name, callee, c["l"]), sample=dict(level=name, calls=callee, line=c["l"], ok=ok))
            if not ok:
                rel = "looser" if RANK[callee] < RANK[name] else "not adjacent"
                chk.violation(r_strat, "%s->%s" % (name, callee),
                              "%s parses an operand with %s, a %s level: operators of %s then bind tighter than those of %s, against the documented order (%s)" % (
                                  name, callee, rel, callee, name, " < ".join(x[6:] for x in LEVELS)), fn["file"], c["l"], expected=why)
        # first operand must be the next level
        if name != "parse_factor":
            first = calls_in(fn["body"], set(LEVELS))
            if not first:
                raise core.AnalysisBroken("%s calls no parse level" % name)
    # parse_factor: every parse_set call must follow the consumption of open_paren
    ff = pf["parse_factor"]
    for iff in [n for n in walk(ff["body"]) if n["k"] == "If"]:
        inner = calls_in(iff["then"], {"parse_set"})
        if not inner:
            continue
        direct = [c for c in inner]
        toks = token_refs(iff["cond"])
        # the innermost If containing the call decides
        nested = [n for n in walk(iff["then"]) if n["k"] == "If" and calls_in(n["then"], {"parse_set"})]
        if nested:
            continue
        chk.instance(r_strat, "factor-paren:%d" % iff["l"], sample=dict(guard=sorted(toks), line=iff["l"]))
        closes = [n for n in walk(iff["then"]) if n["k"] == "If" and "close_paren" in token_refs(n["cond"])]
        if toks != {"open_paren"} or not closes:
            chk.violation(r_strat, "factor-paren", "parse_factor re-enters parse_set outside a parenthesis pair (guard %s)" % sorted(toks), ff["file"], iff["l"])

    # ---- C17.guard
    r_guard = chk.rule("C17.guard", "each level consumes exactly the operator tokens of its rank", floor=5)
    for name, want in GUARD.items():
        fn = pf[name]
        got = set()
        for iff in [n for n in walk(fn["body"]) if n["k"] == "If"]:
            # a guard is an If whose then-branch consumes a token (this->next()) and parses / records an operator
            if calls_in(iff["then"], {"next"}) and not calls_in(iff["cond"], {"empty"}):
                t = token_refs(iff["cond"])
                if t:
                    got |= t
        chk.instance(r_guard, name, sample=dict(level=name, consumes=sorted(got), expected=sorted(want)))
        if got != want:
            chk.violation(r_guard, name, "%s consumes the tokens %s; its rank in the documented order owns %s" % (name, sorted(got), sorted(want)), fn["file"], fn["l"])
    # parse_add's stop set (tokens that legitimately end a sum)
    stops = set()
    for iff in [n for n in walk(pf["parse_add"]["body"]) if n["k"] == "If"]:
        if stmt_list(iff["then"]) and stmt_list(iff["then"])[-1]["k"] == "Break" and token_refs(iff["cond"]):
            stops |= token_refs(iff["cond"])
    chk.instance(r_guard, "parse_add:stop", sample=sorted(stops))
    if stops != {"close_paren", "cmpFunc", "setFunc"}:
        chk.violation(r_guard, "parse_add:stop", "parse_add stops at %s; looser operators are exactly close_paren, comparisons and set operators" % sorted(stops), pf["parse_add"]["file"], pf["parse_add"]["l"])

    # ---- C17.assoc
    r_assoc = chk.rule("C17.assoc", "+ - * / build left-nested trees (left-to-right evaluation); ^, comparisons and set operators recurse on the right", floor=5)
    for name in ITERATIVE:
        fn = pf[name]
        sr = calls_in(fn["body"], {"set_right"})
        sl = calls_in(fn["body"], {"set_left"})
        gl = calls_in(fn["body"], {"get_left"})
        loops = [n for n in walk(fn["body"]) if n["k"] == "For" and calls_in(n["body"], {"set_left"})]
        desc = bool(loops) and "--" in show(loops[0].get("inc")) and "nodes.size()" in show(loops[0].get("init")) and "(nodes.size() - 1)" in show(loops[0].get("init"))
        arg = show(sl[0]["a"][0]) if sl else ""
        top = [v for n in walk(fn["body"]) if n["k"] == "Decl" for v in n["vars"] if v["n"] == "top_node"]
        ok = len(sr) == 1 and len(sl) == 1 and len(gl) == 1 and desc and arg == "nodes[(index - 1)]" and top and show(top[0]["init"]) == "nodes.back()"
        chk.instance(r_assoc, name, sample=dict(level=name, set_right=len(sr), set_left=arg, descending_loop=desc))
        if not ok:
            chk.violation(r_assoc, name, "%s no longer chains its operands into a left-nested tree (top = last operator, left children = earlier operators in order)" % name, fn["file"], fn["l"])
        if loops:
            lpc = show(strip(loops[0]["cond"])).replace(" ", "")
            lb = [show(x).replace(" ", "") for x in stmt_list(loops[0]["body"])]
            okc = lpc == "(index>0)" and len(lb) == 2 and "set_left(nodes[(index-1)])" in lb[0] and lb[1].startswith("(curr=") and "get_left()" in lb[1]
            if not okc:
                chk.violation(r_assoc, name + ":chain", "%s: the chaining loop must run index = size-1 ... 1 (index > 0) and do `curr->set_left(nodes[index-1]); curr = curr->get_left();` (found cond %s, body %s): the operator tree is no longer the left-nested one (or the loop never ends)" % (name, lpc, lb), fn["file"], loops[0]["l"])
        whiles = [n for n in walk(fn["body"]) if n["k"] == "While"]
        okw = False
        if len(whiles) == 1:
            first_if = [n for n in stmt_list(whiles[0]["body"]) if n["k"] == "If" and calls_in(n["then"], {"set_right"})]
            if len(first_if) == 1 and first_if[0].get("else") is not None:
                th = [show(x).replace(" ", "") for x in stmt_list(first_if[0]["then"])]
                el = [show(x).replace(" ", "") for x in stmt_list(first_if[0]["else"])]
                cd = show(strip(first_if[0]["cond"])).replace(" ", "")
                okw = "current_node" in cd and "!" not in cd and len(th) == 2 and "set_right(node)" in th[0] and th[1] == "nodes.push_back((*current_node))" and el == ["nodes.push_back(node)"]
        if not okw:
            chk.violation(r_assoc, name + ":attach", "%s: inside the operand loop a pending operator gets the operand just parsed as its RIGHT child and is then recorded, otherwise (first operand) the operand itself is recorded; this shape was not found" % name, fn["file"], fn["l"])
        # operand on the right of each operator is the next level, pushed in input order
        pb = [show(c) for c in calls_in(fn["body"], {"push_back"})]
        if sorted(pb) != sorted(["nodes.push_back((*current_node))", "nodes.push_back(node)"]):
            chk.violation(r_assoc, name + ":order", "%s no longer records operands/operators in input order: %s" % (name, pb), fn["file"], fn["l"])
    for name in ("parse_pow", "parse_cmp", "parse_set"):
        fn = pf[name]
        rets = [n for n in walk(fn["body"]) if n["k"] == "Return" and n.get("e") and n["e"]["k"] in ("InitList", "Ctor") and len(n["e"].get("a", n["e"].get("c", []))) == 4]
        args = [show(a) for a in (rets[0]["e"].get("a") or rets[0]["e"].get("c"))] if rets else []
        chk.instance(r_assoc, name, sample=dict(level=name, node=args))
        if len(rets) != 1 or args != ["curr.type", "curr.value", "left", "right"]:
            chk.violation(r_assoc, name, "%s no longer builds the node (operator, left, right) in operand order: %s" % (name, args), fn["file"], fn["l"])

    # ---- C17.paren: parentheses and the optional sign in parse_factor
    r_par = chk.rule("C17.paren", "parse_factor: a leading + or - is consumed and only the minus flips the sign; after '(' (a group, or the argument list of a scalar / elemental function) the token is consumed, a full set-level expression is parsed, ')' is REQUIRED (error node otherwise) and consumed, and the sign multiplies what is returned; a plain token is consumed after its node is built", floor=4)
    pfac = pf["parse_factor"]

    def tk_tests(cond):
        out = []
        for x in walk(cond):
            if x["k"] == "Bin" and x.get("op") in ("==", "!="):
                for y in x["c"]:
                    y = strip(y)
                    if y.get("k") == "Ref" and y.get("d") == "Enum" and "UDQTokenType" in (y.get("q") or ""):
                        out.append((x["op"], y["n"]))
        return out
    groups = [n for n in walk(pfac["body"]) if n["k"] == "If" and tk_tests(n["cond"]) and {t for o, t in tk_tests(n["cond"])} == {"open_paren"}]
    chk.instance(r_par, "groups", sample=dict(open_paren_branches=len(groups)))
    if len(groups) != 2:
        raise core.AnalysisBroken("parse_factor: expected two '(' branches (group, function arguments), found %d" % len(groups))
    for gi, g in enumerate(groups):
        seq = []
        for st in stmt_list(g["then"]):
            if st["k"] == "MCall" and st.get("m") == "next":
                seq.append("next")
            elif st["k"] == "Decl" and calls_in(st, {"parse_set"}):
                seq.append("parse_set")
            elif st["k"] == "If" and {t for o, t in tk_tests(st["cond"])} == {"close_paren"}:
                err = any(r_["k"] == "Return" and any(y.get("k") == "Ref" and y.get("n") == "error" for y in walk(r_.get("e") or {})) for r_ in walk(st["then"]))
                seq.append("close%s%s" % (tk_tests(st["cond"])[0][0], ":err" if err else ""))
            elif st["k"] == "Return":
                seq.append("return:sign" if any(y.get("k") == "Ref" and y.get("n") == "sign" for y in walk(st.get("e") or {})) else "return")
            elif st["k"] in ("Bin", "OpCall") and calls_in(st, {"current"}):
                pass
        key = "group%d" % (gi + 1)
        ok = tk_tests(g["cond"]) == [("==", "open_paren")] and seq == ["next", "parse_set", "close!=:err", "next", "return:sign"]
        chk.instance(r_par, key, sample=dict(test=tk_tests(g["cond"]), sequence=seq))
        if not ok:
            chk.violation(r_par, key, "parse_factor, '(' branch %d: expected consume '(', parse_set, require ')' (error node unless it is there), consume ')', return sign * node; found test %s and sequence %s" % (gi + 1, tk_tests(g["cond"]), seq), pfac["file"], g["l"])
    sg = [n for n in stmt_list(pfac["body"]) if n["k"] == "If" and {t for o, t in tk_tests(n["cond"])} == {"binary_op_add", "binary_op_sub"}]
    oks = False
    if len(sg) == 1:
        inner = [n for n in stmt_list(sg[0]["then"]) if n["k"] == "If"]
        oks = sorted(tk_tests(sg[0]["cond"])) == [("==", "binary_op_add"), ("==", "binary_op_sub")] and strip(sg[0]["cond"]).get("op") == "||" and len(inner) == 1 and tk_tests(inner[0]["cond"]) == [("==", "binary_op_sub")] \
            and any(x["k"] == "Bin" and x.get("asg") and show(strip(x["c"][0])) == "sign" and plain_num(show(strip(x["c"][1]))).replace(" ", "") in ("(-1)", "-1") for x in walk(inner[0]["then"])) and bool(calls_in(sg[0]["then"], {"next"}))
    chk.instance(r_par, "sign", sample=dict(ok=oks))
    if not oks:
        chk.violation(r_par, "sign", "parse_factor: a leading '+' or '-' must be consumed, and exactly the '-' sets the sign to -1", pfac["file"], pfac["l"])
    tail = stmt_list(pfac["body"])[-3:]
    okt = len(tail) == 3 and tail[0]["k"] == "Decl" and tail[1]["k"] == "MCall" and tail[1].get("m") == "next" and tail[2]["k"] == "Return" and any(y.get("k") == "Ref" and y.get("n") == "sign" for y in walk(tail[2].get("e") or {}))
    chk.instance(r_par, "plain", sample=dict(ok=okt))
    if not okt:
        chk.violation(r_par, "plain", "parse_factor: a plain token must be turned into a node, consumed (next()) and returned multiplied by the sign", pfac["file"], pfac["l"])

    # ---- C17.class
    r_class = chk.rule("C17.class", "token classes: cmp + set + arithmetic = binary; scalar/elemental/binary pairwise disjoint; every function token type is in exactly one class", floor=40)
    sets = {}
    for v in fx.vars:
        if v["file"].endswith("UDQEnums.cpp") and v["n"] in ("cmp_func", "binary_func", "set_func", "scalar_func", "unary_elemental_func"):
            sets[v["n"]] = [x["n"] for x in walk(v["init"]) if x["k"] == "Ref" and x.get("d") == "Enum"]
    if len(sets) != 5:
        raise core.AnalysisBroken("UDQEnums.cpp: token class sets not found: %s" % sorted(sets))
    for nm, lst in sets.items():
        if len(lst) != len(set(lst)):
            chk.violation(r_class, nm + ":dup", "%s lists a token type twice" % nm, None, None)
    S = {k: set(v) for k, v in sets.items()}
    arith = {"binary_op_add", "binary_op_sub", "binary_op_mul", "binary_op_div", "binary_op_pow"}
    tok_enum = fx.enums.get("Opm::UDQTokenType")
    if tok_enum is None:
        fh = chk.facts([ENUMS], files_re="^/repo/opm/input/eclipse/Schedule/UDQ/UDQEnums.hpp$", fn_re="^$")
        tok_enum = fh.enum1("Opm::UDQTokenType")
    all_tokens = [e["n"] for e in tok_enum["items"]]
    for t in all_tokens:
        fam = t.startswith(("binary_", "scalar_func_", "elemental_func_"))
        if not fam:
            continue
        inb, ins, inu = t in S["binary_func"], t in S["scalar_func"], t in S["unary_elemental_func"]
        chk.instance(r_class, t, sample=dict(token=t, binary=inb, scalar=ins, elemental=inu, cmp=t in S["cmp_func"], set=t in S["set_func"]))
        want = ("binary" if t.startswith("binary_") else "scalar" if t.startswith("scalar_func_") else "elemental")
        got = [n for n, b in (("binary", inb), ("scalar", ins), ("elemental", inu)) if b]
        if got != [want]:
            chk.violation(r_class, t, "token type %s is classified as %s; its family is %s" % (t, got or "nothing", want), fx.vars[0]["file"] if fx.vars else None, None)
        if t.startswith("binary_cmp_") != (t in S["cmp_func"]):
            chk.violation(r_class, t + ":cmp", "token type %s: membership in cmp_func (%s) contradicts its name" % (t, t in S["cmp_func"]), None, None)
        isset = t in ("binary_op_uadd", "binary_op_umul", "binary_op_umin", "binary_op_umax")
        if isset != (t in S["set_func"]):
            chk.violation(r_class, t + ":set", "token type %s: membership in set_func (%s) contradicts its name" % (t, t in S["set_func"]), None, None)
    if S["binary_func"] != S["cmp_func"] | S["set_func"] | arith:
        chk.violation(r_class, "binary=cmp+set+arith", "binary_func differs from cmp_func + set_func + {+,-,*,/,^}: %s" % sorted(S["binary_func"] ^ (S["cmp_func"] | S["set_func"] | arith)), None, None)
    # predicates use the right set
    for pred, setname in (("cmpFunc", "cmp_func"), ("setFunc", "set_func"), ("binaryFunc", "binary_func"), ("scalarFunc", "scalar_func"), ("elementalUnaryFunc", "unary_elemental_func")):
        f = fx.fn1("Opm::UDQ::" + pred)
        refs = {x["n"] for x in walk(f["body"]) if x["k"] == "Ref" and x.get("d") == "GVar"}
        chk.instance(r_class, "pred:" + pred, sample=dict(predicate=pred, set=sorted(refs)))
        if refs != {setname}:
            chk.violation(r_class, "pred:" + pred, "UDQ::%s consults %s instead of %s" % (pred, sorted(refs), setname), f["file"], f["l"])

    # ---- C17.table
    r_table = chk.rule("C17.table", "name->token table (func_type) and name->implementation table (UDQFunctionTable) agree with each other and with the documented names", floor=44)
    ft = [v for v in fx.vars if v["file"].endswith("UDQEnums.cpp") and v["n"] == "func_type"]
    if len(ft) != 1:
        raise core.AnalysisBroken("func_type table not found")
    name_tok = {}
    for e in walk(ft[0]["init"]):
        if e["k"] == "Ctor" and "pair" in (e.get("t") or "") and len(e.get("a", [])) == 2 and e["a"][0]["k"] == "Str":
            tk = [x["n"] for x in walk(e["a"][1]) if x["k"] == "Ref" and x.get("d") == "Enum"]
            if len(tk) == 1:
                if e["a"][0]["v"] in name_tok:
                    chk.violation(r_table, "dup:" + e["a"][0]["v"], "func_type lists '%s' twice" % e["a"][0]["v"], ft[0]["file"], e["l"])
                name_tok[e["a"][0]["v"]] = (tk[0], e["l"])
    ctor = [f for f in fx.fns if f["q"] == "Opm::UDQFunctionTable::UDQFunctionTable" and len(f["params"]) == 1]
    if len(ctor) != 1:
        raise core.AnalysisBroken("UDQFunctionTable(const UDQParams&) not found")
    env = {v["n"]: v.get("init") for n in walk(ctor[0]["body"]) if n["k"] == "Decl" for v in n["vars"]}
    name_impl = {}
    for c in walk(ctor[0]["body"]):
        if c["k"] == "MCall" and c.get("m") == "insert_function":
            mk = [x for x in walk(c["a"][0]) if x["k"] == "Call" and (x.get("fn") or "").endswith("make_shared")]
            if len(mk) != 1:
                raise core.AnalysisBroken("insert_function without make_shared at line %s" % c["l"])
            cls = re.search(r"Opm::(UDQ\w+Function)", " ".join(mk[0].get("targs", []) + [mk[0].get("t", "")]))
            nm = [x["v"] for x in walk(mk[0]["a"][0]) if x["k"] == "Str"]
            impl = mk[0]["a"][1]
            impls = [x for x in walk(impl) if x["k"] == "Ref" and x.get("d") in ("Fn", "CXXMethod") or x["k"] == "Ref" and (x.get("q") or "").startswith("Opm::UDQ")]
            target = None
            refs = [x for x in walk(impl) if x["k"] == "Ref"]
            for x in refs:
                if (x.get("q") or "").startswith(("Opm::UDQScalarFunction::", "Opm::UDQUnaryElementalFunction::", "Opm::UDQBinaryFunction::")):
                    target = x["q"]
                elif x.get("d") == "Var" and x["n"] in env and env[x["n"]] is not None:
                    for y in walk(env[x["n"]]):
                        if y["k"] == "Call" and (y.get("fn") or "").startswith(("Opm::UDQUnaryElementalFunction::", "Opm::UDQBinaryFunction::")):
                            target = y["fn"]
                            rng = [show(a) for a in y["a"]][:1]
                            if nm and nm[0] in ("RANDN", "RANDU", "RRNDN", "RRNDU"):
                                name_impl.setdefault("_rng", {})[nm[0]] = rng
            if not nm or target is None or cls is None:
                raise core.AnalysisBroken("UDQFunctionTable: cannot resolve registration at line %s" % c["l"])
            if nm[0] in name_impl:
                chk.violation(r_table, "dupreg:" + nm[0], "function '%s' is registered twice (emplace keeps the first)" % nm[0], ctor[0]["file"], c["l"])
            name_impl[nm[0]] = (cls.group(1), target, c["l"])
    rngs = name_impl.pop("_rng", {})
    for nm in sorted(set(name_tok) | set(k for k in name_impl)):
        tk = name_tok.get(nm)
        im = name_impl.get(nm)
        chk.instance(r_table, nm, sample=dict(name=nm, token=tk and tk[0], implementation=im and im[1]))
        if tk is None:
            chk.violation(r_table, nm + ":tok", "function '%s' is implemented but has no token type in func_type: it can never be parsed" % nm, ctor[0]["file"], im[2])
            continue
        if NAME_TOKEN.get(nm) != tk[0]:
            chk.violation(r_table, nm + ":tokname", "'%s' is tokenised as %s; its documented meaning is %s" % (nm, tk[0], NAME_TOKEN.get(nm)), ft[0]["file"], tk[1])
        if im is None and nm in UNDOCUMENTED:
            chk.info(r_table, "'%s' (%s) is tokenised but not registered: %s" % (nm, tk[0], UNDOCUMENTED[nm]))
            continue
        if im is None:
            chk.violation(r_table, nm + ":impl", "'%s' is accepted by the tokenizer (%s) but no function of that name is registered: evaluation throws 'No such function registered'" % (nm, tk[0]), ft[0]["file"], tk[1])
            continue
        fam = "binary" if tk[0].startswith("binary_") else "scalar_func" if tk[0].startswith("scalar_func_") else "elemental_func"
        if TOKEN_CLASS[fam] != im[0]:
            chk.violation(r_table, nm + ":class", "'%s' has token family %s but is registered as %s (eval_* dynamic_casts to the family's class)" % (nm, fam, im[0]), ctor[0]["file"], im[2])
        want = NAME_IMPL.get(nm)
        if want is None or im[1].split("::")[-1] != want:
            chk.violation(r_table, nm + ":pair", "'%s' is bound to %s; its documented meaning is %s" % (nm, im[1], want), ctor[0]["file"], im[2])
    for nm, rng in rngs.items():
        want = "sim_rng" if nm in ("RANDN", "RANDU") else "true_rng"
        chk.instance(r_table, nm + ":rng", sample=dict(name=nm, generator=rng))
        if rng != [want]:
            chk.violation(r_table, nm + ":rng", "'%s' draws from %s; expected %s" % (nm, rng, want), ctor[0]["file"], None)

    # ---- C17.impl
    r_impl = chk.rule("C17.impl", "each implementation applies the operator / library function its name says, on (lhs, rhs) in that order", floor=24)
    IMPL = {
        "Opm::UDQBinaryFunction::ADD": ("ret", "(lhs + rhs)"), "Opm::UDQBinaryFunction::SUB": ("ret", "(lhs - rhs)"),
        "Opm::UDQBinaryFunction::MUL": ("ret", "(lhs * rhs)"), "Opm::UDQBinaryFunction::DIV": ("ret", "(lhs / rhs)"),
        "Opm::UDQBinaryFunction::GT": ("assign", "(elm.get() > 0)", "(lhs - rhs)"), "Opm::UDQBinaryFunction::LT": ("assign", "(elm.get() < 0)", "(lhs - rhs)"),
        "Opm::UDQBinaryFunction::GE": ("assign", "(!(rel_diff[index].get() < (-eps)))", "(lhs - rhs)"),
        "Opm::UDQBinaryFunction::LE": ("assign", "(!(rel_diff[index].get() > eps))", "(lhs - rhs)"),
        "Opm::UDQBinaryFunction::EQ": ("assign", "(!(std::fabs(rel_diff[index].get()) > eps))", "(lhs - rhs)"),
        "Opm::UDQBinaryFunction::POW": ("assign", "std::pow(lhs_elm.get(), rhs_elm.get())", None),
        "Opm::UDQBinaryFunction::UADD": ("assign", "(rhs_elm.get() + lhs_elm.get())", None),
        "Opm::UDQBinaryFunction::UMUL": ("assign", "(rhs_elm.get() * lhs_elm.get())", None),
        "Opm::UDQBinaryFunction::UMIN": ("assign", "std::min(rhs_elm.get(), lhs_elm.get())", None),
        "Opm::UDQBinaryFunction::UMAX": ("assign", "std::max(rhs_elm.get(), lhs_elm.get())", None),
        "Opm::UDQUnaryElementalFunction::ABS": ("assign", "std::fabs(udq_value.get())", None),
        "Opm::UDQUnaryElementalFunction::EXP": ("assign", "std::exp(udq_value.get())", None),
        "Opm::UDQUnaryElementalFunction::NINT": ("assign", "std::nearbyint(udq_value.get())", None),
        "Opm::UDQUnaryElementalFunction::LN": ("assign", "std::log(elm)", None),
        "Opm::UDQUnaryElementalFunction::LOG": ("assign", "std::log10(elm)", None),
        "Opm::UDQUnaryElementalFunction::SORTA": ("retcall", "std::less<"), "Opm::UDQUnaryElementalFunction::SORTD": ("retcall", "std::greater<"),
        "Opm::UDQScalarFunction::UDQ_MAX": ("retcall", "std::max_element"), "Opm::UDQScalarFunction::UDQ_MIN": ("retcall", "std::min_element"),
    }
    for q, spec in sorted(IMPL.items()):
        f = fx.fn1(q)
        kind = spec[0]
        body = f["body"]
        if kind == "ret":
            rets = [show(n["e"]) for n in walk(body) if n["k"] == "Return"]
            chk.instance(r_impl, q, sample=dict(function=q, returns=rets))
            if rets != [spec[1]]:
                chk.violation(r_impl, q, "%s returns %s; its name requires %s" % (q, rets, spec[1]), f["file"], f["l"])
        elif kind == "assign":
            vals = [show(c["a"][1]).replace("0.0", "0").replace("std::", "") for c in walk(body) if c["k"] == "MCall" and c.get("m") == "assign" and len(c["a"]) == 2 and show(c["a"][1]) != "1"]
            want = spec[1].replace("std::", "")
            ok = want.replace("0.0", "0") in vals and len(vals) == 1
            if spec[2]:
                res = [show(v["init"]) for n in walk(body) if n["k"] == "Decl" for v in n["vars"] if v["n"] == "result"]
                ok = ok and res == [spec[2]]
            # commutative spellings of min/max/+/* are the same function
            if not ok and q.endswith(("UADD", "UMUL", "UMIN", "UMAX")) and len(vals) == 1:
                alt = want.replace("rhs_elm", "@").replace("lhs_elm", "rhs_elm").replace("@", "lhs_elm")
                ok = vals[0] == alt
            chk.instance(r_impl, q, sample=dict(function=q, assigns=vals))
            if not ok:
                chk.violation(r_impl, q, "%s assigns %s; its name requires %s%s" % (q, vals, want, (" on " + spec[2]) if spec[2] else ""), f["file"], f["l"])
        else:
            txt = show(body)
            chk.instance(r_impl, q, sample=dict(function=q, uses=spec[1]))
            if spec[1] not in txt:
                chk.violation(r_impl, q, "%s no longer uses %s" % (q, spec[1]), f["file"], f["l"])
    f = fx.fn1("Opm::UDQBinaryFunction::NE")
    txt = show(f["body"])
    chk.instance(r_impl, "NE", sample=txt[:120])
    if "Opm::UDQBinaryFunction::EQ(eps, lhs, rhs)" not in txt or "(1 - elm.get())" not in txt:
        chk.violation(r_impl, "NE", "UDQBinaryFunction::NE is no longer the complement of EQ", f["file"], f["l"])

    # ---- C17.arith
    r_ar = chk.rule("C17.arith", "UDQScalar/UDQSet compound operators apply their own operator; binary forms delegate to the matching compound form", floor=16)
    for f in fx.fns:
        if not f["file"].endswith("UDQSet.cpp"):
            continue
        m = re.match(r"operator([-+*/])(=?)$", f["n"])
        if not m:
            continue
        op = m.group(1)
        used = set()
        for n in walk(f["body"]):
            if n["k"] == "Bin" and n["op"].rstrip("=") in "+-*/" and n["op"] not in ("=", "=="):
                # skip index arithmetic
                if any(x["k"] == "Ref" and x["n"] in ("index", "i") for x in walk(n)):
                    continue
                used.add(n["op"].rstrip("="))
            if n["k"] == "OpCall" and n["op"].rstrip("=") in ("+", "-", "*", "/") and n["op"] not in ("=", "=="):
                if n["op"] == "*" and len(n.get("a", [])) == 1:
                    continue  # dereference
                used.add(n["op"].rstrip("="))
        key = "%s(%s)" % (f["q"], ",".join(p["t"] for p in f["params"]))
        chk.instance(r_ar, key, sample=dict(function=key, operators=sorted(used)))
        negated = op == "-" and used <= {"+", "*"} and "+" in used and any(
            (n["k"] == "Un" and n["op"] == "-") or (n["k"] == "Flt" and False) for n in walk(f["body"]))
        if negated:
            continue    # a -= b spelt as a += (-b): the same function
        if used != {op}:
            chk.violation(r_ar, key, "%s applies the operators %s; it must apply exactly '%s'" % (key, sorted(used) or "none at all", op), f["file"], f["l"])
        # element-wise over the whole set, same index on both sides
        if f.get("cls") == "Opm::UDQSet" and m.group(2) == "=":
            loops_ = [n for n in walk(f["body"]) if n["k"] == "For"]
            ptype = f["params"][0]["t"] if f.get("params") else ""
            if loops_:
                lp = loops_[0]
                lv = [v["n"] for d in walk(lp.get("init") or {}) if d["k"] == "Decl" for v in d["vars"]]
                lv = lv[0] if lv else None
                cnd = show(strip(lp["cond"])).replace(" ", "") if isinstance(lp.get("cond"), dict) else ""
                inc = show(lp.get("inc") or {})
                body_ = stmt_list(lp["body"])
                okb = False
                if len(body_) == 1 and body_[0]["k"] in ("OpCall", "Bin") and body_[0].get("op") == op + "=":
                    l_, r_ = [show(strip(x)).replace(" ", "") for x in (body_[0].get("a") or body_[0].get("c"))]
                    pn_ = f["params"][0]["n"]
                    okb = l_ == "this.values[%s]" % lv and (r_ == "%s[%s]" % (pn_, lv) if "UDQSet" in ptype else r_ == pn_)
                init0 = [strip(v.get("init") or {}).get("v") for d in walk(lp.get("init") or {}) if d["k"] == "Decl" for v in d["vars"]]
                ok_loop = lv is not None and init0 == [0] and cnd == "(%s<this.size())" % lv and "++" in inc and okb
                chk.instance(r_ar, key + ":elementwise", sample=dict(function=key, loop=cnd, body=show(body_[0])[:60] if body_ else None))
                if not ok_loop:
                    chk.violation(r_ar, key + ":elementwise", "%s must apply '%s=' to every element: for index in [0, size()): values[index] %s= %s; found loop %s, step %s, body %s" % (key, op, op, "rhs[index]" if "UDQSet" in ptype else "rhs", cnd, inc, [show(b)[:60] for b in body_]), f["file"], lp["l"])
                if "UDQSet" in ptype:
                    guards_ = [n for n in stmt_list(f["body"]) if n["k"] == "If" and "size()" in show(n["cond"]) and any(x["k"] == "Throw" for x in walk(n["then"])) and "!=" in show(n["cond"])]
                    if not guards_:
                        chk.violation(r_ar, key + ":size", "%s no longer rejects operands of different size before combining them element by element" % key, f["file"], f["l"])
        # undefined elements propagate (UDQScalar)
        if f.get("cls") == "Opm::UDQScalar" and m.group(2) == "=":
            ptype = f["params"][0]["t"] if f.get("params") else ""
            iffs_ = [n for n in stmt_list(f["body"]) if n["k"] == "If"]
            okd = False
            if len(iffs_) == 1:
                ct = show(iffs_[0]["cond"]).replace(" ", "")
                pn_ = f["params"][0]["n"]
                if "UDQScalar" in ptype:
                    els = iffs_[0].get("else")
                    okd = ct in ("(this.defined()&&%s.defined())" % pn_, "(%s.defined()&&this.defined())" % pn_) and any(meth(x)[0] == "assign" for x in walk(iffs_[0]["then"])) and els is not None and "nullopt" in show(els)
                else:
                    okd = ct == "this.defined()" and any(meth(x)[0] == "assign" for x in walk(iffs_[0]["then"])) and iffs_[0].get("else") is None
            chk.instance(r_ar, key + ":undefined", sample=dict(function=key, guard=show(iffs_[0]["cond"])[:60] if iffs_ else None, ok=okd))
            if not okd:
                chk.violation(r_ar, key + ":undefined", "%s: the result is defined only if every operand is (both defined -> assign(a %s b), otherwise undefined; a plain number leaves an undefined element undefined); found %s" % (key, op, show(iffs_[0])[:120] if iffs_ else "no guard"), f["file"], f["l"])
    # ---- C17.cast: scalar broadcasting
    r_cast = chk.rule("C17.cast", "udq_cast broadcasts the *scalar* operand over the entities of the set operand, keeps each operand on its own side and pairs wells()/groups() with WELL_VAR/GROUP_VAR", floor=4)
    uc = [f for f in fx.fns if f["n"] == "udq_cast" and f["file"].endswith("UDQSet.cpp")]
    if len(uc) != 1:
        raise core.AnalysisBroken("udq_cast not found")
    uc = uc[0]
    pn = [p["n"] for p in uc["params"]]
    n_b = 0
    for outer in [n for n in stmt_list(uc["body"]) if n["k"] == "If"]:
        m = re.match(r"^(?:Opm::)?(?:\(anonymous namespace\)::)?is_scalar\((\w+)\)$", show(outer["cond"]))
        if not m:
            continue
        X = m.group(1)
        Y = [p for p in pn if p != X][0]
        for inner in [n for n in walk(outer["then"]) if n["k"] == "If"]:
            cm = re.match(r"^\((\w+)\.var_type\(\) == Opm::UDQVarType::(\w+)\)$", show(inner["cond"]))
            rets = [r for r in walk(inner["then"]) if r["k"] == "Return"]
            if not cm or len(rets) != 1:
                chk.violation(r_cast, "%s:shape" % X, "udq_cast: unrecognised branch `%s`" % show(inner["cond"]), uc["file"], inner["l"])
                continue
            n_b += 1
            setvar, vt = cm.group(1), cm.group(2)
            elems = [e for e in walk(rets[0]["e"]) if e["k"] in ("InitList", "Ctor") and len(e.get("c", e.get("a", []))) == 2]
            parts = [show(strip(x)) for x in (elems[0].get("c") or elems[0].get("a"))] if elems else []
            key = "%s-scalar:%s" % (X, vt)
            want_fn = {"WELL_VAR": "Opm::UDQSet::wells", "GROUP_VAR": "Opm::UDQSet::groups"}.get(vt)
            want_new = "%s(%s.name(), %s.wgnames(), %s[0].get())" % (want_fn, X, Y, X)
            want = [want_new, Y] if X == pn[0] else [Y, want_new]
            chk.instance(r_cast, key, sample=dict(scalar=X, set=Y, set_type=vt, returns=parts))
            if setvar != Y or parts != want:
                chk.violation(r_cast, key, "udq_cast with scalar `%s` and %s set `%s` returns {%s}; it must return {%s}: the scalar's own value broadcast over the set's entities, operands kept in place" % (X, vt, Y, ", ".join(parts), ", ".join(want)), uc["file"], inner["l"])
    if n_b != 4:
        chk.violation(r_cast, "branches", "udq_cast has %d scalar-broadcast branches; expected scalar-left/right x well/group = 4" % n_b, uc["file"], uc["l"])
    first = [n for n in stmt_list(uc["body"]) if n["k"] == "If"][0]
    chk.instance(r_cast, "same-type", sample=show(first["cond"])[:120])
    if "(lhs.var_type() == rhs.var_type())" not in show(first["cond"]) or not show([r for r in walk(first["then"]) if r["k"] == "Return"][0]["e"]).replace(" ", "").endswith("{lhs,rhs}"):
        chk.violation(r_cast, "same-type", "udq_cast no longer passes operands of equal type through unchanged", uc["file"], first["l"])
    # every binary set operator goes through udq_cast and applies its own compound operator to (left, right)
    for f in fx.fns:
        mm = re.match(r"^operator([-+*/])$", f["n"])
        if not mm or not f["file"].endswith("UDQSet.cpp") or f.get("cls") or [p["t"] for p in f["params"]] != ["const Opm::UDQSet &", "const Opm::UDQSet &"]:
            continue
        txt = show(f["body"])
        ok = "udq_cast(lhs, rhs)" in txt and re.search(r"\(left %s= right\)" % re.escape(mm.group(1)), txt) and "return left" in txt
        chk.instance(r_cast, "op" + mm.group(1), sample=txt[:120])
        if not ok:
            chk.violation(r_cast, "op" + mm.group(1), "operator%s(UDQSet, UDQSet) must cast both operands with udq_cast(lhs, rhs) and return left %s= right" % (mm.group(1), mm.group(1)), f["file"], f["l"])

    # ---- C17.reduce: the set -> scalar functions
    from verif.canon import canon
    r_red = chk.rule("C17.reduce", "every scalar (reduction) function of the UDQ function set computes its documented formula over the defined values: SUM, PROD, AVEA, AVEG, AVEH, MAX, MIN, NORM1, NORM2, NORMI (canonical expression trees; the fold's initial value and step are part of the comparison)", floor=10)
    V = "defined_values"
    RNG = "%s.begin(),%s.end()" % (V, V)
    DOC_RED = {
        "SUM": "accumulate(%s,0)" % RNG,
        "PROD": "accumulate(%s,1,multiplies)" % RNG,
        "AVEA": "div(accumulate(%s,0),%s.size())" % (RNG, V),
        "AVEG": "exp(div(accumulate(%s,0,lambda(add($0,log($1)))),%s.size()))" % (RNG, V),
        "AVEH": "div(%s.size(),accumulate(%s,0,lambda(add($0,div(1,$1)))))" % (V, RNG),
        "NORMI": "accumulate(%s,0,lambda(max($0,fabs($1))))" % RNG,
        "NORM1": "accumulate(%s,0,lambda(add($0,fabs($1))))" % RNG,
        "NORM2": "sqrt(inner_product(%s,%s.begin(),0))" % (RNG, V),
        "UDQ_MIN": "deref(min_element(%s))" % RNG,
        "UDQ_MAX": "deref(max_element(%s))" % RNG,
    }
    fr = chk.facts(["opm/input/eclipse/Schedule/UDQ/UDQFunction.cpp"])
    seen_red = set()
    for f in fr.fns:
        if f.get("cls") != "Opm::UDQScalarFunction" or not f.get("body") or f["n"] not in DOC_RED:
            continue
        env = {}
        for n in walk_fn(f):
            if n["k"] == "Decl":
                for v in n["vars"]:
                    if v.get("init") is not None and v["n"] != V:
                        env[v["n"]] = v["init"]
        vals = [n["a"][1] for n in walk_fn(f) if n["k"] == "Call" and (n.get("fn") or "").endswith("UDQSet::scalar") and len(n.get("a", [])) >= 2]
        if len(vals) != 1:
            raise core.AnalysisBroken("UDQScalarFunction::%s: expected one UDQSet::scalar(name, value) result, found %d" % (f["n"], len(vals)))
        got = canon(vals[0], env)
        seen_red.add(f["n"])
        chk.instance(r_red, f["n"], sample=dict(function=f["n"], computes=got, documented=DOC_RED[f["n"]]))
        if got != DOC_RED[f["n"]]:
            chk.violation(r_red, f["n"], "UDQ scalar function %s computes %s; the documented reduction is %s" % (f["n"].replace("UDQ_", ""), got, DOC_RED[f["n"]]), f["file"], f["l"])
    if seen_red != set(DOC_RED):
        raise core.AnalysisBroken("UDQ scalar functions not found: %s" % sorted(set(DOC_RED) - seen_red))

    # ---- C17.cmp: comparisons with relative tolerance and the union operators
    r_cm = chk.rule("C17.cmp", "UDQ comparison functions work on d = lhs - rhs element by element over the whole set, touch defined elements only, and decide: GT d > 0, LT d < 0, LE / GE / EQ are true for d = 0 and otherwise not(d/lhs > eps) / not(d/lhs < -eps) / not(|d/lhs| > eps), NE = 1 - EQ; the union operators UADD/UMUL/UMIN/UMAX start from the union and combine with + / * / min / max exactly where BOTH operands are defined", floor=10)
    bfun = {f["n"]: f for f in fx.fns if f.get("cls") == "Opm::UDQBinaryFunction" and f.get("body") and f["file"].endswith("UDQFunction.cpp")}

    def full_loop(f, over):
        lps = [n for n in stmt_list(f["body"]) if n["k"] == "For"]
        if len(lps) != 1:
            return None
        lp = lps[0]
        iv = [(v["n"], strip(v.get("init") or {}).get("v")) for d in walk(lp.get("init") or {}) if d["k"] == "Decl" for v in d["vars"]]
        cnd = show(strip(lp["cond"])).replace(" ", "")
        ok = len(iv) == 1 and iv[0][1] == 0 and cnd == "(%s<%s.size())" % (iv[0][0], over) and "++" in show(lp.get("inc") or {})
        return lp if ok else False
    WANT_C = {"GT": "(elm.get() > 0)", "LT": "(elm.get() < 0)",
              "LE": "(!(rel_diff[index].get() > eps))", "GE": "(!(rel_diff[index].get() < (-eps)))", "EQ": "(!(fabs(rel_diff[index].get()) > eps))"}
    for nm_, want in WANT_C.items():
        f = bfun.get(nm_)
        if f is None:
            raise core.AnalysisBroken("UDQBinaryFunction::%s not found" % nm_)
        decl = {v["n"]: show(strip(v.get("init") or {})).replace("Opm::", "") for n in stmt_list(f["body"]) if n["k"] == "Decl" for v in n["vars"]}
        lp = full_loop(f, "result")
        assigns = [plain_num(show(strip(x["a"][1]))).replace("std::", "") for x in walk(f["body"]) if x["k"] == "MCall" and x.get("m") == "assign" and len(x.get("a") or []) == 2]
        guards = [re.sub(r"\.operator \w+\(\)", "", show(strip(n["cond"]))) for n in walk(f["body"]) if n["k"] == "If"]
        ok = lp not in (None, False) and decl.get("result") in ("(lhs - rhs)", "operator-(lhs, rhs)") and "elm" in guards
        if nm_ in ("GT", "LT"):
            ok = ok and assigns == [want]
        else:
            ok = ok and decl.get("rel_diff") in ("(result / lhs)", "operator/(result, lhs)") and assigns == ["1", want] and any(g.replace(" ", "") in ("(abs_diff==0)", "(abs_diff==0.0)") for g in guards)
        chk.instance(r_cm, nm_, sample=dict(function=nm_, difference=decl.get("result"), relative=decl.get("rel_diff"), decisions=assigns, guards=guards, whole_set=lp not in (None, False)))
        if not ok:
            chk.violation(r_cm, nm_, "UDQBinaryFunction::%s: expected d = lhs - rhs%s, a loop over every index of the result, defined elements only, and the decision %s; found d = %s, rel = %s, decisions %s, guards %s" % (nm_, "" if nm_ in ("GT", "LT") else ", rel = d / lhs, 1 for d == 0", want, decl.get("result"), decl.get("rel_diff"), assigns, guards), f["file"], f["l"])
    ne = bfun.get("NE")
    if ne is None:
        raise core.AnalysisBroken("UDQBinaryFunction::NE not found")
    decl = {v["n"]: show(strip(v.get("init") or {})) for n in stmt_list(ne["body"]) if n["k"] == "Decl" for v in n["vars"]}
    assigns = [show(strip(x["a"][1])) for x in walk(ne["body"]) if x["k"] == "MCall" and x.get("m") == "assign" and len(x.get("a") or []) == 2]
    okn = "EQ(eps, lhs, rhs)" in (decl.get("result") or "") and assigns == ["(1 - elm.get())"] and full_loop(ne, "result") not in (None, False)
    chk.instance(r_cm, "NE", sample=dict(starts_from=decl.get("result"), decisions=assigns))
    if not okn:
        chk.violation(r_cm, "NE", "UDQBinaryFunction::NE must be 1 - EQ(eps, lhs, rhs) on every defined element (found start %s, decisions %s)" % (decl.get("result"), assigns), ne["file"], ne["l"])
    for nm_, comb in (("UADD", "(rhs_elm.get() + lhs_elm.get())"), ("UMUL", "(rhs_elm.get() * lhs_elm.get())"), ("UMIN", "min(rhs_elm.get(), lhs_elm.get())"), ("UMAX", "max(rhs_elm.get(), lhs_elm.get())")):
        f = bfun.get(nm_)
        if f is None:
            raise core.AnalysisBroken("UDQBinaryFunction::%s not found" % nm_)
        decl = {v["n"]: show(strip(v.get("init") or {})) for n in walk(f["body"]) if n["k"] == "Decl" for v in n["vars"]}
        assigns = [plain_num(show(strip(x["a"][1]))).replace("std::", "") for x in walk(f["body"]) if x["k"] == "MCall" and x.get("m") == "assign" and len(x.get("a") or []) == 2]
        guards = [re.sub(r"\.operator \w+\(\)", "", show(strip(n["cond"]))).replace(" ", "") for n in walk(f["body"]) if n["k"] == "If"]
        alt = comb.replace("rhs_elm.get() + lhs_elm.get()", "lhs_elm.get() + rhs_elm.get()").replace("rhs_elm.get() * lhs_elm.get()", "lhs_elm.get() * rhs_elm.get()").replace("(rhs_elm.get(), lhs_elm.get())", "(lhs_elm.get(), rhs_elm.get())")
        ok = "udq_union(lhs, rhs)" in (decl.get("result") or "") and assigns in ([comb], [alt]) and guards in (["(lhs_elm&&rhs_elm)"], ["(rhs_elm&&lhs_elm)"]) and full_loop(f, "lhs") not in (None, False) \
            and decl.get("lhs_elm") == "lhs[index]" and decl.get("rhs_elm") == "rhs[index]"
        chk.instance(r_cm, nm_, sample=dict(function=nm_, start=decl.get("result"), combine=assigns, where=guards))
        if not ok:
            chk.violation(r_cm, nm_, "UDQBinaryFunction::%s must start from udq_union(lhs, rhs) and store %s exactly where both lhs[index] and rhs[index] are defined, for every index (found start %s, combine %s, where %s)" % (nm_, comb, decl.get("result"), assigns, guards), f["file"], f["l"])

    # ---- C17.state: what UDQState keeps of an evaluation
    r_us = chk.rule("C17.state", "UDQState::add stores a defined element and REMOVES a stored value when the new element is undefined, on every storage path (per well / group / segment through add_results, and the scalar map): other quantities read earlier results from this state, so a value that is no longer defined must not linger (undefined propagates into dependent expressions)", floor=3)
    us = chk.facts(["opm/input/eclipse/Schedule/UDQ/UDQState.cpp"])
    paths_ = []
    for f in us.fns:
        if not f.get("body") or not f["file"].endswith("UDQState.cpp") or f["n"] not in ("add_results", "add"):
            continue
        for iff in walk(f["body"]):
            if iff["k"] != "If" or not isinstance(iff.get("cond"), dict):
                continue
            c = strip(iff["cond"])
            neg = False
            while c.get("k") == "Un" and c.get("op") == "!":
                neg = not neg
                c = strip(c["c"][0])
            m_, o_ = meth(c)
            if m_ != "defined":
                continue
            t_def, t_undef = (iff.get("else"), iff["then"]) if neg else (iff["then"], iff.get("else"))

            def acts(b):
                if b is None:
                    return []
                out = []
                for x in walk(b):
                    mm, oo = meth(x)
                    nm = mm or (x.get("fn") or "").split("::")[-1] if x["k"] in ("Call", "MCall") else None
                    if nm in ("insert_or_assign", "add_defined_results", "emplace", "insert"):
                        out.append("store")
                    if nm in ("erase", "undefine_results"):
                        out.append("remove")
                return out
            key = "%s%s@%d" % (f["n"], f["sig"][-40:].replace(" ", ""), iff["l"] - f["l"])
            a_def, a_undef = acts(t_def), acts(t_undef)
            paths_.append(key)
            chk.instance(r_us, key, sample=dict(function=f["q"], when_defined=a_def, when_undefined=a_undef))
            if a_def != ["store"] or a_undef != ["remove"]:
                chk.violation(r_us, key, "%s: a defined element must be stored and an undefined one must remove what is stored (found when defined: %s, when undefined: %s): a quantity that was defined earlier and is undefined now keeps its old value in the state, and DEFINEs that refer to it are evaluated with it" % (f["q"], a_def or "nothing", a_undef or "nothing"), f["file"], iff["l"])
    if len(paths_) < 3:
        raise core.AnalysisBroken("UDQState: fewer than three defined/undefined decisions found (%s)" % paths_)

    # ---- C17.sign: the sign a node carries
    r_sg = chk.rule("C17.sign", "UDQASTNode: the sign of a (sub)expression is applied exactly once to whatever the node evaluates to (every evaluating return of eval() is sign * eval_xxx(...)), and a further sign factor is multiplied into the one already carried (scale: sign *= factor), never stored over it - so that -(-X) = X and (-X) = -X", floor=6)
    ax = chk.facts(["opm/input/eclipse/Schedule/UDQ/UDQASTNode.cpp"])
    evs = [f for f in ax.fns if f["q"] == "Opm::UDQASTNode::eval" and f.get("body")]
    if len(evs) != 1:
        raise core.AnalysisBroken("UDQASTNode::eval: %d definitions" % len(evs))
    for r_ in walk(evs[0]["body"]):
        if r_["k"] != "Return" or r_.get("e") is None:
            continue
        callee = [x for x in walk(r_["e"]) if x["k"] == "MCall" and (x.get("m") or "").startswith("eval_")]
        if not callee:
            continue
        e = strip(r_["e"])
        while e.get("k") in ("Ctor", "Temp", "Bind") and len([a for a in (e.get("a") or e.get("c") or []) if a.get("k") != "DefArg"]) == 1:
            e = strip([a for a in (e.get("a") or e.get("c")) if a.get("k") != "DefArg"][0])
        ops = (e.get("a") or e.get("c") or []) if (e.get("k") in ("OpCall", "Bin") and e.get("op") == "*") else []
        signs = [o for o in ops if strip(o).get("k") == "Mem" and strip(o).get("n") == "sign"]
        key = "eval:%s" % callee[0]["m"]
        chk.instance(r_sg, key, sample=dict(returns=show(r_["e"])[:80], sign_factors=len(signs)))
        if len(signs) != 1 or len(ops) != 2:
            chk.violation(r_sg, key, "UDQASTNode::eval returns `%s`: the node's sign must multiply the value of %s exactly once" % (show(r_["e"])[:80], callee[0]["m"]), evs[0]["file"], r_["l"])
    n_w = 0
    for f in ax.fns:
        if f.get("cls") != "Opm::UDQASTNode" or not f.get("body") or f["n"] == "UDQASTNode":
            continue
        pn = {p_["n"] for p_ in f.get("params") or []}
        for n in walk(f["body"]):
            if n["k"] == "Bin" and n.get("asg") and strip(n["c"][0]).get("k") == "Mem" and strip(n["c"][0]).get("n") == "sign" and strip(strip(n["c"][0]).get("b") or {"k": "This"}).get("k") == "This":
                n_w += 1
                from_param = any(x.get("k") == "Ref" and x.get("n") in pn for x in walk(n["c"][1]))
                key = "write:%s" % f["n"]
                chk.instance(r_sg, key, sample=dict(function=f["q"], statement=show(n)[:60]))
                if from_param and n["op"] != "*=":
                    chk.violation(r_sg, key, "%s stores its factor over the sign the node already carries (`%s`): the sign of the inner expression is lost, (-X) evaluates as X and -(-X) as -X" % (f["q"], show(n)[:60]), f["file"], n["l"])
    if not n_w:
        raise core.AnalysisBroken("UDQASTNode: no method updates the sign member")

    # ---- C17.hasget: a value is fetched from the table that was asked whether it has it
    r_hg = chk.rule("C17.hasget", "UDQContext (where an expression reads quantities - UDQ values of the current pass from UDQState, everything else from SummaryState): wherever `obj.has_K(args)` guards `obj.get_K'(args')` on the same object, K' is K (well / group / segment / plain) and the arguments of the test are among those of the fetch - the well and group paths are parallel code, and asking the well table for a group quantity reports every group UDQ as undefined", floor=6)
    cx = chk.facts(["opm/input/eclipse/Schedule/UDQ/UDQContext.cpp"])
    for f in cx.fns:
        if not f.get("body") or not f["file"].endswith("UDQContext.cpp"):
            continue
        for iff in [n for n in walk(f["body"]) if n["k"] == "If" and isinstance(n.get("cond"), dict)]:
            c = strip(iff["cond"])
            neg = False
            while c.get("k") == "Un" and c.get("op") == "!" and c.get("c"):
                c = strip(c["c"][0])
                neg = not neg
            if c.get("k") != "MCall" or not (c.get("m") or "").startswith("has") or not isinstance(c.get("obj"), dict):
                continue
            branch = iff.get("else") if neg else iff["then"]
            if branch is None:
                continue
            obj = show(strip(c["obj"]))
            kind = c["m"][3:].lstrip("_")
            hargs = [show(a_) for a_ in c.get("a") or [] if a_.get("k") != "DefArg"]
            for g in [x for x in walk(branch) if x["k"] == "MCall" and (x.get("m") or "").startswith("get") and isinstance(x.get("obj"), dict) and show(strip(x["obj"])) == obj]:
                gkind = g["m"][3:].lstrip("_")
                gargs = [show(a_) for a_ in g.get("a") or [] if a_.get("k") != "DefArg"]
                key = "%s:%s.%s@%d" % (f["n"], obj.replace("this.", ""), g["m"], g["l"])
                chk.instance(r_hg, key, sample=dict(function=f["q"], test="%s.%s(%s)" % (obj, c["m"], ", ".join(hargs)), fetch="%s.%s(%s)" % (obj, g["m"], ", ".join(gargs))))
                if gkind != kind or not set(hargs) <= set(gargs):
                    chk.violation(r_hg, key, "%s: `%s.%s(%s)` is fetched under the test `%s.%s(%s)`: the test asks another table (or about other arguments) than the fetch reads, so the quantity is reported undefined although it is there (or fetched although it is not)" % (f["q"], obj, g["m"], ", ".join(gargs), obj, c["m"], ", ".join(hargs)), f["file"], iff["l"])

    # ---- C17.assignorder: the ASSIGN history of a quantity, latest record last
    r_ao = chk.rule("C17.assignorder", "UDQAssign keeps the ASSIGN records of one quantity in input order: records are only appended (emplace_back / push_back); every evaluation that replays them walks `records` from first to last, so a later ASSIGN overwrites an earlier one; where a single record stands for the whole history - the value of a field/scalar quantity, the report step of the assignment - it is the LAST one (records.back())", floor=8)
    ax = chk.facts(["opm/input/eclipse/Schedule/UDQ/UDQAssign.cpp"])
    n_ao = 0
    for f in ax.fns:
        if not f.get("body") or not (f.get("cls") or "").endswith("UDQAssign") or not f["file"].endswith("UDQAssign.cpp"):
            continue
        for n in walk(f["body"]):
            if n["k"] == "ForRange" and "records" in show(n.get("range")):
                key = "%s/%d:replay@%d" % (f["n"], len(f["params"]), n["l"])
                chk.instance(r_ao, key, sample=dict(function=f["q"], range=show(n["range"])))
                if show(strip(n["range"])) != "this.records":
                    chk.violation(r_ao, key, "%s replays the ASSIGN records over `%s`; input order is `this->records` from first to last" % (f["q"], show(n["range"])), f["file"], n["l"])
            if n["k"] == "MCall" and isinstance(n.get("obj"), dict) and show(strip(n["obj"])) == "this.records":
                m_ = n.get("m")
                key = "%s/%d:%s@%d" % (f["n"], len(f["params"]), m_, n["l"])
                if m_ in ("front", "back", "at", "begin", "rbegin", "insert", "emplace", "push_back", "emplace_back", "erase", "pop_back", "clear"):
                    chk.instance(r_ao, key, sample=dict(function=f["q"], access=show(n)[:80]))
                if m_ in ("front", "rbegin", "insert", "emplace", "erase", "pop_back") or (m_ == "at"):
                    chk.violation(r_ao, key, "%s uses `%s`: the record that stands for the history of a quantity is the latest one (records.back()), and records are only appended - with front() a quantity that is ASSIGNed a second time keeps its first value" % (f["q"], show(n)[:80]), f["file"], n["l"])
            if n["k"] in ("Idx", "OpCall") and (n["k"] == "Idx" or n.get("op") == "[]") and show(strip((n.get("c") or n.get("a") or [{}])[0])) == "this.records":
                key = "%s/%d:index@%d" % (f["n"], len(f["params"]), n["l"])
                chk.instance(r_ao, key, sample=dict(function=f["q"], access=show(n)[:80]))
                chk.violation(r_ao, key, "%s picks a record by position (`%s`); only the last record (back()) stands for the history" % (f["q"], show(n)[:80]), f["file"], n["l"])

    # ---- C17.finite: only finite numbers are defined values
    r_fi = chk.rule("C17.finite", "UDQScalar::assign(double) - the one place where every arithmetic result is stored - keeps the number exactly when std::isfinite(value) holds and makes the element undefined otherwise (x / 0, overflow and NaN all give an undefined element, which then propagates as undefined through the documented rules); the optional overload forwards a present value to it and stores 'undefined' for an absent one", floor=2)
    sx17 = chk.facts([SET])
    asg17 = [f for f in sx17.fns if f["q"] == "Opm::UDQScalar::assign" and f.get("body") and len(f["params"]) == 1]
    a_d = [f for f in asg17 if "optional" not in (f["params"][0].get("t") or "")]
    a_o = [f for f in asg17 if "optional" in (f["params"][0].get("t") or "")]
    if len(a_d) != 1 or len(a_o) != 1:
        raise core.AnalysisBroken("UDQScalar::assign: %d double / %d optional overloads" % (len(a_d), len(a_o)))
    for f, cond_want, then_want in ((a_d[0], ("std::isfinite(%s)", "isfinite(%s)"), "(this.m_value = %s)"), (a_o[0], ("%s.has_value()", "%s.operator bool()"), "this.assign((*%s))")):
        pn_ = f["params"][0]["n"]
        st_ = stmt_list(f["body"])
        okf = False
        det_ = [show(x)[:120] for x in st_]
        if len(st_) == 1 and st_[0]["k"] == "If" and st_[0].get("else") is not None:
            c_ = show(strip(st_[0]["cond"]))
            unw_ = lambda t_: re.sub(r"std::optional<double>\{(\w+)\}", r"\1", t_)
            th_ = [unw_(show(x)) for x in stmt_list(st_[0]["then"])]
            el_ = [unw_(show(x)) for x in stmt_list(st_[0]["else"])]
            okf = c_ in [w_ % pn_ for w_ in cond_want] and th_ == [then_want % pn_] and el_ in (["(this.m_value = std::nullopt)"], ["this.m_value.reset()"])
            if not okf and c_ in ["(!%s)" % (w_ % pn_) for w_ in cond_want]:
                okf = el_ == [then_want % pn_] and th_ in (["(this.m_value = std::nullopt)"], ["this.m_value.reset()"])
        key = "assign(%s)" % ("optional" if f is a_o[0] else "double")
        chk.instance(r_fi, key, sample=dict(body=det_))
        if not okf:
            chk.violation(r_fi, key, "UDQScalar::%s must store the number exactly under %s and 'undefined' otherwise (found %s): infinities from x / 0 or overflow would become defined values of the set" % (key, cond_want[0] % pn_, det_), f["file"], f["l"])

    # ---- C17.pending: an ASSIGN is applied once
    r_pe = chk.rule("C17.pending", "UDQConfig keeps the quantities ASSIGNed since the last evaluation in a pending list: add_assign appends the quantity (under the test that the assignment exists), eval_assign(context) TAKES the list - after it the member is empty on every path that applies assignments (swap with a local declared empty, std::exchange with {}, or an unconditional clear()) - and applies the entries of the local it took; clear_pending_assignments clears it.  A list that is only copied is re-applied by every later evaluation of the same configuration and overwrites what DEFINE computed in between", floor=4)
    cfx = chk.facts(["opm/input/eclipse/Schedule/UDQ/UDQConfig.cpp"])
    PEND = "this.pending_assignments_"
    ea = [f for f in cfx.fns if f["q"] == "Opm::UDQConfig::eval_assign" and f.get("body") and len(f["params"]) == 1]
    aa = [f for f in cfx.fns if f["q"] == "Opm::UDQConfig::add_assign" and f.get("body")]
    cp = [f for f in cfx.fns if f["q"] == "Opm::UDQConfig::clear_pending_assignments" and f.get("body")]
    if len(ea) != 1 or not aa or len(cp) != 1:
        raise core.AnalysisBroken("UDQConfig: eval_assign(context) / add_assign / clear_pending_assignments not found (%d, %d, %d)" % (len(ea), len(aa), len(cp)))
    ea = ea[0]
    top = stmt_list(ea["body"])
    empties = {}
    for st in top:
        if st["k"] == "Decl":
            for v in st["vars"]:
                it = show(v["init"]) if isinstance(v.get("init"), dict) else ""
                if re.fullmatch(r"std::vector<std::string>\{\{?\}?\}|std::vector<std::string>\(\)|", it) and "vector" in (v.get("t") or it):
                    empties[v["n"]] = st["l"]
    taken = None       # (local, how)
    emptied = False
    for st in top:
        t = show(st)
        m_ = re.fullmatch(r"%s\.swap\((\w+)\)" % re.escape(PEND), t) or re.fullmatch(r"(\w+)\.swap\(%s\)" % re.escape(PEND), t) or re.fullmatch(r"std::swap\(%s, (\w+)\)" % re.escape(PEND), t) or re.fullmatch(r"std::swap\((\w+), %s\)" % re.escape(PEND), t)
        if m_ and m_.group(1) in empties:
            taken, emptied = (m_.group(1), "swap with an empty local"), True
        if st["k"] == "Decl":
            for v in st["vars"]:
                it = show(v["init"]) if isinstance(v.get("init"), dict) else ""
                if re.fullmatch(r"std::exchange\(%s, .*\{\{?\}?\}\)" % re.escape(PEND), it):
                    taken, emptied = (v["n"], "exchange"), True
                elif PEND in it and not v.get("ref"):
                    taken = (v["n"], "copy / move: %s" % it)
        if t == "%s.clear()" % PEND:
            emptied = True
    loops = [st for st in top if st["k"] == "ForRange" and any(meth(x)[0] == "update_assign" for x in walk(st["body"]))]
    over = show(strip(loops[0]["range"])) if len(loops) == 1 else None
    chk.instance(r_pe, "eval_assign", sample=dict(taken=taken, member_emptied=emptied, loop_over=over))
    if len(loops) != 1:
        chk.violation(r_pe, "eval_assign", "UDQConfig::eval_assign: expected one loop that applies the pending assignments through update_assign, found %d" % len(loops), ea["file"], ea["l"])
    elif not taken or over != taken[0]:
        chk.violation(r_pe, "eval_assign", "UDQConfig::eval_assign applies the entries of `%s`; it must apply the list it took out of pending_assignments_ (%s)" % (over, taken), ea["file"], loops[0]["l"])
    elif not emptied:
        chk.violation(r_pe, "eval_assign", "UDQConfig::eval_assign leaves pending_assignments_ filled (%s): every later evaluation of this configuration re-applies the same ASSIGNs over the values DEFINE and UPDATE produced since" % taken[1], ea["file"], loops[0]["l"])
    pushes = [(f, n) for f in aa for n in walk(f["body"]) if meth(n)[0] in ("push_back", "emplace_back") and show(strip(meth(n)[1] or {})) == PEND]
    chk.instance(r_pe, "add_assign", sample=dict(appends=[show(n) for _, n in pushes]))
    for f in aa:
        qn = f["params"][0]["n"]
        mine = [n for g, n in pushes if g is f]
        if len(aa) and not any(show(n) == "%s.push_back(%s)" % (PEND, qn) for n in mine) and any(x.get("k") == "Switch" for x in walk(f["body"])):
            chk.violation(r_pe, "add_assign", "UDQConfig::add_assign(%s, ...) does not append the quantity to pending_assignments_: the ASSIGN is never applied" % qn, f["file"], f["l"])
    ct = [show(x) for x in stmt_list(cp[0]["body"])]
    chk.instance(r_pe, "clear", sample=dict(body=ct))
    if "%s.clear()" % PEND not in ct:
        chk.violation(r_pe, "clear", "UDQConfig::clear_pending_assignments does not clear the list (%s)" % ct, cp[0]["file"], cp[0]["l"])
    gd = [n for n in stmt_list(ea["body"]) if n["k"] == "If" and show(strip(n["cond"])) == "%s.empty()" % PEND]
    chk.instance(r_pe, "guard", sample=dict(early_return=len(gd)))

    from verif import fallthrough
    fallthrough.run(chk, "C17", floor=11)
    from verif import argorder
    argorder.run(chk, "C17", floor=85)

    chk.assumptions += [
        "documented precedence: parentheses/functions, ^, * /, + -, comparisons, set operators (the property statement)",
        "NAME_IMPL / NAME_TOKEN in rules/C17.py: documented meaning of every UDQ function and operator name",
    ]
