"""C12  Cell property arrays equal sequential keyword operations — index-role discipline.

Decides the structural necessary condition of "the value in an active cell never depends on which other
cells are inactive": no container is subscripted with an index of the wrong role (active / global / data),
strides of multi-value arrays match the role of the index (C12.role), generic primitives are called with a
container and an index list of the same kind (C12.call), keyword names are bound to the right arithmetic
(C12.pair) and every record-driven handler updates the box before taking an index list (C12.box).
Not decided: the sequential semantics cell by cell (needs a reference interpreter at run time).
"""
import re

from verif import core
from verif.tree import children, walk, walk_fn, show, stmt_list, meth, strip

LEVEL = "other"
FP = "opm/input/eclipse/EclipseState/Grid/FieldProps.cpp"
HDRS = r"^/repo/opm/input/eclipse/EclipseState/Grid/(FieldData|FieldProps)\.hpp$"

FIELD_ROLE = {"data": "active", "value_status": "active", "global_data": "global", "global_value_status": "global"}
MEMBER_ROLE = {"cell_depth": "active", "cell_volume": "active", "m_actnum": "global"}
LIST_KIND = {"index_list": "active", "global_index_list": "global"}
STRIDE_OK = {
    "data": ("box.size()",),
    "active": ("field_data.numCells()", "this.numCells()", "data.numCells()", "active_size"),
    "global": ("global_size", "this.global_size"),
}


def subscript(n):
    if n["k"] == "Idx":
        return n["c"][0], n["c"][1]
    if n["k"] == "OpCall" and n["op"] == "[]" and len(n.get("a", [])) == 2:
        return n["a"][0], n["a"][1]
    return None, None


class Roles:
    """per-function environment: roles of local containers, kinds of cell variables, roles of index locals"""

    def __init__(self, f):
        self.f = f
        self.cont = {}      # local name -> role
        self.cellkind = {}  # loop/cell variable name -> 'active' | 'global' | 'param'
        self.idx = {}       # local name -> role
        self.listkind = {}  # local list name -> kind
        for p in f["params"]:
            if p["n"] in ("deck_data", "deck_status"):
                self.cont[p["n"]] = "data"
            if "cell_index" in p["t"] and "vector" in p["t"]:
                self.listkind[p["n"]] = "param"
        self.local_fd = set()
        for n in walk_fn(f):
            if n["k"] == "Decl":
                for v in n["vars"]:
                    if "FieldData<" in (v.get("t") or "") and not v.get("ref") and not v.get("ptr"):
                        self.local_fd.add(v["n"])     # scratch object sized by its constructor call, not a per-active-cell array
        for _ in range(3):
            for n in walk_fn(f):
                if n["k"] == "Decl":
                    for v in n["vars"]:
                        init = v.get("init")
                        if init is None:
                            continue
                        r = self.container_role(init)
                        if r:
                            self.cont[v["n"]] = r
                        k = self.list_kind(init)
                        if k:
                            self.listkind[v["n"]] = k
                        ir = self.index_role(init)
                        if ir:
                            self.idx[v["n"]] = ir
                if n["k"] == "ForRange":
                    k = self.list_kind(n["range"])
                    if k:
                        self.cellkind[n["var"]["n"]] = k

    def list_kind(self, e):
        e = strip(e)
        m, obj = meth(e)
        if m in LIST_KIND:
            return LIST_KIND[m]
        if e["k"] in ("MCall", "Call") and (e.get("fn") or "").endswith("region_index"):
            return "active"
        if e["k"] == "Ref" and e["n"] in self.listkind:
            return self.listkind[e["n"]]
        return None

    def container_role(self, e):
        e = strip(e)
        while e["k"] in ("Un",) and e["op"] == "*":
            e = strip(e["c"][0])
        if e["k"] == "OpCall" and e["op"] == "*" and len(e.get("a", [])) == 1:
            e = strip(e["a"][0])
        if e["k"] == "MCall" and e.get("m") == "value" and e.get("obj") is not None:
            e = strip(e["obj"])
        if e["k"] in ("Mem", "DMem"):
            b = strip(e.get("b") or {})
            if b.get("k") == "Ref" and b.get("n") in self.local_fd:
                return "scratch"
            if e["n"] in FIELD_ROLE and ("FieldData" in (e.get("cls") or "FieldData")):
                return FIELD_ROLE[e["n"]]
            if e["n"] in MEMBER_ROLE:
                return MEMBER_ROLE[e["n"]]
        if e["k"] == "Ref" and e["n"] in self.cont:
            return self.cont[e["n"]]
        return None

    def index_role(self, e):
        """(role, stride-info) of an index expression or None"""
        e = strip(e)
        if e["k"] in ("Mem", "DMem") and e["n"] in ("active_index", "global_index", "data_index"):
            b = strip(e.get("b") or {})
            cell = b.get("n") if b.get("k") == "Ref" else None
            if e["n"] == "global_index":
                return ("global", ("cellkind", self.cellkind.get(cell)))
            if e["n"] == "data_index":
                return ("data", None)
            kind = self.cellkind.get(cell)
            if kind is None:
                return None
            return (kind, None)     # Box::global_index_list() stores the global index in .active_index (documented hack)
        if e["k"] == "Ref" and e["n"] in self.idx:
            return self.idx[e["n"]]
        if e["k"] == "Bin" and e["op"] == "+":
            for a, b in ((e["c"][0], e["c"][1]), (e["c"][1], e["c"][0])):
                a, b = strip(a), strip(b)
                rb = self.index_role(b)
                if rb and a["k"] == "Bin" and a["op"] == "*":
                    return (rb[0], ("stride", show(strip(a["c"][1])), show(strip(a["c"][0]))))
        return None


def canon_parse(t):
    """Parse a canonical term f(a,b,...) into (f, [args]) with commutative heads sorted."""
    t = t.strip()
    if "(" not in t:
        return t
    head = t[:t.index("(")]
    body = t[t.index("(") + 1:-1]
    args, depth, cur = [], 0, ""
    for ch in body:
        if ch == "," and depth == 0:
            args.append(cur)
            cur = ""
        else:
            depth += ch == "("
            depth -= ch == ")"
            cur += ch
    if cur:
        args.append(cur)
    parsed = [canon_parse(a) for a in args]
    if head in ("add", "mul", "min", "max"):
        parsed = sorted(parsed, key=repr)
    return (head, parsed)


def canon_equal(a, b):
    return canon_parse(a) == canon_parse(b)


def run(chk):
    fx = chk.facts([FP], files_re=HDRS)
    fns = [f for f in fx.fns if f.get("body")]

    # ---- C12.role
    r_role = chk.rule("C12.role", "a container of role active/global/data is only subscripted with an index of the same role; block strides of multi-value arrays are the cell count of that role; global-indexed storage is filled from all cells of the box", floor=24)
    unknown = 0
    for f in fns:
        R = Roles(f)
        for n in walk_fn(f):
            base, idx = subscript(n)
            if base is None:
                continue
            cr = R.container_role(base)
            ir = R.index_role(idx)
            if cr is None or ir is None:
                if cr or ir:
                    unknown += 1
                continue
            role, stride = ir
            key = "%s:%s[%s]" % (f["n"], show(strip(base))[:40], show(strip(idx))[:40])
            chk.instance(r_role, "%s@%s" % (key, n["l"]), sample=dict(function=f["n"], container=show(strip(base))[:50], container_role=cr, index=show(strip(idx))[:60], index_role=role, stride=stride and stride[1:]))
            if role == "param":
                continue
            if stride and stride[0] == "cellkind":
                # storage addressed by the grid (global) index must be filled while visiting *all* cells of the box
                is_write = False
                for a in walk_fn(f):
                    if a["k"] == "Bin" and a.get("asg") and strip(a["c"][0]) is n:
                        is_write = True
                if is_write and stride[1] == "active":
                    chk.violation(r_role, key + ":coverage", "%s writes `%s` by global index while iterating only the *active* cells of the box: the entries of inactive cells are never written, so what an active cell later reads depends on which other cells are inactive" % (f["n"], show(strip(base))[:60]), f["file"], n["l"])
                stride = None
            if cr == "scratch":
                continue
            if cr != role:
                chk.violation(r_role, key, "%s: `%s` holds one entry per %s cell but is subscripted with `%s`, an index over %s cells" % (
                    f["n"], show(strip(base))[:60], {"active": "active", "global": "grid (global)", "data": "input-box"}[cr], show(strip(idx))[:60],
                    {"active": "active", "global": "grid (global)", "data": "input-box"}[role]), f["file"], n["l"])
            if stride:
                s1, s2 = stride[1], stride[2]
                ok = any(s in STRIDE_OK[cr] for s in (s1, s2))
                if not ok:
                    chk.violation(r_role, key + ":stride", "%s: `%s` (%s-indexed) is addressed block-wise with stride `%s`/`%s`; the block length of this array is the number of %s cells (%s)" % (
                        f["n"], show(strip(base))[:60], cr, s1, s2, cr, " or ".join(STRIDE_OK[cr])), f["file"], n["l"])
    chk.extra["subscripts_with_one_unknown_role"] = unknown

    # ---- C12.call
    r_call = chk.rule("C12.call", "generic primitives (data, status, ..., index_list) are called with a container and an index list of the same kind", floor=3)
    generic = {f["n"] for f in fns if any("cell_index" in p["t"] and "vector" in p["t"] for p in f["params"]) and any(p["n"] in ("data", "value_status") for p in f["params"])}
    for f in fns:
        R = Roles(f)
        for c in walk_fn(f):
            if c["k"] == "Call" and (c.get("fn") or show(c.get("callee"))).split("::")[-1] in generic:
                name = (c.get("fn") or show(c.get("callee"))).split("::")[-1]
                croles = [R.container_role(a) for a in c["a"]]
                lkinds = [R.list_kind(a) for a in c["a"]]
                cr = [x for x in croles if x]
                lk = [x for x in lkinds if x]
                if not cr or not lk:
                    continue
                key = "%s->%s@%s" % (f["n"], name, c["l"])
                chk.instance(r_call, key, sample=dict(caller=f["n"], callee=name, containers=cr, index_list=lk))
                if lk[0] != "param" and any(x != lk[0] for x in cr):
                    chk.violation(r_call, key, "%s calls %s with %s storage but an index list over %s cells" % (f["n"], name, "/".join(sorted(set(cr))), lk[0]), f["file"], c["l"])

    # ---- C12.pair
    r_pair = chk.rule("C12.pair", "keyword names, ScalarOperation enumerators and arithmetic are paired correctly (ADD->+=, MULTIPLY->*=, EQUALS->=, MINVALUE->max(x,v), MAXVALUE->min(x,v))", floor=15)
    fs = [f for f in fns if f["n"] == "fromString" and f["file"].endswith("FieldProps.cpp")]
    if len(fs) != 1:
        raise core.AnalysisBroken("fromString(keyword) not found")
    got = {}
    for iff in [n for n in stmt_list(fs[0]["body"]) if n["k"] == "If"]:
        kws = re.findall(r"ParserKeywords::(\w+)::keywordName", show(iff["cond"]))
        en = [x["n"] for x in walk(iff["then"]) if x["k"] == "Ref" and x.get("d") == "Enum"]
        if "&&" in show(iff["cond"]) or "!=" in show(iff["cond"]):
            raise core.AnalysisBroken("fromString: unexpected condition shape")
        for k in kws:
            got[k] = en[0] if en else None
    want = {"ADD": "ADD", "ADDREG": "ADD", "EQUALS": "EQUAL", "EQUALREG": "EQUAL", "MULTIPLY": "MUL", "MULTIREG": "MUL", "MINVALUE": "MIN", "MAXVALUE": "MAX"}
    for k, w in want.items():
        chk.instance(r_pair, "kw:" + k, sample=dict(keyword=k, operation=got.get(k)))
        if got.get(k) != w:
            chk.violation(r_pair, "kw:" + k, "keyword %s is mapped to ScalarOperation::%s; it denotes %s" % (k, got.get(k), w), fs[0]["file"], fs[0]["l"])
    ap = [f for f in fns if f["n"] == "apply" and any(p["n"] == "op" for p in f["params"])]
    if len(ap) != 1:
        raise core.AnalysisBroken("apply(op, ...) not found")
    disp = {}
    for c in walk(ap[0]["body"]):
        if c["k"] == "Case":
            en = [x["n"] for x in walk(c["v"]) if x["k"] == "Ref" and x.get("d") == "Enum"]
            calls = [(x.get("fn") or show(x.get("callee"))).split("::")[-1] for x in walk(c["sub"]) if x["k"] == "Call"]
            if en:
                disp[en[0]] = calls[0] if calls else None
    wantd = {"EQUAL": "assign_scalar", "MUL": "multiply_scalar", "ADD": "add_scalar", "MIN": "min_value", "MAX": "max_value"}
    for k, w in wantd.items():
        chk.instance(r_pair, "op:" + k, sample=dict(operation=k, primitive=disp.get(k)))
        if disp.get(k) != w:
            chk.violation(r_pair, "op:" + k, "ScalarOperation::%s dispatches to %s; expected %s" % (k, disp.get(k), w), ap[0]["file"], ap[0]["l"])
    PRIM = {"assign_scalar": ("=", None), "multiply_scalar": ("*=", None), "add_scalar": ("+=", None),
            "min_value": ("=", "max"), "max_value": ("=", "min")}
    for name, (op, fn) in PRIM.items():
        f = [x for x in fns if x["n"] == name]
        if len(f) != 1:
            raise core.AnalysisBroken("primitive %s not found" % name)
        f = f[0]
        upd = []
        for n in walk(f["body"]):
            base, idx = (None, None)
            if n["k"] == "Bin" and n.get("asg"):
                lhs = strip(n["c"][0])
                b, i = subscript(lhs)
                if b is not None and show(strip(b)) == "data":
                    rhs = strip(n["c"][1])
                    callee = (rhs.get("fn") or show(rhs.get("callee"))).split("::")[-1] if rhs["k"] == "Call" else None
                    upd.append((n["op"], callee, show(rhs)[:60]))
        chk.instance(r_pair, "prim:" + name, sample=dict(primitive=name, update=upd))
        ok = len(upd) == 1 and upd[0][0] == op and upd[0][1] == fn and (fn is None or "value" in upd[0][2])
        if not ok:
            chk.violation(r_pair, "prim:" + name, "%s updates the array as %s; expected `data[i] %s %s`" % (name, upd, op, ("std::%s(data[i], value)" % fn) if fn else "value"), f["file"], f["l"])
    for name, op in (("assign_deck", "="), ("multiply_deck", "*=")):
        f = [x for x in fns if x["n"] == name][0]
        ops = set()
        for n in walk(f["body"]):
            if n["k"] == "Bin" and n.get("asg"):
                b, i = subscript(strip(n["c"][0]))
                if b is not None and ("data" in show(strip(b))) and "status" not in show(strip(b)):
                    ops.add(n["op"])
        chk.instance(r_pair, "prim:" + name, sample=sorted(ops))
        if ops != {op}:
            chk.violation(r_pair, "prim:" + name, "%s updates the arrays with %s; expected only `%s`" % (name, sorted(ops), op), f["file"], f["l"])

    # ---- C12.box
    r_box = chk.rule("C12.box", "every handler that consumes keyword records calls box.update(record) before it takes an index list from the box", floor=3)
    for f in fns:
        if not f["file"].endswith("FieldProps.cpp"):
            continue
        loops = [n for n in walk(f["body"]) if n["k"] == "ForRange" and show(n["range"]) == "keyword"]
        for lp in loops:
            body = stmt_list(lp["body"])
            rec = lp["var"]["n"]
            upd = None
            take = None
            for i, s in enumerate(body):
                for c in walk(s):
                    m, obj = meth(c)
                    if m == "update" and obj is not None and show(strip(obj)) == "box" and upd is None:
                        upd = (i, show(c["a"][0]) if c.get("a") else None)
                    if m in ("index_list", "global_index_list") and obj is not None and show(strip(obj)) == "box" and take is None:
                        take = i
                    if c["k"] in ("Call", "MCall") and any(show(strip(a)) == "box" for a in c.get("a", [])) and take is None and m != "update":
                        take = i
            if take is None:
                continue
            key = "%s@%s" % (f["n"], lp["l"])
            chk.instance(r_box, key, sample=dict(function=f["n"], update_at=upd, first_use_at=take))
            if upd is None or upd[0] > take or upd[1] != rec:
                chk.violation(r_box, key, "%s: the record loop uses the box (statement %s) %s box.update(%s): the operation applies to the previous record's cells" % (
                    f["n"], take, "without" if upd is None else "before", rec), f["file"], lp["l"])
    # ---- C12.boxscope: a record's box must not outlive the keyword that carries it
    r_bs = chk.rule("C12.boxscope", "a function that narrows the box to a record (box.update(record)) works on its own copy of the box, so the section's current input box is unchanged for the keywords that follow", floor=3)
    for f in fns:
        if not f["file"].endswith("FieldProps.cpp"):
            continue
        upd = [c for c in walk(f["body"]) if meth(c)[0] == "update" and meth(c)[1] is not None and strip(meth(c)[1]).get("k") == "Ref"
               and "Box" in (strip(meth(c)[1]).get("t") or "") and c.get("a") and "record" in show(c["a"][0]).lower()]
        for c in upd:
            obj = strip(meth(c)[1])
            key = "%s:%s" % (f["n"], obj["n"])
            if f["n"] == "handle_box_keyword":
                # the BOX / ENDBOX keywords are the ones whose meaning *is* to change the current input box
                chk.instance(r_bs, key, nontrivial=False, sample=dict(function=f["n"], note="BOX keyword: sets the current input box by definition"))
                break
            own = None
            if obj.get("d") == "Parm":
                p_ = [q for q in f["params"] if q["n"] == obj["n"]][0]
                own = not p_.get("ref") and not p_.get("ptr")
            elif obj.get("d") == "Var":
                decl = [v for n in walk(f["body"]) if n["k"] == "Decl" for v in n["vars"] if v["n"] == obj["n"]]
                own = bool(decl) and not decl[0].get("ref") and not decl[0].get("ptr")
            chk.instance(r_bs, key, sample=dict(function=f["n"], box=obj["n"], type=obj.get("t"), owns_copy=own))
            if own is False:
                chk.violation(r_bs, key, "%s narrows `%s` (%s) to the record's box but does not own it: the caller's current input box stays narrowed for every keyword that follows in the section" % (f["n"], obj["n"], obj.get("t")), f["file"], c["l"])
            break

    # ---- C12.axis: I/J/K bookkeeping of the input box
    r_ax = chk.rule("C12.axis", "in Box.cpp every declaration, default look-up, range assertion and extent/offset assignment stays on one axis: i* with NX, item I* and component [0]; j* with NY, J*, [1]; k* with NZ, K*, [2]; init() receives its arguments in the order of its parameters", floor=20)
    bx = chk.facts(["opm/input/eclipse/EclipseState/Grid/Box.cpp"])
    AX = {"i": "I", "j": "J", "k": "K", "X": "I", "Y": "J", "Z": "K", 0: "I", 1: "J", 2: "K"}

    def axes(e, skip_idx_of=None):
        out = []
        for x in walk(e):
            if x["k"] == "Ref" and x.get("d") in ("Var", "Parm") and re.match(r"^[ijk][12]?$", x["n"]):
                out.append((AX[x["n"][0]], x["n"]))
            m_, o_ = meth(x)
            if m_ in ("getNX", "getNY", "getNZ"):
                out.append((AX[m_[-1]], m_ + "()"))
            if x["k"] in ("MCall", "Call") and x.get("targs"):
                for t_ in x["targs"]:
                    mm = re.search(r"::([IJK])[12]$", t_)
                    if mm:
                        out.append((mm.group(1), "item " + mm.group(1) + t_[-1]))
            sub = None
            if x["k"] == "Idx":
                sub = x["c"]
            elif x["k"] == "OpCall" and x.get("op") == "[]" and len(x.get("a", [])) == 2:
                sub = x["a"]
            if sub and strip(sub[0])["k"] == "Mem" and strip(sub[0])["n"] in ("m_dims", "m_offset") and strip(sub[1])["k"] == "Int" and strip(sub[1])["v"] in (0, 1, 2):
                out.append((AX[strip(sub[1])["v"]], "%s[%d]" % (strip(sub[0])["n"], strip(sub[1])["v"])))
        return out
    n_ax = 0
    for f in bx.fns:
        if f.get("cls") != "Opm::Box" or not f.get("body") or f["n"] not in ("update", "reset", "init", "Box"):
            continue
        stmts = []

        def leaves(n):
            if n["k"] == "Block":
                for c_ in n["c"]:
                    leaves(c_)
            elif n["k"] == "If":
                stmts.append(n["cond"])
                leaves(n["then"])
                if n.get("else"):
                    leaves(n["else"])
            elif n["k"] == "Decl":
                for v in n["vars"]:
                    stmts.append(dict(k="DeclVar", l=n["l"], var=v))
            else:
                stmts.append(n)
        leaves(f["body"])
        for st in stmts:
            if st["k"] == "DeclVar":
                v = st["var"]
                got = ([(AX[v["n"][0]], v["n"])] if re.match(r"^[ijk][12]?$", v["n"]) else []) + (axes(v["init"]) if v.get("init") is not None else [])
                text = "%s = %s" % (v["n"], show(v["init"])[:60] if v.get("init") is not None else "")
            elif st["k"] in ("MCall", "Call") and (meth(st)[0] == "init" or (st.get("fn") or "").endswith("Box::init")) and len(st.get("a", [])) == 6:
                # argument i must be on the axis of parameter i
                want = ["I", "I", "J", "J", "K", "K"]
                for pos, (a_, w_) in enumerate(zip(st["a"], want)):
                    ga = axes(a_)
                    n_ax += 1
                    key = "%s:init-arg%d@%s" % (f["n"], pos, st["l"] - f["l"])
                    chk.instance(r_ax, key, sample=dict(function=f["q"], argument=show(a_)[:40], axis_expected=w_, mentions=[t for _, t in ga]))
                    bad = [t for ax_, t in ga if ax_ != w_]
                    if bad:
                        chk.violation(r_ax, key, "%s passes `%s` as argument %d of init(i1, i2, j1, j2, k1, k2): that position is the %s axis" % (f["q"], show(a_)[:40], pos + 1, w_), f["file"], st["l"])
                continue
            else:
                got = axes(st)
                text = show(st)[:80]
            if not got:
                continue
            n_ax += 1
            kinds = sorted({a_ for a_, _ in got})
            key = "%s@%s" % (f["n"], st["l"] - f["l"])
            chk.instance(r_ax, key, sample=dict(function=f["q"], statement=text, axes=kinds))
            if len(kinds) > 1:
                chk.violation(r_ax, key, "%s: `%s` mixes the %s axes (%s): a box bound, extent or offset of one direction is computed from another direction's size or item" % (f["q"], text, "/".join(kinds), ", ".join(t for _, t in got)), f["file"], st["l"])
    if n_ax < 20:
        raise core.AnalysisBroken("C12.axis: only %d axis-typed statements found in Box.cpp" % n_ax)

    # ---- C12.operate: the OPERATE function table
    r_op = chk.rule("C12.operate", "every OPERATE function name is bound to the function of that name and each function returns the documented formula of R, X, alpha, beta (compared as a canonical expression tree, commutative operands sorted)", floor=28)
    ox = chk.facts(["opm/input/eclipse/EclipseState/Grid/Operate.cpp"])
    DOC = {
        "MULTA": "add(beta,mul(X,alpha))", "POLY": "add(R,mul(alpha,pow(X,beta)))", "MULTIPLY": "mul(R,X)", "SLOG": "pow(10,add(alpha,mul(X,beta)))",
        "LOG10": "log10(X)", "LOGE": "log(X)", "INV": "div(1,X)", "MULTX": "mul(X,alpha)", "ADDX": "add(X,alpha)", "COPY": "X",
        "MAXLIM": "min(X,alpha)", "MINLIM": "max(X,alpha)", "MULTP": "mul(alpha,pow(X,beta))", "ABS": "abs(X)",
    }

    def canon(e, names):
        e = strip(e)
        k = e["k"]
        if k == "Ref":
            return names.get(e["n"], e["n"])
        if k == "Int":
            return str(e["v"])
        if k == "Flt":
            v = float(e["v"])
            return str(int(v)) if v == int(v) else repr(v)
        if k == "Bin" and e.get("op") in ("+", "*") and not e.get("asg"):
            ops = []

            def flat(x):
                x = strip(x)
                if x["k"] == "Bin" and x.get("op") == e["op"] and not x.get("asg"):
                    flat(x["c"][0])
                    flat(x["c"][1])
                else:
                    ops.append(canon(x, names))
            flat(e)
            return "%s(%s)" % ("add" if e["op"] == "+" else "mul", ",".join(sorted(ops, key=lambda t: (t.replace("R", "0R").replace("X", "1X"), t))))
        if k == "Bin" and e.get("op") in ("-", "/") and not e.get("asg"):
            return "%s(%s,%s)" % ("sub" if e["op"] == "-" else "div", canon(e["c"][0], names), canon(e["c"][1], names))
        if k == "Call":
            fn_ = (e.get("fn") or "").replace("std::", "").split("<")[0]
            args = [canon(a, names) for a in e.get("a", [])]
            if fn_ in ("min", "max"):
                args = sorted(args, key=lambda t: (t.replace("X", "0X"), t))
            return "%s(%s)" % (fn_, ",".join(args))
        return "?" + show(e)

    opfns = {f["n"]: f for f in ox.fns if f.get("body") and f["q"].startswith("Opm::Operate::") and len(f.get("params", [])) == 4}
    tabv = [v for v in ox.vars if v["n"] == "operations"]
    if not tabv:
        raise core.AnalysisBroken("Operate.cpp: table `operations` not found")
    pairs = []
    for e in walk(tabv[0]["init"]):
        if e["k"] in ("InitList", "Ctor"):
            kids = [x for x in (e.get("c") or e.get("a") or []) if x.get("k") != "DefArg"]
            if len(kids) == 2:
                ss = [y["v"] for y in walk(kids[0]) if y["k"] == "Str"]
                fr = [y for y in walk(kids[1]) if y["k"] == "Ref" and y.get("d") in ("Fn", "Function", None) or (y["k"] == "Ref" and (y.get("q") or "").startswith("Opm::Operate::"))]
                if ss and fr and len(ss) == 1:
                    pairs.append((ss[0], fr[0]["n"], e["l"]))
    pairs = sorted(set(pairs))
    if len(pairs) < 10:
        raise core.AnalysisBroken("Operate.cpp: only %d (name, function) pairs extracted from `operations`" % len(pairs))
    for name, fn_name, l in pairs:
        chk.instance(r_op, "bind:" + name, sample=dict(keyword_value=name, function=fn_name))
        if name != fn_name:
            chk.violation(r_op, "bind:" + name, "OPERATE function name \"%s\" is bound to %s()" % (name, fn_name), tabv[0]["file"], l)
        f = opfns.get(fn_name)
        if f is None:
            raise core.AnalysisBroken("Operate.cpp: function %s not found" % fn_name)
        ps = [p_["n"] for p_ in f["params"]]
        names = {}
        for role, pn in zip(("R", "X", "alpha", "beta"), ps):
            if pn:
                names[pn] = role
        rets = [x for x in walk_fn(f) if x["k"] == "Return"]
        if len(rets) != 1:
            raise core.AnalysisBroken("Operate.cpp: %s has %d return statements" % (fn_name, len(rets)))
        got = canon(rets[0]["e"], names)
        want = DOC.get(name)
        chk.instance(r_op, "formula:" + name, sample=dict(function=name, returns=got, documented=want))
        if want is None:
            chk.fail_broken("C12.operate: OPERATE function %s has no documented formula in rules/C12.py (confirm it against the manual and add it)" % name)
        else:
            if not canon_equal(got, want):
                chk.violation(r_op, "formula:" + name, "OPERATE %s computes %s; the documented operation is %s" % (name, got, want), f["file"], rets[0]["l"])

    # ---- C12.indexlist: the three indices of every cell of a box
    r_il = chk.rule("C12.indexlist", "Box::initIndexList: both lists are emptied first; the loop visits every data index 0..nx*ny*nz-1 of the box once; the global index is that of (i + offset[0], j + offset[1], k + offset[2]) with (i, j, k) the box coordinates of the data index; every cell goes into the global list as (global, data), active cells also into the active list as (global, active index of global, data); cell_index stores its constructor arguments under their own names (the two-argument form uses the global index as active index)", floor=7)
    bx = chk.facts(["opm/input/eclipse/EclipseState/Grid/Box.cpp"], files_re=r"^/repo/opm/input/eclipse/EclipseState/Grid/Box\.(cpp|hpp)$")
    il = bx.fn("Opm::Box::initIndexList")
    if len(il) != 1:
        raise core.AnalysisBroken("Box::initIndexList not found")
    il = il[0]
    from verif.alpha import Inliner

    def il_clause(key, ok, found, want):
        chk.instance(r_il, key, sample=dict(found=found))
        if not ok:
            chk.violation(r_il, key, "Box::initIndexList: %s; required: %s" % (found, want), il["file"], il["l"])
    top = stmt_list(il["body"])
    loops_i = [i_ for i_, s_ in enumerate(top) if s_["k"] == "For"]
    if len(loops_i) != 1:
        raise core.AnalysisBroken("Box::initIndexList: one loop over the box expected")
    pre = [show(s_) for s_ in top[:loops_i[0]]]
    il_clause("clear", "this.m_active_index_list.clear()" in pre and "this.m_global_index_list.clear()" in pre, "before the loop: %s" % [x for x in pre if "clear" in x], "both index lists cleared (the box is re-initialised for every record)")
    inl = Inliner(il)
    lp = top[loops_i[0]]
    lv = lp["init"]["vars"][0]["n"]
    bound = inl.render(strip(lp["cond"])["c"][1]) if strip(lp["cond"]).get("k") == "Bin" else "?"
    start = inl.render(lp["init"]["vars"][0]["init"])
    ok_loop = strip(lp["cond"]).get("op") in ("!=", "<") and bound == "Opm::GridDims{this.m_dims[0], this.m_dims[1], this.m_dims[2]}.getCartesianSize()" and show(lp.get("inc")) in ("(++%s)" % lv, "(%s++)" % lv)
    from verif import symb as sy2
    st_term = sy2.Eval(lambda e: sy2.S("N") if e.get("k") == "Ref" and e.get("n") != lv else None, set()).term(lp["init"]["vars"][0]["init"], {})
    ok_loop = ok_loop and st_term == sy2.I(0)
    il_clause("loop", ok_loop, "for (%s = %s; %s; %s)" % (lv, start, show(lp["cond"]), show(lp.get("inc"))), "data index from 0 to GridDims(m_dims[0], m_dims[1], m_dims[2]).getCartesianSize(), step 1")
    body_i = stmt_list(lp["body"])
    emp = [n for n in walk(lp["body"]) if n["k"] == "MCall" and n.get("m") == "emplace_back"]
    g_txt = "this.m_globalGridDims_.getGlobalIndex((Opm::GridDims{this.m_dims[0], this.m_dims[1], this.m_dims[2]}.getIJK(%s)[0] + this.m_offset[0]), (Opm::GridDims{this.m_dims[0], this.m_dims[1], this.m_dims[2]}.getIJK(%s)[1] + this.m_offset[1]), (Opm::GridDims{this.m_dims[0], this.m_dims[1], this.m_dims[2]}.getIJK(%s)[2] + this.m_offset[2]))" % (lv, lv, lv)
    for e_ in emp:
        tgt = show(e_.get("obj"))
        args = [inl.render(a_, roles={lv: "d"}) for a_ in e_["a"]]
        g_ = g_txt.replace(lv, "$d")
        if tgt == "this.m_global_index_list":
            in_if = any(e_ is x for s_ in body_i if s_["k"] == "If" for x in walk(s_))
            il_clause("global", args == [g_, "$d"] and not in_if, "m_global_index_list.emplace_back(%s)%s" % (", ".join(args), " under a condition" if in_if else ""), "unconditionally (global index of (i+off0, j+off1, k+off2), data index)")
        elif tgt == "this.m_active_index_list":
            ifs_ = [s_ for s_ in body_i if s_["k"] == "If" and any(e_ is x for x in walk(s_["then"]))]
            cond_ok = len(ifs_) == 1 and inl.render(ifs_[0]["cond"], roles={lv: "d"}) == "this.m_globalIsActive_(%s)" % g_
            il_clause("active", args == [g_, "this.m_globalActiveIdx_(%s)" % g_, "$d"] and cond_ok, "m_active_index_list.emplace_back(%s) under %s" % (", ".join(args), [inl.render(x["cond"], roles={lv: "d"}) for x in ifs_]), "for active cells only: (global, m_globalActiveIdx_(global), data)")
    il_clause("lists", sorted(show(e_.get("obj")) for e_ in emp) == ["this.m_active_index_list", "this.m_global_index_list"], "emplace_back on %s" % sorted(show(e_.get("obj")) for e_ in emp), "one emplace_back per list")
    for f in bx.fns:
        if f.get("cls", "").endswith("Box::cell_index") and f["n"].startswith("cell_index") and f.get("inits") is not None and len(f["params"]) in (2, 3):
            pn = [p_["n"] for p_ in f["params"]]
            got = {i_["member"]: show(i_["init"]).replace("?ParenListExpr(", "").rstrip(")") for i_ in f["inits"]}
            want = dict(global_index=pn[0], active_index=pn[1], data_index=pn[2]) if len(pn) == 3 else dict(global_index=pn[0], active_index=pn[0], data_index=pn[1])
            chk.instance(r_il, "cell_index/%d" % len(pn), sample=dict(inits=got))
            if got != want:
                chk.violation(r_il, "cell_index/%d" % len(pn), "Box::cell_index(%s) initialises %s; required %s" % (", ".join(pn), got, want), f["file"], f["l"])

    # ---- C12.scalar: the loop of every scalar primitive
    r_sc = chk.rule("C12.scalar", "the scalar primitives of FieldProps.cpp (assign_scalar, multiply_scalar, add_scalar, min_value, max_value): one pass over the index list; the element addressed is the cell's active_index in both the data and the status array; EQUALS writes every listed cell and marks it deck_value; the others change a cell only if it has a value and otherwise count it, and a non-zero count (> 0) rejects the operation", floor=5)
    for nm in ("assign_scalar", "multiply_scalar", "add_scalar", "min_value", "max_value"):
        cand = [f for f in fns if f["n"] == nm and f["file"].endswith("FieldProps.cpp")]
        if len(cand) != 1:
            raise core.AnalysisBroken("FieldProps.cpp: %s not found" % nm)
        f = cand[0]
        inl = Inliner(f)
        pn = [p_["n"] for p_ in f["params"]]
        p_data, p_st, p_val, p_il = pn[-4], pn[-3], pn[-2], pn[-1]
        top = stmt_list(f["body"])
        lps = [s_ for s_ in top if s_["k"] == "ForRange"]
        problems = []
        if len(lps) != 1 or show(lps[0]["range"]) != p_il:
            problems.append("no single loop over the index list parameter")
        else:
            lp = lps[0]
            cv = lp["var"]["n"]
            ix = "%s.active_index" % cv
            body_l = stmt_list(lp["body"])
            RL = {cv: "c", p_data: "D", p_st: "S", p_val: "V"}
            if nm == "assign_scalar":
                got = sorted(inl.render(s_, roles=RL) for s_ in body_l if s_["k"] != "Decl")
                want = sorted(["($D[$c.active_index] = $V)", "($S[$c.active_index] = Opm::value::status::deck_value)"])
                if got != want:
                    problems.append("loop body %s, required %s" % (got, want))
            else:
                ifs_ = [s_ for s_ in body_l if s_["k"] == "If"]
                if len(ifs_) != 1 or len([s_ for s_ in body_l if s_["k"] != "Decl"]) != 1:
                    problems.append("loop body is not a single if/else")
                else:
                    c_ = inl.render(ifs_[0]["cond"], roles=RL)
                    if c_ != "Opm::value::has_value($S[$c.active_index])":
                        problems.append("the update is guarded by `%s`, required has_value(%s[cell.active_index])" % (c_, p_st))
                    th = [inl.render(s_, roles=RL) for s_ in stmt_list(ifs_[0]["then"])]
                    if len(th) != 1 or not th[0].startswith("($D[$c.active_index] "):
                        problems.append("the guarded statement is %s, required an update of %s[cell.active_index]" % (th, p_data))
                    el = [show(s_) for s_ in stmt_list(ifs_[0]["else"])] if ifs_[0].get("else") is not None else []
                    cnt = [v["n"] for s_ in top if s_["k"] == "Decl" for v in s_["vars"] if show(v.get("init")) == "0"]
                    if len(cnt) != 1 or el not in (["(++%s)" % cnt[0]], ["(%s++)" % cnt[0]], ["(%s += 1)" % cnt[0]]):
                        problems.append("cells without a value are not counted once each (else branch %s, counter %s)" % (el, cnt))
                    else:
                        after = top[top.index(lp) + 1:]
                        rej = [s_ for s_ in after if s_["k"] == "If" and any(x["k"] == "Call" and (x.get("fn") or "").endswith("reject_undefined_operation") for x in walk(s_["then"]))]
                        if len(rej) != 1 or show(strip(rej[0]["cond"])) not in ("(%s > 0)" % cnt[0], "(%s != 0)" % cnt[0], "(%s >= 1)" % cnt[0]):
                            problems.append("after the loop the operation is rejected under %s, required (%s > 0)" % ([show(x["cond"]) for x in rej], cnt[0]))
        chk.instance(r_sc, nm, sample=dict(function=f["q"], line=f["l"], problems=problems))
        for pr in problems:
            chk.violation(r_sc, nm + ":" + pr[:30], "%s: %s" % (nm, pr), f["file"], f["l"])

    # ---- C12.fielddata: the storage object of one keyword
    r_fd = chk.rule("C12.fielddata", "FieldData<T>: the constructor sizes data and value_status to active cells x values per cell (all uninitialized), global storage to global cells x values per cell, and applies the keyword's scalar default if it has one; numCells() is data.size() / values per cell; default_assign(value) fills data and status (valid_default) of the active and, if present, the global storage; default_update(src) writes src[i] and valid_default exactly into the entries that have no value; update_local_from_global copies value and status of global cell local_to_global(i) into entry i for every i; operator== compares all five stored members; compress moves every active entry down by the number of inactive entries before it; valid() means no status is uninitialized or empty_default; update_global_from_local (FieldProps.cpp) writes value and status of every listed cell into the global storage", floor=12)
    fdf = {}
    for f in fx.fns:
        if (f.get("cls") or "").endswith("Fieldprops::FieldData") and f["file"].endswith("FieldData.hpp") and f.get("body") is not None:
            fdf.setdefault(f["n"].split("<")[0], []).append(f)

    def fd_clause(key, f, ok, found, want):
        chk.instance(r_fd, key, sample=dict(found=found))
        if not ok:
            chk.violation(r_fd, key, "FieldData::%s: %s; required: %s" % (key, found, want), f["file"], f["l"])
    ctor = [f for f in fdf.get("FieldData", []) if len(f["params"]) == 3]
    if len(ctor) != 1:
        raise core.AnalysisBroken("FieldData(info, active_size, global_size) not found")
    ctor = ctor[0]
    p_info, p_act, p_glob = [p_["n"] for p_ in ctor["params"]]
    ini = {i_["member"]: show(i_["init"]).replace("?ParenListExpr(", "", 1)[:-1] if show(i_["init"]).startswith("?ParenListExpr(") else show(i_["init"]) for i_ in ctor.get("inits") or []}
    sz = ("(%s * %s.num_value)" % (p_act, p_info), "(%s.num_value * %s)" % (p_info, p_act))
    fd_clause("ctor:data", ctor, ini.get("data") in sz, "data(%s)" % ini.get("data"), "data(active_size * info.num_value)")
    fd_clause("ctor:status", ctor, ini.get("value_status") in tuple(x + ", Opm::value::status::uninitialized" for x in sz), "value_status(%s)" % ini.get("value_status"), "value_status(active_size * info.num_value, uninitialized)")
    ctxt = show(ctor["body"])
    gsz = "(%s * this.numValuePerCell())" % p_glob
    fd_clause("ctor:global", ctor, "if ((%s != 0)) { this.global_data.emplace(%s) this.global_value_status.emplace(%s, Opm::value::status::uninitialized) }" % (p_glob, gsz, gsz) in ctxt, ctxt[:260], "if (global_size != 0) global data and status of global_size * numValuePerCell() entries, uninitialized")
    fd_clause("ctor:default", ctor, "if (%s.scalar_init) { this.default_assign((*%s.scalar_init)) }" % (p_info, p_info) in ctxt, ctxt[-120:], "if (info.scalar_init) default_assign(*info.scalar_init)")
    nc = fdf.get("numCells", [None])[0]
    if nc is None:
        raise core.AnalysisBroken("FieldData::numCells not found")
    fd_clause("numCells", nc, show(nc["body"]) == "{ return (this.data.size() / this.numValuePerCell()); }", show(nc["body"]), "data.size() / numValuePerCell()")
    da = [f for f in fdf.get("default_assign", []) if len(f["params"]) == 1 and "vector" not in f["params"][0]["t"]]
    if len(da) != 1:
        raise core.AnalysisBroken("FieldData::default_assign(T) not found")
    da = da[0]
    v_ = da["params"][0]["n"]
    fills = [show(n) for n in walk(da["body"]) if n["k"] == "Call" and ((n.get("fn") or "").endswith("fill") or (n.get("callee") or {}).get("n") == "fill")]
    want_f = ["std::fill(this.data.begin(), this.data.end(), %s)" % v_, "std::fill(this.value_status.begin(), this.value_status.end(), Opm::value::status::valid_default)",
              "std::fill(this.global_data.begin(), this.global_data.end(), %s)" % v_, "std::fill(this.global_value_status.begin(), this.global_value_status.end(), Opm::value::status::valid_default)"]
    top_da = stmt_list(da["body"])
    g_if = [s_ for s_ in top_da if s_["k"] == "If" and show(strip(s_["cond"])) in ("this.global_data", "this.global_data.has_value()", "this.global_data.operator bool()")]
    fd_clause("default_assign", da, sorted(fills) == sorted(want_f) and len(g_if) == 1 and all(w in show(g_if[0]["then"]) for w in want_f[2:]) and all(w in [show(s_) for s_ in top_da] for w in want_f[:2]), fills, "fill data with the value and value_status with valid_default; the same for the global storage if present")
    du = fdf.get("default_update", [None])[0]
    if du is None:
        raise core.AnalysisBroken("FieldData::default_update not found")
    src_ = du["params"][0]["n"]
    lps = [s_ for s_ in stmt_list(du["body"]) if s_["k"] == "For"]
    ok = False
    found = show(du["body"])[-330:]
    if len(lps) == 1:
        lp = lps[0]
        iv = lp["init"]["vars"][0]["n"]
        body_l = stmt_list(lp["body"])
        ok = (show(lp["init"]["vars"][0].get("init")) == "0" and show(lp["cond"]) in ("(%s < %s.size())" % (iv, src_), "(%s < this.dataSize())" % iv, "(%s < this.data.size())" % iv) and show(lp.get("inc")) in ("(++%s)" % iv, "(%s++)" % iv)
              and len(body_l) == 1 and body_l[0]["k"] == "If" and show(strip(body_l[0]["cond"])) == "(!Opm::value::has_value(this.value_status[%s]))" % iv and body_l[0].get("else") is None
              and sorted(show(x) for x in stmt_list(body_l[0]["then"])) == sorted(["(this.value_status[%s] = Opm::value::status::valid_default)" % iv, "(this.data[%s] = %s[%s])" % (iv, src_, iv)]))
    fd_clause("default_update", du, ok, found, "for every i: if (!has_value(value_status[i])) { value_status[i] = valid_default; data[i] = src[i]; }")
    ul = fdf.get("update_local_from_global", [None])[0]
    if ul is None:
        raise core.AnalysisBroken("FieldData::update_local_from_global not found")
    inl_u = Inliner(ul)
    lps = [s_ for s_ in stmt_list(ul["body"]) if s_["k"] == "For"]
    ok = False
    if len(lps) == 1:
        lp = lps[0]
        decls = {v["n"]: show(v.get("init")) for s_ in stmt_list(ul["body"]) if s_["k"] == "Decl" for v in s_["vars"]}
        decls.update({v["n"]: show(v.get("init")) for v in (lp.get("init") or {}).get("vars", [])})
        cur = [k_ for k_, v in decls.items() if v == "this.data.begin()"]
        cst = [k_ for k_, v in decls.items() if v == "this.value_status.begin()"]
        cnt = [k_ for k_, v in decls.items() if v in ("{}", "0", "std::size_t{}")]
        if len(cur) == 1 and len(cst) == 1 and len(cnt) == 1:
            incs = set(re.findall(r"\(\+\+(\w+)\)", show(lp.get("inc"))))
            fcall = ul["params"][0]["n"]
            body_txt = sorted(inl_u.render(s_, roles={cur[0]: "cur", cst[0]: "st", cnt[0]: "i"}) for s_ in stmt_list(lp["body"]) if s_["k"] != "Decl")
            ok = (incs == {cur[0], cst[0], cnt[0]} and show(lp["cond"]) == "(%s != this.data.end())" % cur[0]
                  and body_txt == sorted(["((*$cur) = (*this.global_data)[$1($i)])".replace("$1", "$1"), "((*$st) = (*this.global_value_status)[$1($i)])"]))
            if not ok:
                found = "inc %s, cond %s, body %s" % (sorted(incs), show(lp["cond"]), body_txt)
    fd_clause("update_local_from_global", ul, ok, found if not ok else "ok", "entry i of data / value_status receives global_data / global_value_status at local_to_global(i); all three cursors advance together")
    cf = [f for f in fx.fns if f["n"] == "compress" and not f.get("cls") and f["file"].endswith("FieldData.hpp")]
    if len(cf) != 1:
        raise core.AnalysisBroken("Fieldprops::compress(data, active_map, values_per_cell) not found")
    cf = cf[0]
    p_d, p_m, p_v = [p_["n"] for p_ in cf["params"]]
    inl_c = Inliner(cf)
    c_top = stmt_list(cf["body"])
    c_shift = [v["n"] for s_ in c_top if s_["k"] == "Decl" for v in s_["vars"] if show(v.get("init")) == "0"]
    c_l1 = [s_ for s_ in c_top if s_["k"] == "For"]
    c_l2 = [s_ for s_ in stmt_list(c_l1[0]["body"]) if s_["k"] == "For"] if len(c_l1) == 1 else []
    if len(c_shift) != 1 or len(c_l1) != 1 or len(c_l2) != 1:
        raise core.AnalysisBroken("Fieldprops::compress: shift counter / nested loops not found")
    ctext = inl_c.render(cf["body"], roles={p_d: "D", p_m: "M", p_v: "V", c_shift[0]: "1", c_l1[0]["init"]["vars"][0]["n"]: "2", c_l2[0]["init"]["vars"][0]["n"]: "3"})
    ctext = re.sub(r"std::size_t \w+ = 0;; \(\$([23]) <", r"std::size_t $\1 = 0;; ($\1 <", ctext)
    want_parts = ["if ((($M.size() * $V) != $D.size()))", "for (std::size_t $2 = 0;; ($2 < $V); (++$2))", "for (std::size_t $3 = 0;; ($3 < $M.size()); (++$3))",
                  "if (($M[$3] && ($1 > 0))) {", "($D[((($2 * $M.size()) + $3) - $1)] = $D[(($2 * $M.size()) + $3)]) continue; }", "if ((!$M[$3])) { ($1 += 1) }", "$D.resize(($D.size() - $1))"]
    miss_c = [w for w in want_parts if w not in ctext]
    fd_clause("compress", cf, not miss_c, ("missing: %s in %s" % (miss_c, ctext[:400])) if miss_c else "ok", "size check data.size() == cells x values; for every value block and every cell g: an active cell moves down by the number of inactive entries met so far (shift), an inactive one increases shift by 1; finally resize to size - shift")
    vf = fdf.get("valid", [None])[0]
    if vf is None:
        raise core.AnalysisBroken("FieldData::valid not found")
    vt = show(vf["body"])
    lam = [x for x in walk(vf["body"]) if x["k"] == "Lambda"]
    lt = show(lam[0]["body"]) if len(lam) == 1 else ""
    lp_ = lam[0]["params"][0]["n"] if len(lam) == 1 and lam[0].get("params") else "?"
    okv = "std::none_of(this.value_status.begin(), this.value_status.end()" in vt and lt in ("{ return ((%s == Opm::value::status::uninitialized) || (%s == Opm::value::status::empty_default)); }" % (lp_, lp_), "{ return ((%s == Opm::value::status::empty_default) || (%s == Opm::value::status::uninitialized)); }" % (lp_, lp_))
    fd_clause("valid", vf, okv, vt[:200] + " | " + lt, "none_of over all of value_status of (status == uninitialized || status == empty_default)")
    for nm_ in ("default_assign", "default_update"):
        for f in fdf.get(nm_, []):
            if len(f["params"]) == 1 and "vector" in f["params"][0]["t"]:
                top_ = stmt_list(f["body"])
                g0 = top_[0] if top_ else {}
                okg = g0.get("k") == "If" and show(strip(g0["cond"])) in ("(%s.size() != this.dataSize())" % f["params"][0]["n"], "(this.dataSize() != %s.size())" % f["params"][0]["n"]) and any(x["k"] == "Throw" for x in walk(g0["then"]))
                fd_clause(nm_ + ":size", f, okg, show(g0.get("cond")) if g0 else "-", "first statement: if (src.size() != dataSize()) throw")
    eq = fdf.get("operator==", [None])[0]
    if eq is None:
        raise core.AnalysisBroken("FieldData::operator== not found")
    etxt = show(eq["body"])
    other = eq["params"][0]["n"]
    mem = ["data", "value_status", "kw_info", "global_data", "global_value_status"]
    miss = [m_ for m_ in mem if "(this.%s == %s.%s)" % (m_, other, m_) not in etxt and "(%s.%s == this.%s)" % (other, m_, m_) not in etxt]
    fd_clause("operator==", eq, not miss and "||" not in etxt and "!=" not in etxt, etxt[:300], "conjunction of == over data, value_status, kw_info, global_data, global_value_status (missing: %s)" % miss)

    ug = [f for f in fns if f["n"] == "update_global_from_local" and f["file"].endswith("FieldProps.cpp")]
    if len(ug) != 1:
        raise core.AnalysisBroken("update_global_from_local not found")
    ug = ug[0]
    inl_g = Inliner(ug)
    dp = ug["params"][0]["n"]
    lps = [n for n in walk(ug["body"]) if n["k"] == "ForRange" and show(n["range"]) == ug["params"][1]["n"]]
    refs_g = {v["n"]: "(" + show(strip(v["init"])).strip("()") + ")" for n in walk(ug["body"]) if n["k"] == "Decl" for v in n["vars"] if isinstance(v.get("init"), dict) and "&" in (v.get("t") or "")}

    def g_render(s_):
        t = show(s_)
        for nm_, init_ in sorted(refs_g.items(), key=lambda kv: -len(kv[0])):
            t = re.sub(r"(?<![\w.$])%s\b" % re.escape(nm_), init_.replace("\\", "\\\\"), t)
        t = re.sub(r"(?<![\w.$])%s\b" % re.escape(lps[0]["var"]["n"]), "$c", t)
        return re.sub(r"(?<![\w.$])%s\b" % re.escape(dp), "$F", t)
    gt = sorted(g_render(s_) for s_ in stmt_list(lps[0]["body"])) if len(lps) == 1 else []
    want_g = sorted(["((*$F.global_data)[$c.global_index] = ($F.data)[$c.active_index])", "((*$F.global_value_status)[$c.global_index] = ($F.value_status)[$c.active_index])"])
    fd_clause("update_global_from_local", ug, gt == want_g, gt, "for every listed cell: global data and global status at global_index receive data and status at active_index (through references to the object's own storage)")

    # ---- C12.opapply: FieldProps::operate, the loop of OPERATE / OPERATER
    r_oa = chk.rule("C12.opapply", "FieldProps::operate: target and source data and status are all taken from the global storage if `global` is set and all from the per-active-cell storage otherwise; a cell is computed only if the source has a value there and - for MULTIPLY and POLY, which read the target - the target has one too, otherwise the keyword is rejected; the result is func(target, source) at the same index and the cell takes the status of the source; handle_OPERATE applies it to the box's active cells and, when the target has global storage, again to all cells of the box with global set", floor=5)
    opf = [f for f in fns if f["n"] == "operate" and (f.get("cls") or "").endswith("FieldProps") and f["file"].endswith("FieldProps.cpp")]
    if len(opf) != 1:
        raise core.AnalysisBroken("FieldProps::operate not found")
    opf = opf[0]
    pn = [p_["n"] for p_ in opf["params"]]
    p_tgt, p_src, p_list, p_glob = pn[1], pn[2], pn[3], pn[4]
    decls = {v["n"]: show(strip(v["init"])) for n in walk(opf["body"]) if n["k"] == "Decl" for v in n["vars"] if isinstance(v.get("init"), dict)}
    sel = {"(%s ? (*%s.global_data) : %s.data)" % (p_glob, p_tgt, p_tgt): "to_data", "(%s ? (*%s.global_value_status) : %s.value_status)" % (p_glob, p_tgt, p_tgt): "to_status",
           "(%s ? (*%s.global_data) : %s.data)" % (p_glob, p_src, p_src): "from_data", "(%s ? (*%s.global_value_status) : %s.value_status)" % (p_glob, p_src, p_src): "from_status"}
    role_of = {k_: sel[v] for k_, v in decls.items() if v in sel}

    def oa_clause(key, ok, found, want, line=None):
        chk.instance(r_oa, key, sample=dict(found=found))
        if not ok:
            chk.violation(r_oa, key, "FieldProps::operate: %s; required: %s" % (found, want), opf["file"], line or opf["l"])
    oa_clause("storage", sorted(role_of.values()) == ["from_data", "from_status", "to_data", "to_status"], {k_: v for k_, v in decls.items() if "global" in v}, "four references, each `global ? *X.global_<part> : X.<part>` of the target / the source")
    ct = [k_ for k_, v in decls.items() if "MULTIPLY" in v or "POLY" in v]
    fnm = [k_ for k_, v in decls.items() if '"OPERATION"' in v and "getItem" in v]
    oa_clause("check_target", len(ct) == 1 and len(fnm) == 1 and decls[ct[0]] in ('((%s == "MULTIPLY") || (%s == "POLY"))' % (fnm[0], fnm[0]), '((%s == "POLY") || (%s == "MULTIPLY"))' % (fnm[0], fnm[0])), {k_: decls[k_] for k_ in ct}, "check_target = (operation is MULTIPLY) || (operation is POLY)")
    lps = [s_ for s_ in stmt_list(opf["body"]) if s_["k"] == "ForRange" and show(s_["range"]) == p_list]
    if len(lps) == 1 and len(role_of) == 4 and len(ct) == 1:
        lp = lps[0]
        inl_o = Inliner(opf, keep=set(role_of) | {ct[0]})
        RL = dict({k_: v for k_, v in role_of.items()}, **{lp["var"]["n"]: "c", ct[0]: "check"})
        body_l = [s_ for s_ in stmt_list(lp["body"]) if s_["k"] != "Decl"]
        ok = False
        found = [inl_o.render(s_, roles=RL)[:200] for s_ in body_l]
        if len(body_l) == 1 and body_l[0]["k"] == "If":
            o_ = body_l[0]
            c1 = inl_o.render(o_["cond"], roles=RL)
            el1 = stmt_list(o_["else"]) if o_.get("else") is not None else []
            th1 = stmt_list(o_["then"])
            if c1 == "Opm::value::has_value($from_status[$c.active_index])" and len(el1) == 1 and el1[0]["k"] == "Throw" and len(th1) == 1 and th1[0]["k"] == "If":
                i_ = th1[0]
                c2 = inl_o.render(i_["cond"], roles=RL)
                el2 = stmt_list(i_["else"]) if i_.get("else") is not None else []
                th2 = sorted(inl_o.render(s_, roles=RL) for s_ in stmt_list(i_["then"]))
                fvar = [k_ for k_, v in decls.items() if "Operate::get" in v]
                want2 = sorted(["($to_status[$c.active_index] = $from_status[$c.active_index])"])
                ok = (c2 in ("((!$check) || Opm::value::has_value($to_status[$c.active_index]))", "(Opm::value::has_value($to_status[$c.active_index]) || (!$check))") and len(el2) == 1 and el2[0]["k"] == "Throw"
                      and len(th2) == 2 and want2[0] in th2 and any(re.fullmatch(r"\(\$to_data\[\$c\.active_index\] = .*\(\$to_data\[\$c\.active_index\], \$from_data\[\$c\.active_index\]\)\)", t) and "Operate::get" in t for t in th2))
                found = [c1, c2] + th2
        oa_clause("loop", ok, found, "if (has_value(from_status[ix])) { if (!check_target || has_value(to_status[ix])) { to_data[ix] = func(to_data[ix], from_data[ix]); to_status[ix] = from_status[ix]; } else throw } else throw, ix = cell.active_index", lp["l"])
    else:
        oa_clause("loop", False, "loop over the index list / the four storage references not found", "one loop over index_list")
    ho = [f for f in fns if f["n"] == "handle_OPERATE" and f["file"].endswith("FieldProps.cpp")]
    if len(ho) != 1:
        raise core.AnalysisBroken("FieldProps::handle_OPERATE not found")
    ho = ho[0]
    calls_o = [n for n in walk(ho["body"]) if n["k"] in ("Call", "MCall") and (n.get("m") == "operate" or (n.get("fn") or "").endswith("::operate"))]
    boxp = [p_["n"] for p_ in ho["params"] if "Box" in p_["t"]]
    sig = sorted((show(n["a"][3]), show(n["a"][4]) if len(n["a"]) > 4 and n["a"][4].get("k") != "DefArg" else "false") for n in calls_o if len(n.get("a") or []) >= 4)
    want_sig = sorted([("%s.index_list()" % boxp[0], "false"), ("%s.global_index_list()" % boxp[0], "true")]) if boxp else None
    chk.instance(r_oa, "handle_OPERATE", sample=dict(calls=sig))
    if sig != want_sig:
        chk.violation(r_oa, "handle_OPERATE", "handle_OPERATE calls operate with (index list, global) = %s; required %s" % (sig, want_sig), ho["file"], ho["l"])
    else:
        gcall = [n for n in calls_o if show(n["a"][3]).endswith("global_index_list()")][0]
        guards = [s_ for s_ in walk(ho["body"]) if s_["k"] == "If" and any(x is gcall for x in walk(s_["then"]))]
        tdecl = {v["n"] for n in walk(ho["body"]) if n["k"] == "Decl" for v in n["vars"]}
        okg = any(show(strip(g["cond"])) in ("%s.global_data" % show(gcall["a"][1]), "%s.global_data.has_value()" % show(gcall["a"][1]), "%s.global_data.operator bool()" % show(gcall["a"][1])) for g in guards)
        chk.instance(r_oa, "handle_OPERATE:global", sample=dict(guards=[show(g["cond"]) for g in guards]))
        if not okg:
            chk.violation(r_oa, "handle_OPERATE:global", "handle_OPERATE: the pass over the global storage is not guarded by the target having global storage (%s)" % [show(g["cond"]) for g in guards], ho["file"], gcall["l"])

    # ---- C12.editmult: the deferred multipliers of the EDIT section
    r_em = chk.rule("C12.editmult", "FieldProps::apply_multipliers (end of the EDIT section): for every deferred multiplier array M<kw> and its target <kw>, each element-wise product takes the ADDITIONAL multiplier - the array found under the prefixed name - as its second factor and writes back into its first: the target's per-cell data, the target's global data (factor: the multiplier's global data), and, for MULTPV, an already existing PORV (factor: the multiplier's per-cell data); nothing is multiplied by the accumulated target itself", floor=3)
    am = [f for f in fns if f["n"] == "apply_multipliers" and f["file"].endswith("FieldProps.cpp")]
    if len(am) != 1:
        raise core.AnalysisBroken("FieldProps::apply_multipliers not found")
    am = am[0]
    d_am = {v["n"]: show(strip(v["init"])) for n in walk(am["body"]) if n["k"] == "Decl" for v in n["vars"] if isinstance(v.get("init"), dict)}
    kw_stripped = [k_ for k_, v in d_am.items() if ".substr(" in v]
    mult_it = [k_ for k_, v in d_am.items() if v.startswith("this.double_data.find(") and kw_stripped and not v.startswith("this.double_data.find(%s)" % kw_stripped[0]) and "PORV" not in v]
    tgt_it = [k_ for k_, v in d_am.items() if kw_stripped and v == "this.double_data.find(%s)" % kw_stripped[0]]
    if len(mult_it) != 1 or len(tgt_it) != 1:
        raise core.AnalysisBroken("apply_multipliers: the iterators of the multiplier (%s) and of its target (%s) were not identified" % (mult_it, tgt_it))
    mi, ti = mult_it[0], tgt_it[0]
    trs = [n for n in walk(am["body"]) if n["k"] == "Call" and (n.get("fn") or "").endswith("transform") and len(n.get("a") or []) == 5]
    for n in trs:
        a = [show(x) for x in n["a"]]

        def root(t):
            t2 = t
            for nm_, init_ in d_am.items():
                if re.match(r"%s\b" % re.escape(nm_), t2) and nm_ not in (mi, ti):
                    t2 = init_ + t2[len(nm_):]
            return t2
        first, last, second, out = a[0], a[1], a[2], a[3]
        key = "product@%d" % n["l"]
        whole = first.endswith(".begin()") and last == first[:-len("begin()")] + "end()" and out == first
        from_mult = ("(->%s)" % mi) in second and ("(->%s)" % ti) not in second
        part_ok = ("global_data" in first) == ("global_data" in second)
        mul = "multiplies" in a[4]
        chk.instance(r_em, key, sample=dict(line=n["l"], target=first, factor=second, output=out))
        if not (whole and from_mult and part_ok and mul):
            chk.violation(r_em, key, "apply_multipliers: std::transform(%s, %s, %s, %s, %s): the second factor must be the additional multiplier's %s data (%s->second...), the product is written back over the whole first range - here %s" % (first, last, second, out, a[4], "global" if "global_data" in first else "per-cell", mi, "the factor is not the additional multiplier: the accumulated multiplier is applied, so an earlier (GRID-section) multiplier counts twice" if not from_mult else "the ranges do not match"), am["file"], n["l"])
    if len(trs) < 3:
        raise core.AnalysisBroken("apply_multipliers: %d element-wise products found (3 expected)" % len(trs))

    # ---- C12.records: every record of an operation keyword is processed
    r_rc = chk.rule("C12.records", "the FieldProps handlers that walk the records of a keyword (handle_operation, handle_region_operation, handle_OPERATE, handle_operateR, handle_COPY, handle_schedule_keywords) leave the record loop only by finishing it or by throwing: a record that does not apply (unsupported array, region without active cells) is skipped with `continue`, never with `return` or `break`, which would silently drop every later record of the same keyword", floor=5)
    from verif.tree import children as _children_rc
    for f in fns:
        if not f["file"].endswith("FieldProps.cpp"):
            continue
        kwp = [p_["n"] for p_ in f["params"] if "DeckKeyword" in (p_.get("t") or "")]
        for lp in walk(f["body"]):
            if not (lp["k"] == "ForRange" and kwp and show(strip(lp["range"])) in kwp):
                continue
            exits = []

            def rec(n, inner):
                if n.get("k") == "Lambda":
                    return
                if n.get("k") == "Return":
                    exits.append(("return", n["l"]))
                if n.get("k") == "Break" and not inner:
                    exits.append(("break", n["l"]))
                for c in _children_rc(n):
                    rec(c, inner or n.get("k") in ("For", "ForRange", "While", "Do", "Switch"))
            rec(lp["body"], False)
            key = "%s@%d" % (f["n"], lp["l"])
            chk.instance(r_rc, key, sample=dict(function=f["q"], record_loop_line=lp["l"], early_exits=exits))
            for kind, ln in exits:
                chk.violation(r_rc, "%s:%s" % (f["n"], kind), "%s leaves its record loop with `%s` at line %d: the records after this one are never applied, so the arrays no longer equal the keyword's operations applied in input order (and whether that happens can depend on which cells are inactive)" % (f["q"], kind, ln), f["file"], ln)

    # ---- C12.lostcopy: an update written into a local copy of the storage it is meant for
    r_lc = chk.rule("C12.lostcopy", "in the cell-property code a local variable that is a by-value copy of storage outliving the function (a member of *this or of a reference parameter, possibly through * or .value()) is not used only as the target of element assignments / mutating calls: such writes end with the function and the array they were meant for keeps its old content (a reference binding - auto& - is what the sibling variables use)", floor=1)
    from verif.tree import children as _children
    MUTATORS = {"push_back", "emplace_back", "clear", "resize", "insert", "erase", "assign", "fill", "swap", "reserve"}
    n_lc = 0
    for f in fns:
        if not f["file"].startswith(core.REPO + "/opm/input/eclipse/EclipseState/Grid/"):
            continue
        refparams = {p_["n"] for p_ in f["params"] if p_.get("n") and ("&" in (p_.get("t") or "") or "*" in (p_.get("t") or ""))}
        cands = {}
        for n in walk(f["body"]):
            if n["k"] != "Decl":
                continue
            for v in n["vars"]:
                t = v.get("t") or ""
                if "&" in t or "*" in t or not isinstance(v.get("init"), dict) or "iterator" in t:
                    continue
                e = strip(v["init"])
                while True:
                    if e.get("k") == "Un" and e.get("op") == "*" and e.get("c"):
                        e = strip(e["c"][0])
                    elif e.get("k") in ("MCall", "Call") and (e.get("m") in ("value",) or meth(e)[0] == "value") and meth(e)[1] is not None:
                        e = strip(meth(e)[1])
                    elif e.get("k") in ("OpCall",) and e.get("op") == "*" and len(e.get("a") or []) == 1:
                        e = strip(e["a"][0])
                    elif e.get("k") in ("Ctor", "Temp", "Bind", "Cast", "?ParenListExpr") and len([c for c in (e.get("a") or e.get("c") or []) if c.get("k") != "DefArg"]) == 1:
                        e = strip([c for c in (e.get("a") or e.get("c")) if c.get("k") != "DefArg"][0])
                    else:
                        break
                root = e
                depth = 0
                while root.get("k") in ("Mem", "DMem") and isinstance(root.get("b"), dict):
                    root = strip(root["b"])
                    depth += 1
                is_storage = depth >= 1 and ((root.get("k") == "Ref" and root.get("n") in refparams) or root.get("k") == "This" or show(root) == "this")
                container = any(w in t for w in ("vector", "auto", "map", "array", "optional")) or t == "auto"
                if is_storage and container:
                    cands[(v["n"], v.get("l"))] = (v, show(v["init"]))
        if not cands:
            continue
        uses = {k: dict(write=[], read=[]) for k in cands}

        def rec(n, ctx):
            # ctx: how the value of this node is used by its parent: 'w' (written through), 'r' (read)
            if n.get("k") == "Ref" and (n.get("n"), n.get("dl")) in uses:
                uses[(n["n"], n["dl"])]["write" if ctx == "w" else "read"].append(n.get("l"))
                return
            k = n.get("k")
            if k == "Bin" and n.get("asg") and len(n.get("c") or []) == 2:
                lhs = strip(n["c"][0])
                base = lhs
                while base.get("k") in ("Idx",) and base.get("c"):
                    rec(base["c"][1], "r")
                    base = strip(base["c"][0])
                while base.get("k") == "OpCall" and base.get("op") == "[]" and len(base.get("a") or []) == 2:
                    rec(base["a"][1], "r")
                    base = strip(base["a"][0])
                if base is not lhs and base.get("k") == "Ref":
                    rec(base, "w" if n["op"] == "=" else "w")
                else:
                    rec(n["c"][0], "r")
                rec(n["c"][1], "r")
                return
            if k == "OpCall" and n.get("op") in ("=", "+=", "-=", "*=", "/=") and len(n.get("a") or []) == 2:
                lhs = strip(n["a"][0])
                base = lhs
                while base.get("k") == "OpCall" and base.get("op") == "[]" and len(base.get("a") or []) == 2:
                    rec(base["a"][1], "r")
                    base = strip(base["a"][0])
                while base.get("k") in ("Idx",) and base.get("c"):
                    rec(base["c"][1], "r")
                    base = strip(base["c"][0])
                if base is not lhs and base.get("k") == "Ref":
                    rec(base, "w")
                else:
                    rec(n["a"][0], "r")
                rec(n["a"][1], "r")
                return
            if k in ("MCall", "Call") and meth(n)[0] in MUTATORS and meth(n)[1] is not None and strip(meth(n)[1]).get("k") == "Ref":
                rec(strip(meth(n)[1]), "w")
                for a_ in n.get("a") or []:
                    rec(a_, "r")
                return
            for c in _children(n):
                rec(c, "r")
        rec(f["body"], "r")
        for k_, (v, init) in cands.items():
            u = uses[k_]
            n_lc += 1
            key = "%s:%s" % (f["q"].split("::")[-1], v["n"])
            chk.instance(r_lc, key + "@%s" % v.get("l"), nontrivial=bool(u["write"]), sample=dict(function=f["q"], local=v["n"], type=v.get("t"), copy_of=init, written_at=u["write"][:6], read_at=u["read"][:6]))
            if u["write"] and not u["read"]:
                chk.violation(r_lc, key, "%s: `%s` (declared `%s %s = %s`, line %s) is a COPY of storage that outlives the function and is only written to (lines %s), never read, returned or passed on: the updates are lost when the function returns and %s keeps its old content" % (f["q"], v["n"], v.get("t"), v["n"], init, v.get("l"), sorted(set(u["write"])), init), f["file"], v.get("l"))

    # ---- C12.siscalar: the scalar of an operation keyword enters the arrays in SI units
    r_si = chk.rule("C12.siscalar", "in FieldProps every floating-point number taken from an operation record (item.get<double>(0)) goes through the unit conversion of the target array - getSIValue(operation, keyword, value), or get_alpha / get_beta for OPERATE, which call it - before it is applied; for an integer array it is converted to int instead.  The box handler and the region handler therefore apply the same value for the same record (ADD 50 mD is 50 mD in both)", floor=4)
    SI_FN = {"getSIValue", "get_alpha", "get_beta"}
    n_sc = 0
    for f in fns:
        if not (f.get("cls") or "").endswith("FieldProps") or not f.get("body") or not re.fullmatch(r"handle_(operation|region_operation|OPERATE|operateR|operate|COPY)|operate", f["n"]):
            continue        # only the handlers of the operation keywords (MULTREGP and friends read dimensionless multipliers)
        pmf = {}
        for x in walk(f["body"]):
            for ch in children(x):
                pmf[id(ch)] = x
        for n in walk(f["body"]):
            if n["k"] != "MCall" or n.get("m") != "get" or (n.get("targs") or [None])[0] != "double":
                continue
            o_ = strip(n.get("obj") or {})
            if not (o_.get("k") == "MCall" and o_.get("m") == "getItem"):
                continue
            n_sc += 1
            how = None
            p_ = pmf.get(id(n))
            child = n
            while p_ is not None:
                nm_ = p_.get("m") or (p_.get("fn") or "").split("::")[-1] if p_.get("k") in ("MCall", "Call") else None
                if nm_ in SI_FN and any(x is child or any(y is child for y in walk(x)) for x in (p_.get("a") or [])):
                    how = nm_
                    break
                if p_.get("k") == "Cast" and (p_.get("t") or "") in ("int", "const int"):
                    how = "int"
                    break
                child, p_ = p_, pmf.get(id(p_))
            key = "%s@%d" % (f["n"], n["l"] - f["l"])
            chk.instance(r_si, key, sample=dict(function=f["q"], value=show(n)[:70], converted_by=how))
            if how is None:
                chk.violation(r_si, key, "%s applies `%s` as it stands in the record: the number is in deck units while the array is kept in SI (ADDREG PERMX 50 would add 50 m2 instead of 50 mD), and the box variant of the same keyword converts it" % (f["q"], show(n)[:70]), f["file"], n["l"])
    if n_sc < 4:
        raise core.AnalysisBroken("FieldProps: fewer than 4 record scalars found (%d)" % n_sc)
    gs = [f for f in fns if f["n"] == "getSIValue" and len(f.get("params") or []) == 3 and f.get("body")]
    okg = False
    if len(gs) == 1:
        rets = [r_ for r_ in walk(gs[0]["body"]) if r_["k"] == "Return" and r_.get("e") is not None]
        if len(rets) == 1 and strip(rets[0]["e"]).get("k") == "Cond":
            c_, a_, b_ = [strip(x) for x in strip(rets[0]["e"])["c"]]
            pn_ = gs[0]["params"][2]["n"]
            okg = re.sub(r"\b\w+::", "", show(c_)).replace(" ", "") in ("(%s==MUL)" % gs[0]["params"][0]["n"], "(MUL==%s)" % gs[0]["params"][0]["n"]) and show(a_) == pn_ and "getSIValue" in show(b_)
    chk.instance(r_si, "getSIValue", sample=dict(multiplier_unconverted_everything_else_converted=okg))
    if not okg:
        chk.violation(r_si, "getSIValue", "getSIValue(op, keyword, value) must return the value unchanged exactly for MUL (a multiplier has no unit) and the converted value for every other operation", gs[0]["file"] if gs else None, gs[0]["l"] if gs else None)

    # ---- C12.dispatch: which handler a keyword of the property sections reaches
    r_dp = chk.rule("C12.dispatch", "FieldProps::handle_keyword sends each class of operation keyword to its own handler: ADD/EQUALS/MAXVALUE/MINVALUE/MULTIPLY (oper_keywords) -> handle_operation, OPERATE -> handle_OPERATE, the region variants (region_oper_keywords) -> handle_region_operation, BOX/ENDBOX -> handle_box_keyword, COPY/COPYREG -> handle_COPY (region flag set exactly for COPYREG); membership is tested with count(name) == 1 / name == keywordName", floor=5)
    hk = [f for f in fns if f["n"] == "handle_keyword" and (f.get("cls") or "").endswith("FieldProps")]
    if len(hk) != 1:
        raise core.AnalysisBroken("FieldProps::handle_keyword: %d definitions" % len(hk))
    hk = hk[0]
    WANT_D = {"oper_keywords": "handle_operation", "OPERATE": "handle_OPERATE", "region_oper_keywords": "handle_region_operation", "box_keywords": "handle_box_keyword", "COPY+COPYREG": "handle_COPY"}
    chain = []
    node = [n for n in stmt_list(hk["body"]) if n["k"] == "If"]
    cur = node[0] if node else None
    while cur is not None and cur.get("k") == "If":
        chain.append(cur)
        cur = cur.get("else")
    got_d = {}
    for iff in chain:
        c = strip(iff["cond"])
        txt = show(c).replace(" ", "")
        sets = [x["n"] for x in walk(c) if x["k"] in ("Ref", "Mem") and x.get("n", "").endswith("_keywords")]
        kws = sorted({(x.get("q") or "").split("::")[-2] for x in walk(c) if x["k"] == "Ref" and (x.get("q") or "").endswith("::keywordName")})
        pos = all(y.get("op") == "==" for y in walk(c) if y.get("k") in ("Bin", "OpCall") and y.get("op") in ("==", "!=")) and not any(y.get("k") == "Un" and y.get("op") == "!" for y in walk(c))
        one = all(strip((y.get("c") or y.get("a"))[1]).get("v") == 1 for y in walk(c) if y.get("k") in ("Bin",) and y.get("op") == "==" and any(meth(z)[0] == "count" for z in walk(y)))
        cls_ = sets[0] if len(sets) == 1 and not kws else "+".join(kws) if kws and not sets else "?"
        calls_ = [x.get("m") or (x.get("fn") or "").split("::")[-1] for x in walk(iff["then"]) if x["k"] in ("MCall", "Call") and ((x.get("m") or "").startswith("handle_") or (x.get("fn") or "").split("::")[-1].startswith("handle_"))]
        got_d[cls_] = (calls_, pos and one, iff)
    for cls_, want in WANT_D.items():
        g = got_d.get(cls_)
        chk.instance(r_dp, cls_, sample=dict(keyword_class=cls_, handler=g[0] if g else None, positive_test=g[1] if g else None))
        if not g or g[0] != [want] or not g[1]:
            chk.violation(r_dp, cls_, "handle_keyword: keywords of class %s must reach %s through a positive membership test; found %s%s: the operation is applied by another handler or not at all" % (cls_, want, g[0] if g else "no such branch", "" if not g or g[1] else " under a negated / altered test"), hk["file"], g[2]["l"] if g else hk["l"])
    cp = got_d.get("COPY+COPYREG")
    if cp:
        calls3 = [x for x in walk(cp[2]["then"]) if (x.get("m") or (x.get("fn") or "").split("::")[-1]) == "handle_COPY"]
        flag = show(strip(calls3[0]["a"][-1])).replace(" ", "") if calls3 and calls3[0].get("a") else ""
        if "COPYREG::keywordName" not in flag or "==" not in flag:
            chk.violation(r_dp, "COPY:flag", "handle_COPY's region flag must be `name == COPYREG`: found %s" % flag, hk["file"], cp[2]["l"])

    # ---- C12.region: which cells a region operation touches
    r_rg = chk.rule("C12.region", "FieldProps::region_index lists exactly the ACTIVE cells whose region array holds the requested value: it walks all cells, advances the active index once per active cell only, tests the region array at the active index with ==, and records (global, active, global); the walk starts at cell 0 / active index 0 with step 1; the all-active flag starts true, is cleared exactly where an inactive cell is met and is returned with the list", floor=1)
    ri = [f for f in fns if f["n"] == "region_index" and (f.get("cls") or "").endswith("FieldProps")]
    if len(ri) != 1:
        raise core.AnalysisBroken("FieldProps::region_index: %d definitions" % len(ri))
    ri = ri[0]
    lps = [n for n in stmt_list(ri["body"]) if n["k"] == "For"]
    okr = False
    det = {}
    if len(lps) == 1:
        lp = lps[0]
        g_ = [v["n"] for d in walk(lp.get("init") or {}) if d["k"] == "Decl" for v in d["vars"]][0]
        outer = [n for n in stmt_list(lp["body"]) if n["k"] == "If"]
        if len(outer) == 1:
            oc = show(strip(outer[0]["cond"])).replace(" ", "")
            th = stmt_list(outer[0]["then"])
            inner = [n for n in th if n["k"] == "If"]
            incs = [n for n in th if (n["k"] == "Bin" and n.get("op") == "+=" and strip(n["c"][1]).get("v") == 1) or (n["k"] == "Un" and "++" in (n.get("op") or ""))]
            a_ = strip(incs[0]["c"][0]).get("n") if incs else None
            ic = show(strip(inner[0]["cond"])).replace(" ", "") if inner else ""
            rv = ri["params"][1]["n"]
            emp = [show(x).replace(" ", "") for x in walk(inner[0]["then"]) if meth(x)[0] in ("emplace_back", "push_back")] if inner else []
            det = dict(active_test=oc, region_test=ic, record=emp, counter=a_)
            okr = oc in ("(this.m_actnum[%s]!=0)" % g_, "(this.m_actnum[%s]>0)" % g_) and len(inner) == 1 and len(incs) == 1 and a_ is not None \
                and ic == "(region.data[%s]==%s)" % (a_, rv) and len(emp) == 1 and emp[0].endswith("emplace_back(%s,%s,%s)" % (g_, a_, g_)) \
                and th.index(inner[0]) < th.index(incs[0]) and show(strip(lp["cond"])).replace(" ", "") == "(%s<this.m_actnum.size())" % g_
            # the walk starts at cell 0 with active index 0 and advances one cell at a time
            g_init = [show(v.get("init")) for d in walk(lp.get("init") or {}) if d["k"] == "Decl" for v in d["vars"]]
            a_init = [show(v.get("init")) for n in stmt_list(ri["body"]) if n["k"] == "Decl" for v in n["vars"] if v["n"] == a_]
            det.update(start=g_init, counter_start=a_init, step=show(lp.get("inc")))
            okr = okr and g_init == ["0"] and a_init == ["0"] and show(lp.get("inc")) in ("(++%s)" % g_, "(%s++)" % g_)
            # all_active: true initially, cleared exactly in the branch of an inactive cell, returned with the list
            flags = [v["n"] for n in stmt_list(ri["body"]) if n["k"] == "Decl" for v in n["vars"] if (v.get("t") or "") == "bool"]
            if len(flags) == 1:
                fl = flags[0]
                f_init = [show(v.get("init")) for n in stmt_list(ri["body"]) if n["k"] == "Decl" for v in n["vars"] if v["n"] == fl]
                sets = [(show(x), any(x is y for y in walk(outer[0]["else"])) if outer[0].get("else") is not None else False) for x in walk(ri["body"]) if x["k"] == "Bin" and x.get("asg") and strip(x["c"][0]).get("n") == fl]
                rets = [show(r_["e"]) for r_ in walk(ri["body"]) if r_["k"] == "Return" and isinstance(r_.get("e"), dict)]
                lst = [v["n"] for n in stmt_list(ri["body"]) if n["k"] == "Decl" for v in n["vars"] if "vector" in (v.get("t") or "") and "cell_index" in (v.get("t") or "")]
                det.update(all_active=dict(init=f_init, cleared=sets, returns=rets))
                okr = okr and f_init == ["true"] and sets == [("(%s = false)" % fl, True)] and len(rets) == 1 and len(lst) == 1 and re.sub(r"^[\w:<>, ]*\{|\}$", "", rets[0]).replace(" ", "") == "%s,%s" % (lst[0], fl)
            else:
                okr = False
    chk.instance(r_rg, "region_index", sample=det)
    if not okr:
        chk.violation(r_rg, "region_index", "FieldProps::region_index no longer selects exactly the active cells whose region value equals the requested one with a correctly advancing active index (%s): a region operation touches other cells, or values of other cells" % det, ri["file"], ri["l"])

    # ---- C12.bounds: the box's inclusive bounds per axis
    r_bd = chk.rule("C12.bounds", "Box: lower(d) = offset[d], upper(d) = offset[d] + dims[d] - 1 (inclusive), and I1/I2, J1/J2, K1/K2 are lower/upper of axis 0, 1, 2", floor=8)
    bx = chk.facts(["opm/input/eclipse/EclipseState/Grid/Box.cpp"])
    want_b = {"lower": "this.m_offset[%s]", "upper": "((this.m_offset[%s] + this.m_dims[%s]) - 1)"}
    for nm_, form in want_b.items():
        f = [g for g in bx.fns if g["q"] == "Opm::Box::" + nm_ and g.get("body")]
        if len(f) != 1:
            raise core.AnalysisBroken("Box::%s not found" % nm_)
        f = f[0]
        pn_ = f["params"][0]["n"]
        rets = [show(strip(r_["e"])) for r_ in walk(f["body"]) if r_["k"] == "Return" and r_.get("e") is not None]
        want = form % ((pn_,) * form.count("%s"))
        alt = "((this.m_dims[%s] + this.m_offset[%s]) - 1)" % (pn_, pn_)
        chk.instance(r_bd, nm_, sample=dict(returns=rets))
        if rets not in ([want], [alt]):
            chk.violation(r_bd, nm_, "Box::%s(d) returns %s; it must be %s" % (nm_, rets, want), f["file"], f["l"])
    for nm_, (fn_, ax) in {"I1": ("lower", 0), "I2": ("upper", 0), "J1": ("lower", 1), "J2": ("upper", 1), "K1": ("lower", 2), "K2": ("upper", 2)}.items():
        f = [g for g in bx.fns if g["q"] == "Opm::Box::" + nm_ and g.get("body")]
        if len(f) != 1:
            raise core.AnalysisBroken("Box::%s not found" % nm_)
        rets = [show(strip(r_["e"])) for r_ in walk(f[0]["body"]) if r_["k"] == "Return" and r_.get("e") is not None]
        chk.instance(r_bd, nm_, sample=dict(returns=rets))
        if rets != ["this.%s(%d)" % (fn_, ax)]:
            chk.violation(r_bd, nm_, "Box::%s() returns %s; it is %s(%d)" % (nm_, rets, fn_, ax), f[0]["file"], f[0]["l"])

    # ---- C12.assign: which deck entries overwrite which cells in a direct assignment
    r_as = chk.rule("C12.assign", "assign_deck (direct assignment of an array keyword): evaluated over all (status of the deck entry, status of the cell) pairs, the condition that guards the write holds for every explicit deck value and, for a defaulted entry (n*), never for a cell that already has a value - in the per-active-cell loop and in the global-storage loop alike (earlier ADD/MULTIPLY/OPERATE results and distributed top-layer values survive a later assignment that defaults those cells)", floor=2)
    vs = chk.facts([FP], files_re=r"^/repo/opm/input/eclipse/Deck/value_status\.hpp$")
    st_enum = vs.enums.get("Opm::value::status")
    if st_enum is None:
        raise core.AnalysisBroken("enum Opm::value::status not found")
    ST = [i_["n"] for i_ in st_enum["items"]]
    st_fns = {f["n"]: f for f in vs.fns if f.get("body") and f["q"].startswith("Opm::value::")}
    ad = [f for f in fns if f["n"] == "assign_deck"]
    if len(ad) != 1:
        raise core.AnalysisBroken("assign_deck: %d definitions" % len(ad))
    ad = ad[0]
    glob_locals = {v["n"] for n in walk(ad["body"]) if n["k"] == "Decl" for v in n["vars"] if isinstance(v.get("init"), dict) and "global_value_status" in show(v["init"])}

    def subject(e):
        e = strip(e)
        base = None
        if e.get("k") == "Idx":
            base = strip(e["c"][0])
        elif e.get("k") == "OpCall" and e.get("op") == "[]" and len(e.get("a") or []) == 2:
            base = strip(e["a"][0])
        if base is None:
            return None
        if base.get("k") == "Ref" and base.get("d") == "Parm" and "value::status" in (base.get("t") or "") and (base.get("t") or "").startswith("const"):
            return "deck"
        if base.get("k") in ("Mem", "DMem") and base.get("n") == "value_status":
            return "cell"
        if base.get("k") == "Ref" and base.get("n") in glob_locals:
            return "cell"
        return None

    def truth(e, d, c, depth=0):
        """value of the guard for deck-entry status d and cell status c; None if not decidable"""
        e = strip(e)
        k = e.get("k")
        if (k == "Bin" and e.get("op") in ("||", "&&")) or (k == "OpCall" and e.get("op") in ("||", "&&")):
            xs = e.get("c") or e.get("a")
            a, b = truth(xs[0], d, c, depth), truth(xs[1], d, c, depth)
            if a is None or b is None:
                return None
            return (a or b) if e["op"] == "||" else (a and b)
        if k == "Un" and e.get("op") == "!":
            a = truth(e["c"][0], d, c, depth)
            return None if a is None else (not a)
        if (k in ("Bin", "OpCall")) and e.get("op") in ("==", "!="):
            xs = [strip(x) for x in (e.get("c") or e.get("a"))]
            for x, y in ((xs[0], xs[1]), (xs[1], xs[0])):
                if y.get("k") == "Ref" and y.get("d") == "Enum" and (y.get("q") or "").startswith("Opm::value::status") and subject(x):
                    v = d if subject(x) == "deck" else c
                    return (v == y["n"]) == (e["op"] == "==")
            return None
        if k == "Call" and len(e.get("a") or []) == 1 and depth < 2:
            nm = ((e.get("fn") or "") or (e.get("callee") or {}).get("n") or "").split("::")[-1]
            fn_ = st_fns.get(nm)
            sj = subject(e["a"][0])
            if fn_ is not None and sj:
                rets = [x for x in walk(fn_["body"]) if x["k"] == "Return" and x.get("e") is not None]
                if len(rets) == 1:
                    pn = fn_["params"][0]["n"]
                    v = d if sj == "deck" else c

                    def ev(x):
                        x = strip(x)
                        if x.get("k") == "Bin" and x.get("op") in ("||", "&&"):
                            a, b = ev(x["c"][0]), ev(x["c"][1])
                            return None if a is None or b is None else ((a or b) if x["op"] == "||" else (a and b))
                        if x.get("k") == "Bin" and x.get("op") in ("==", "!="):
                            p_, q_ = strip(x["c"][0]), strip(x["c"][1])
                            for u, w in ((p_, q_), (q_, p_)):
                                if u.get("k") == "Ref" and u.get("n") == pn and w.get("d") == "Enum":
                                    return (v == w["n"]) == (x["op"] == "==")
                        return None
                    return ev(rets[0]["e"])
        return None
    has_val = {s_ for s_ in ST if s_ in ("deck_value", "valid_default")}
    hv = st_fns.get("has_value")
    if hv is None:
        raise core.AnalysisBroken("value::has_value not found")
    writes = []
    pm = {}
    for n in walk(ad["body"]):
        for ch in children(n):
            pm[id(ch)] = n
    for n in walk(ad["body"]):
        lhs = None
        if n["k"] == "Bin" and n.get("asg") and n.get("op") == "=":
            lhs = n["c"][0]
        elif n["k"] == "OpCall" and n.get("op") == "=" and len(n.get("a") or []) == 2:
            lhs = n["a"][0]
        if lhs is not None and subject(lhs) == "cell":
            conds = []
            p_ = pm.get(id(n))
            child = n
            while p_ is not None and p_["k"] not in ("For", "ForRange", "While"):
                if p_["k"] == "If" and any(x is child for x in walk(p_["then"])):
                    conds.append(p_["cond"])
                child, p_ = p_, pm.get(id(p_))
            writes.append((n, conds))
    if len(writes) < 2:
        raise core.AnalysisBroken("assign_deck: expected a status write in the active loop and one in the global loop, found %d" % len(writes))
    for n, conds in writes:
        where = "global storage" if any(x.get("k") == "Ref" and x.get("n") in glob_locals for x in walk((n.get("c") or n.get("a"))[0])) else "active storage"
        key = "assign_deck:%s" % where.replace(" ", "_")
        table = {}
        undec = False
        for d in ST:
            for c in ST:
                vals = [truth(cnd, d, c) for cnd in conds]
                if any(v is None for v in vals):
                    undec = True
                table[(d, c)] = all(vals) if not undec else None
        if undec:
            raise core.AnalysisBroken("assign_deck (%s): the guard `%s` is not a Boolean combination of status comparisons" % (where, " && ".join(show(c_)[:80] for c_ in conds)))
        chk.instance(r_as, key, sample=dict(storage=where, guard=[show(c_)[:120] for c_ in conds], writes_when=sorted("%s<-%s" % (c, d) for (d, c), v in table.items() if v)))
        miss = [c for c in ST if not table[("deck_value", c)]]
        over = [c for c in ST if c in has_val and table[("valid_default", c)]]
        if miss:
            chk.violation(r_as, key + ":explicit", "assign_deck (%s): an explicit deck value is not written to a cell whose status is %s" % (where, miss), ad["file"], n["l"])
        if over:
            chk.violation(r_as, key + ":default", "assign_deck (%s): a defaulted deck entry (n*) overwrites a cell whose status is %s, i.e. a cell that already has a value: what an earlier ADD / MULTIPLY / MINVALUE / OPERATE or the top-layer distribution left there is reset to the keyword default by a later assignment that merely defaults the cell" % (where, over), ad["file"], n["l"])

    # ---- C12.toplayer: values given for the top layer fill only cells that have no value yet
    r_tl = chk.rule("C12.toplayer", "FieldProps::distribute_toplayer copies a top-layer value down into a cell only when that cell is still `uninitialized` (status test with ==) and the top-layer entry was given in the deck (`deck_value`), and marks the cell `valid_default`; the running active index advances once per active cell, outside the status tests.  With a weaker test (`!= deck_value`) a later top-layer keyword overwrites cells that an earlier one had already filled, so the array no longer equals the keywords applied one after the other", floor=3)
    dtl = [f for f in fx.fns if f["n"] == "distribute_toplayer" and f.get("body") and f["file"].endswith("FieldProps.cpp")]
    if len(dtl) != 1:
        raise core.AnalysisBroken("FieldProps::distribute_toplayer: %d definitions" % len(dtl))
    dtl = dtl[0]
    fdn = dtl["params"][0]["n"]
    ifs_ = [n for n in walk(dtl["body"]) if n["k"] == "If"]
    st_if = [n for n in ifs_ if re.search(r"%s\.value_status\[\w+\]" % fdn, show(n["cond"]))]
    tp_if = [n for n in ifs_ if re.search(r"toplayer\.value_status\[\w+\]", show(n["cond"]))]
    c_st = [show(strip(n["cond"])).replace("Opm::", "") for n in st_if]
    c_tp = [show(strip(n["cond"])).replace("Opm::", "") for n in tp_if if n not in st_if]
    chk.instance(r_tl, "cell-test", sample=dict(conditions=c_st))
    if len(c_st) != 1 or not re.fullmatch(r"\(%s\.value_status\[(\w+)\] == value::status::uninitialized\)" % fdn, c_st[0]):
        chk.violation(r_tl, "cell-test", "distribute_toplayer fills a cell under %s; it must fill it exactly when the cell's status == uninitialized" % c_st, dtl["file"], st_if[0]["l"] if st_if else dtl["l"])
    chk.instance(r_tl, "layer-test", sample=dict(conditions=c_tp))
    if len(c_tp) != 1 or not re.fullmatch(r"\(toplayer\.value_status\[(\w+)\] == value::status::deck_value\)", c_tp[0]):
        chk.violation(r_tl, "layer-test", "distribute_toplayer takes the top-layer entry under %s; only entries given in the deck (status == deck_value) are copied down" % c_tp, dtl["file"], tp_if[0]["l"] if tp_if else dtl["l"])
    inner_ = [show(x).replace("Opm::", "") for n in tp_if for x in stmt_list(n["then"])]
    ok_in = len(inner_) == 2 and re.fullmatch(r"\(%s\.data\[(\w+)\] = toplayer\.data\[(\w+)\]\)" % fdn, inner_[0]) is not None and re.fullmatch(r"\(%s\.value_status\[(\w+)\] = value::status::valid_default\)" % fdn, inner_[1]) is not None
    chk.instance(r_tl, "copy", sample=dict(statements=inner_))
    if not ok_in:
        chk.violation(r_tl, "copy", "distribute_toplayer, copy step: %s; required data[cell] = toplayer.data[column] and status[cell] = valid_default" % inner_, dtl["file"], tp_if[0]["l"] if tp_if else dtl["l"])

    # ---- C12.defregion: which region set a defaulted region-set item means
    r_dr = chk.rule("C12.defregion", "default_region_keyword(deck) - the region set ADDREG / EQUALREG / MULTIREG / COPYREG use when their region-set item is defaulted - is MULTNUM exactly when GRIDOPTS is present AND its NRMULT item is positive, and FLUXNUM otherwise (decision table; the documented rule, stated above the function)", floor=1)
    from verif import dtable as _dt
    drf = [f for f in fx.fns if f["n"] == "default_region_keyword" and f.get("body")]
    if len(drf) != 1:
        raise core.AnalysisBroken("default_region_keyword: %d definitions" % len(drf))
    drf = drf[0]
    dk = drf["params"][0]["n"]
    try:
        got_dr = _dt.table(drf)
    except _dt.NotATable as e_:
        got_dr = None
        chk.violation(r_dr, "table", "default_region_keyword is no longer a dispatch over its conditions (%s)" % e_, drf["file"], drf["l"])
    if got_dr is not None:
        cl_ = lambda t_: re.sub(r"const std::string\{(\"[^\"]*\"), <default>\}|std::string\{(\"[^\"]*\"), <default>\}", lambda m_: m_.group(1) or m_.group(2), t_).replace(dk, "DECK") if isinstance(t_, str) else t_
        atoms_ = [cl_(a_) for a_ in got_dr[0]]
        order_ = sorted(range(len(atoms_)), key=lambda i_: atoms_[i_])
        got2 = ([atoms_[i_] for i_ in order_], {tuple(k_[i_] for i_ in order_): cl_(v_) for k_, v_ in got_dr[1].items()})
        A_G = 'DECK.hasKeyword("GRIDOPTS")'
        A_N = 'DECK["GRIDOPTS"].back().getRecord(0).getItem("NRMULT").get(0) > 0'
        diffs_ = _dt.same_table(got2, [A_G, A_N], lambda v: '"MULTNUM"' if (v[A_G] and v[A_N]) else '"FLUXNUM"')
        chk.instance(r_dr, "table", sample=dict(atoms=got2[0], outcomes=sorted(set(got2[1].values()))))
        if diffs_:
            chk.violation(r_dr, "table", "default_region_keyword: %s - region operations with a defaulted region set then select their cells from the wrong region array" % "; ".join(diffs_[:3]), drf["file"], drf["l"])

    # ---- C12.typed: the integer branch of a handler is the floating-point branch for another element type
    r_ty = chk.rule("C12.typed", "keyword handlers of FieldProps.cpp that dispatch on the element type of the array (`if (supported<double>(kw)) {..} if (supported<int>(kw)) {..}` on the same name): (a) the integer branch is not empty - a record naming an integer array is applied or rejected, never dropped; (b) a function that both branches call with a cell list (an argument of the Box::cell_index list type) gets the same list expression in both - the same keyword never touches different cells depending on the element type of the array", floor=2)
    tfx = chk.facts([FP])
    tnorm = lambda t_: re.sub(r"\b(int|double)\b", "T", t_)
    for f in tfx.fns:
        if not f.get("body") or not f["file"].endswith("FieldProps.cpp"):
            continue
        br = {}
        for n in walk(f["body"]):
            if n["k"] == "If" and isinstance(n.get("cond"), dict):
                for c in walk(n["cond"]):
                    if c.get("k") == "Call" and (c.get("fn") or "").endswith("::supported") and c.get("targs") and c.get("a"):
                        br.setdefault(show(c["a"][0]), {}).setdefault(c["targs"][0], []).append(n)
        for kwv, d in sorted(br.items()):
            if "int" not in d or "double" not in d:
                continue
            for ni in d["int"]:
                key = "%s:%s@%d" % (f["n"], kwv, ni["l"])
                si = [s_ for s_ in stmt_list(ni["then"]) if s_["k"] != "Continue"]
                ti = [tnorm(show(s_)) for s_ in si]
                sd = [s_ for nd in d["double"] for s_ in stmt_list(nd["then"])]
                td = [tnorm(show(s_)) for s_ in sd]
                chk.instance(r_ty, key, sample=dict(function=f["q"], array=kwv, int_branch=len(ti), double_branch=len(td)))
                if not ti:
                    chk.violation(r_ty, key, "%s: the branch for integer arrays (`supported<int>(%s)`) does nothing: the record is dropped without a message, while the floating-point branch applies it" % (f["q"], kwv), f["file"], ni["l"])
                    continue
                # (c) same callee -> same list argument
                def calls_(sts):
                    out = {}
                    for s_ in sts:
                        for x in walk(s_):
                            nm = (x.get("m") if x.get("k") == "MCall" else (x.get("fn") or "").split("::")[-1] if x.get("k") == "Call" else None)
                            if nm and x.get("a"):
                                for a_ in x["a"]:
                                    ta = a_.get("t") or strip(a_).get("t") or ""
                                    sa = show(strip(a_))
                                    if "index_list" in sa or "cell_index" in ta:
                                        out.setdefault(nm, []).append(sa)
                    return out
                ci, cd = calls_(si), calls_(sd)
                for nm, lists in sorted(ci.items()):
                    if nm in cd and not set(lists) <= set(cd[nm]):
                        chk.violation(r_ty, key, "%s: the integer branch calls %s over the cells `%s`, the floating-point branch over `%s`: the same keyword touches different cells depending on the element type of the array" % (f["q"], nm, ", ".join(lists), ", ".join(sorted(set(cd[nm])))), f["file"], ni["l"])

    from verif import fallthrough
    fallthrough.run(chk, "C12", floor=2)
    from verif import argorder
    argorder.run(chk, "C12", floor=38)

    chk.assumptions += ["role table in rules/C12.py: FieldData::data/value_status are per active cell, global_* per grid cell, deck_* per input-box cell; Box::global_index_list() stores the global index in .active_index (documented)"]
