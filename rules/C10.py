"""C10  Summary files can be read back — writer/reader agreement on array names, element types and record sequence.

Decides (narrowly): every SMSPEC array the legacy reader requires is written with a compatible element type
(C10.smspec); the UNSMRY record sequence SEQHDR, (MINISTEP, PARAMS)+ is what the scanner accepts and PARAMS
is single precision on both sides (C10.unsmry); the two ESMRY writers are siblings and emit exactly the ordered
sequence of (name, type) the ESMRY reader expects (C10.esmry); combine/splitSummaryNumber are inverse
(C10.nums).  Not decided: the positional seek arithmetic (offsets as a function of vector count), time axis,
restart chaining - an off-by-one in an offset formula is NOT caught by this check.
"""
import re

from verif import core
from verif.tree import walk, walk_fn, show, stmt_list, meth, strip, simp, children

LEVEL = "other"
UNITS = ["opm/io/eclipse/OutputStream.cpp", "opm/output/eclipse/Summary.cpp", "opm/io/eclipse/ExtSmryOutput.cpp",
         "opm/io/eclipse/ESmry.cpp", "opm/io/eclipse/ExtESmry.cpp", "opm/io/eclipse/EclUtil.cpp"]
OPTIONAL_SMSPEC = {
    "NAMES": "alternative to WGNAMES in files written by other simulators",
    "LGRS": "LGR summary arrays, only in third-party files", "NUMLX": "as LGRS", "NUMLY": "as LGRS", "NUMLZ": "as LGRS",
}
NAME = re.compile(r"^[A-Z0-9_]{3,8}$")


def elem_type(c):
    ta = c.get("targs")
    t = None
    if ta:
        t = ta[0]
    else:
        for p in (c.get("pt") or [])[1:2]:
            m = re.search(r"vector<(.*)>", p)
            if m:
                t = m.group(1)
    if t is None:
        return "?"
    if "string" in t or "PaddedOutputString" in t:
        return "string"
    return t.replace("std::", "")


def io_calls(f, methods):
    out = []
    for c in walk_fn(f):
        if c["k"] == "MCall" and c.get("m") in methods and c.get("a"):
            s = [x["v"] for x in walk(c["a"][0]) if x["k"] == "Str"]
            if len(s) == 1 and NAME.match(s[0].strip()):
                out.append((s[0].strip(), c["m"], elem_type(c), c["l"]))
    return out


def run(chk):
    fx = chk.facts(UNITS)

    # ---- C10.smspec
    r_sm = chk.rule("C10.smspec", "every SMSPEC array the legacy reader fetches is written by SummarySpecification::write with a compatible element type (optional third-party arrays excepted)", floor=6)
    ws = fx.fn1("Opm::EclIO::OutputStream::SummarySpecification::write")
    written = {n: t for n, m, t, l in io_calls(ws, {"write"})}
    ctors = [f for f in fx.fns if f["q"] == "Opm::EclIO::ESmry::ESmry"]
    if not ctors:
        raise core.AnalysisBroken("ESmry constructor not found")
    need = {}
    for f in ctors:
        for n, m, t, l in io_calls(f, {"get"}):
            need.setdefault(n, set()).add(t)
    for n, ts in sorted(need.items()):
        chk.instance(r_sm, n, sample=dict(array=n, reader_type=sorted(ts), writer_type=written.get(n)))
        if n in OPTIONAL_SMSPEC:
            continue
        if n not in written:
            chk.violation(r_sm, n, "ESmry requires SMSPEC array %s but SummarySpecification::write does not emit it" % n, ws["file"], ws["l"])
        elif written[n] not in ts:
            chk.violation(r_sm, n + ":type", "SMSPEC array %s is written as %s but read as %s" % (n, written[n], sorted(ts)), ws["file"], ws["l"])
    chk.extra["smspec_written"] = written

    # ---- C10.unsmry
    r_un = chk.rule("C10.unsmry", "UNSMRY: the writer emits SEQHDR, then MINISTEP and PARAMS (float) per step; the scanner accepts exactly that alternation; SEQHDR is written once per report step (strictly later than the last header), after the stream has been prepared for that step", floor=5)
    wus = [f for f in fx.fn("Opm::out::Summary::SummaryImplementation::write") if any(n == "PARAMS" for n, m, t, l in io_calls(f, {"write"}))]
    if len(wus) != 1:
        raise core.AnalysisBroken("SummaryImplementation::write(MiniStep) not found")
    wu = wus[0]
    seq = [(n, t) for n, m, t, l in io_calls(wu, {"write"})]
    chk.instance(r_un, "writer", sample=seq)
    if seq != [("SEQHDR", "int"), ("MINISTEP", "int"), ("PARAMS", "float")]:
        chk.violation(r_un, "writer", "SummaryImplementation::write emits %s; the UNSMRY layout is SEQHDR(int), MINISTEP(int), PARAMS(float)" % seq, wu["file"], wu["l"])
    # SEQHDR only at the start of a report step: guarded by an if; MINISTEP/PARAMS unconditional and adjacent
    body = stmt_list(wu["body"])
    tops = [show(s) for s in body if s["k"] == "MCall" and s.get("m") == "write"]
    chk.instance(r_un, "writer:uncond", sample=[t[:60] for t in tops])
    if len(tops) != 2 or '"MINISTEP"' not in tops[0] or '"PARAMS"' not in tops[1]:
        chk.violation(r_un, "writer:uncond", "MINISTEP and PARAMS must be written unconditionally and in this order for every ministep", wu["file"], wu["l"])
    # SEQHDR exactly once per report step: written when the ministep's report step is LATER than the last one that got a
    # header, which is then remembered; the output stream is prepared for that report step first
    gifs = [s_ for s_ in body if s_["k"] == "If" and '"SEQHDR"' in show(s_["then"])]
    msp = wu["params"][0]["n"]
    okh = False
    det_h = {}
    if len(gifs) == 1:
        c_ = strip(gifs[0]["cond"])
        ctext = show(c_)
        mem = [x["n"] for x in walk(c_) if x["k"] == "Mem" and strip(x.get("b") or {"k": "This"}).get("k") == "This"]
        upd = [show(x) for x in stmt_list(gifs[0]["then"]) if x["k"] == "Bin" and x.get("asg")]
        det_h = dict(cond=ctext, remembered=upd)
        okh = len(mem) == 1 and ctext in ("(this.%s < %s.seq)" % (mem[0], msp), "(%s.seq > this.%s)" % (msp, mem[0])) and upd == ["(this.%s = %s.seq)" % (mem[0], msp)] and gifs[0].get("else") is None
    first = show(body[0]) if body else ""
    det_h["first_statement"] = first[:80]
    okh = okh and first == "this.createSmryStreamIfNecessary(%s.seq)" % msp
    chk.instance(r_un, "writer:seqhdr", sample=det_h)
    if not okh:
        chk.violation(r_un, "writer:seqhdr", "SummaryImplementation::write(ministep): the stream must be prepared for the ministep's report step first, and SEQHDR written exactly when that report step is later than the last one that got a header (if (prev < ms.seq) { write SEQHDR; prev = ms.seq; }) - found %s: the reader starts a new report step at every SEQHDR" % det_h, wu["file"], wu["l"])
    scan = [f for f in fx.fns if f["file"].endswith("ESmry.cpp") and f.get("body") and '"MINISTEP"' in show(f["body"]) and '"PARAMS"' in show(f["body"]) and '"SEQHDR"' in show(f["body"])]
    chk.instance(r_un, "scanner", sample=[f["q"] for f in scan])
    if not scan:
        raise core.AnalysisBroken("ESmry scanner for SEQHDR/MINISTEP/PARAMS not found")
    for f in scan:
        conds = [simp(show(n["cond"])) for n in walk(f["body"]) if n["k"] == "If" and any(x["k"] == "Throw" for x in walk(n["then"]))]
        okm = any('!= "MINISTEP"' in c for c in conds)
        okp = any('!= "PARAMS"' in c for c in conds)
        chk.instance(r_un, "scanner:" + f["q"], sample=dict(rejects_non_ministep=okm, rejects_non_params=okp))
        if not (okm and okp):
            chk.violation(r_un, "scanner:" + f["q"], "%s no longer rejects a record sequence other than MINISTEP followed by PARAMS" % f["q"], f["file"], f["l"])
    # the readers take PARAMS as single precision
    ld = [f for f in fx.fn("Opm::EclIO::ESmry::loadData") if f.get("body")]
    real = any("sizeOfReal" in show(f["body"]) or "readBinaryRealArray" in show(f["body"]) or "flipEndianFloat" in show(f["body"]) for f in ld)
    chk.instance(r_un, "reader:real", sample=real)
    if not real:
        chk.violation(r_un, "reader:real", "ESmry::loadData no longer reads PARAMS as 4-byte reals", ld[0]["file"] if ld else None, None)

    # ---- C10.esmry
    r_es = chk.rule("C10.esmry", "ESMRY: both writers emit START, [RESTART, RSTNUM], KEYCHECK, UNITS, RSTEP, TSTEP, V<n>... with the element types the ESMRY reader checks, in the order it reads them", floor=6)
    w1 = fx.fn1("Opm::EclIO::ExtSmryOutput::write")
    w2 = fx.fn1("Opm::EclIO::ESmry::make_esmry_file")
    s1 = [(n, t) for n, m, t, l in io_calls(w1, {"write"})]
    s2 = [(n, t) for n, m, t, l in io_calls(w2, {"write"})]
    chk.instance(r_es, "writers", sample=dict(ExtSmryOutput=s1, make_esmry_file=s2))
    if s1 != s2:
        chk.violation(r_es, "writers:sib", "the two ESMRY writers disagree: ExtSmryOutput::write emits %s, ESmry::make_esmry_file %s" % (s1, s2), w1["file"], w1["l"])
    want = [("START", "int"), ("RESTART", "string"), ("RSTNUM", "int"), ("KEYCHECK", "string"), ("UNITS", "string"), ("RSTEP", "int"), ("TSTEP", "int")]
    if s1 != want:
        chk.violation(r_es, "writers:seq", "ESMRY header arrays are written as %s; the format is %s" % (s1, want), w1["file"], w1["l"])
    for w in (w1, w2):
        vd = [v_ for x in walk(w["body"]) if x["k"] == "Decl" for v_ in x["vars"] if isinstance(v_.get("init"), dict) and '"V' in show(v_["init"])]
        v = [show(v_["init"]) for v_ in vd]
        okv = bool(vd)
        vnames = {v_["n"] for v_ in vd}
        fl = [c for c in walk(w["body"]) if c["k"] == "MCall" and c.get("m") == "write" and c.get("a") and any(y["k"] == "Ref" and y["n"] in vnames for y in walk(c["a"][0]))]
        tv = elem_type(fl[0]) if fl else None
        chk.instance(r_es, "vectors:" + w["q"], sample=dict(name=v[:1], type=tv))
        if not okv or tv != "float":
            chk.violation(r_es, "vectors:" + w["q"], "%s must write one float array named V<n> per vector (found name %s, type %s)" % (w["q"], v[:1], tv), w["file"], w["l"])
    # reader: ordered names compared against arrName
    rd = [f for f in fx.fns if f["file"].endswith("ExtESmry.cpp") and f.get("body") and '"KEYCHECK"' in show(f["body"]) and '"RSTEP   "' in show(f["body"])]
    if len(rd) != 1:
        raise core.AnalysisBroken("ExtESmry header loader not found (%d candidates)" % len(rd))
    rd = rd[0]
    exp = []
    for n in walk(rd["body"]):
        if n["k"] == "If":
            c = simp(show(n["cond"]))
            for m in re.finditer(r'\b[A-Za-z_]\w* (!=|==) "([A-Z]+) *"', c):
                typ = "int" if re.search(r"\b[A-Za-z_]\w* != Opm::EclIO::INTE", c) else None
                exp.append((m.group(2), typ, m.group(1)))
    names = [e[0] for e in exp]
    chk.instance(r_es, "reader", sample=exp)
    wnames = [n for n, t in want]
    # RSTNUM is consumed positionally right after RESTART
    rnames = [n for n in names]
    if rnames != [n for n in wnames if n != "RSTNUM"]:
        chk.violation(r_es, "reader:seq", "ExtESmry reads the header arrays in the order %s; the writers emit %s" % (rnames, wnames), rd["file"], rd["l"])
    for n, typ, op in exp:
        wt = dict(want).get(n)
        if typ and wt != typ:
            chk.violation(r_es, "reader:type:" + n, "ExtESmry insists that %s is %s but it is written as %s" % (n, typ, wt), rd["file"], rd["l"])
    # after RESTART the reader consumes exactly one more array (RSTNUM, integer)
    rst = [n for n in walk(rd["body"]) if n["k"] == "If" and '== "RESTART "' in simp(show(n["cond"]))]
    okr = False
    if rst:
        t = show(rst[0]["then"])
        okr = "readBinaryC0nnArray" in t and "readBinaryInteArray" in t and t.index("readBinaryC0nnArray") < t.index("readBinaryInteArray")
    chk.instance(r_es, "reader:restart", sample=okr)
    if not okr:
        chk.violation(r_es, "reader:restart", "ExtESmry must read RESTART (strings) followed by RSTNUM (integers)", rd["file"], rd["l"])
    vn = [show(v.get("init")) for n in walk_fn(f) for f in [rd] if False]
    vchk = [f for f in fx.fns if f["file"].endswith("ExtESmry.cpp") and f.get("body") and '"V"' in show(f["body"])]
    chk.instance(r_es, "reader:vectors", sample=[f["q"] for f in vchk])
    if not vchk:
        chk.violation(r_es, "reader:vectors", "ExtESmry no longer addresses vectors by the array name V<n>", rd["file"], None)

    # ---- C10.seek: direct seeks of ESmry::loadData(vectList)
    r_sk = chk.rule("C10.seek", "ESmry::loadData(vectList): the per-value seek arithmetic is consistent with the record layout (formatted: a stride of D values is D x width + D / columns characters with D the divisor used for block count and remainder; unformatted: 4 + 8 per full block + 4 x position)", floor=4)
    consts = {}
    fh = chk.facts(["opm/io/eclipse/ESmry.cpp"], files_re="^/repo/opm/io/eclipse/EclIOdata.hpp$", fn_re="^$")
    for v in fh.vars:
        if v["file"].endswith("EclIOdata.hpp") and "ev" in v:
            consts[v["n"]] = int(v["ev"])
    lds = [f for f in fx.fn("Opm::EclIO::ESmry::loadData") if len(f["params"]) == 1 and f.get("body")]
    if len(lds) != 1:
        raise core.AnalysisBroken("ESmry::loadData(vectList) not found")
    ld1 = lds[0]
    from verif.tree import decast
    from verif.alpha import Inliner
    inl = Inliner(ld1)

    def cval(e):
        """integer value of an (expanded) expression over the layout constants, or None"""
        e = strip(decast(e))
        if "ev" in e:
            return int(e["ev"])
        if e["k"] == "Int":
            return int(e["v"])
        if e["k"] == "Ref":
            return consts.get(e["n"])
        if e["k"] == "Bin" and e["op"] in ("+", "-", "*", "/", "%"):
            a, b = cval(e["c"][0]), cval(e["c"][1])
            if a is None or b is None:
                return None
            return {"+": a + b, "-": a - b, "*": a * b, "/": a // b if b else None, "%": a % b if b else None}[e["op"]]
        return None

    def one_stmt(b):
        st = stmt_list(b)
        return st[0] if len(st) == 1 else None

    def lhs_name(x):
        x = strip(x)
        return x["n"] if x.get("k") == "Ref" and x.get("d") == "Var" else None
    # definitions of multiply-assigned locals that are set once outside the branch (blockSize_f)
    once = {}
    for n in walk(ld1["body"]):
        if n["k"] == "Bin" and n.get("op") == "=" and lhs_name(n["c"][0]):
            once.setdefault(lhs_name(n["c"][0]), []).append(n["c"][1])

    def seek_target(block):
        """the argument of the seekg call that ends the straight-line block, with every local of the block (and every
        single-definition local of the function) replaced by its definition; if (c) x = e; becomes c ? e : x"""
        env = dict(inl.defs)
        for nm, vs in once.items():
            if len(vs) == 1 and nm not in env and not any(x is vs[0] for x in walk(block)):
                env[nm] = vs[0]
        for st in stmt_list(block):
            if st["k"] == "Decl":
                for v in st["vars"]:
                    if isinstance(v.get("init"), dict):
                        env[v["n"]] = inl.expand(v["init"], 0, env)
                    else:
                        env.pop(v["n"], None)
            elif st["k"] == "Bin" and st.get("asg") and lhs_name(st["c"][0]):
                nm = lhs_name(st["c"][0])
                rhs = inl.expand(st["c"][1], 0, env)
                if st["op"] == "=":
                    env[nm] = rhs
                elif st["op"] == "+=" and nm in env:
                    env[nm] = {"k": "Bin", "op": "+", "c": [env[nm], rhs]}
                else:
                    raise core.AnalysisBroken("ESmry::loadData(vectList): line %d: assignment form %s not modelled" % (st["l"], st["op"]))
            elif st["k"] == "If" and not st.get("else") and one_stmt(st["then"]) is not None and one_stmt(st["then"])["k"] == "Bin" and one_stmt(st["then"]).get("op") == "=" and lhs_name(one_stmt(st["then"])["c"][0]) in env:
                a_ = one_stmt(st["then"])
                nm = lhs_name(a_["c"][0])
                env[nm] = {"k": "Cond", "c": [inl.expand(st["cond"], 0, env), inl.expand(a_["c"][1], 0, env), env[nm]]}
            else:
                m_, o_ = meth(st)
                if m_ == "seekg" and st.get("a"):
                    return inl.expand(st["a"][0], 0, env)
        return None

    def terms(e):
        e = strip(e)
        if e["k"] == "Bin" and e.get("op") == "+" and not e.get("asg"):
            return terms(e["c"][0]) + terms(e["c"][1])
        return [e]

    def binop(e, op):
        e = strip(e)
        return (strip(e["c"][0]), strip(e["c"][1])) if e["k"] == "Bin" and e.get("op") == op and not e.get("asg") else None
    # the two branches: the if whose branches both end in a seekg
    branches = None
    for n in walk(ld1["body"]):
        if n["k"] == "If" and n.get("else") is not None:
            t_, e_ = seek_target(n["then"]), seek_target(n["else"])
            if t_ is not None and e_ is not None:
                branches = (n, t_, e_)
    if branches is None:
        raise core.AnalysisBroken("ESmry::loadData(vectList): the formatted/unformatted pair of seekg blocks was not found")
    iff, fmt_t, unf_t = branches
    W, C, NB = consts.get("columnWidthReal"), consts.get("numColumnsReal"), consts.get("MaxNumBlockReal")
    SI, SR, MB = consts.get("sizeOfInte"), consts.get("sizeOfReal"), consts.get("MaxBlockSizeReal")
    if None in (W, C, NB, SI, SR, MB):
        raise core.AnalysisBroken("ESmry::loadData(vectList): layout constants could not be read from EclIOdata.hpp")
    # ---- formatted: step + [blocks > 0 ?] blocks * stride + rest * width + rest / columns
    ft = terms(fmt_t)
    rest_w = [(t, x) for t in ft for x in [binop(t, "*")] if x and any(binop(y, "%") for y in x)]
    P = D2 = Wc = None
    if len(rest_w) == 1:
        a_, b_ = rest_w[0][1]
        r_, w_ = (a_, b_) if binop(a_, "%") else (b_, a_)
        P, D2, Wc = binop(r_, "%")[0], cval(binop(r_, "%")[1]), cval(w_)
    rest_l = [(t, x) for t in ft for x in [binop(t, "/")] if x and binop(x[0], "%")]
    Cc = D2b = None
    if len(rest_l) == 1 and P is not None:
        r2 = binop(rest_l[0][1][0], "%")
        if show(r2[0]) == show(P):
            D2b, Cc = cval(r2[1]), cval(rest_l[0][1][1])
    blk = []
    for t in ft:
        x = t
        if x["k"] == "Cond":
            c_, a_, z_ = [strip(y) for y in x["c"]]
            if cval(z_) == 0 and binop(c_, ">") and cval(binop(c_, ">")[1]) == 0:
                x = a_
            else:
                continue
        m = binop(x, "*")
        if m and P is not None:
            for nbx, stx in (m, m[::-1]):
                d = binop(nbx, "/")
                if d and show(d[0]) == show(P) and cval(d[1]) is not None and cval(stx) is not None:
                    blk.append((t, cval(d[1]), cval(stx)))
    used = [id(x[0]) for x in rest_w + rest_l + blk]
    step_f = [t for t in ft if id(t) not in used]
    D1, stride = (blk[0][1], blk[0][2]) if len(blk) == 1 else (None, None)
    chk.instance(r_sk, "formatted:divisor", sample=dict(block_divisor=D1, remainder_divisor=D2, stride_chars=stride, width=Wc, columns=Cc))
    chk.instance(r_sk, "formatted:formula", sample=dict(target=inl.render(fmt_t)[:300], terms=len(ft)))
    if None in (P, D1, D2, D2b, Wc, Cc, stride) or len(ft) != 4 or len(step_f) != 1 or any(show(P) in show(x) for x in step_f):
        chk.violation(r_sk, "formatted:formula", "the formatted element position is no longer step + blocks x stride + rest x width + rest / columns (with blocks = position / D and rest = position %% D): the seek target is %s" % inl.render(fmt_t)[:400], ld1["file"], iff["l"])
    else:
        if D1 != D2 or D2 != D2b:
            chk.violation(r_sk, "formatted:divisor", "block count uses position / %d but the remainder position %% %d (line breaks: %% %d)" % (D1, D2, D2b), ld1["file"], iff["l"])
        if Wc != W or Cc != C:
            chk.violation(r_sk, "formatted:formula", "a value is taken to be %d characters wide with %d per line; the REAL layout is %d wide, %d per line" % (Wc, Cc, W, C), ld1["file"], iff["l"])
        if D1 % C != 0 or D1 % NB != 0:
            chk.violation(r_sk, "formatted:regular", "%d values is not a whole number of %d-value blocks and %d-column lines: positions inside it are not uniform" % (D1, NB, C), ld1["file"], iff["l"])
        chk.instance(r_sk, "formatted:stride", sample=dict(stride=stride, expected=D1 * W + D1 // C))
        if stride != D1 * W + D1 // C:
            chk.violation(r_sk, "formatted:stride", "positions are computed in groups of %d values (position / %d) but one group is taken to occupy %d characters; %d values occupy %d x %d + %d line breaks = %d" % (D1, D1, stride, D1, D1, W, D1 // C, D1 * W + D1 // C), ld1["file"], iff["l"])
    # ---- unformatted: (2 x full blocks + 1) x 4 + position x 4 + step, full blocks = position / (4000 / 4)
    ut = terms(unf_t)
    okh = okp = False
    step_u = []
    for t in ut:
        m = binop(t, "*")
        hit = False
        if m and P is not None:
            for x, y in (m, m[::-1]):
                if show(x) == show(P) and cval(y) == SR:
                    okp = hit = True
                hs = terms(x)
                if cval(y) == SI and len(hs) == 2 and sorted(cval(h) is not None and cval(h) or 0 for h in hs)[1] == 1:
                    two = [binop(h, "*") for h in hs if binop(h, "*")]
                    for tw in two:
                        for k2, nf in (tw, tw[::-1]):
                            d = binop(nf, "/")
                            if cval(k2) == 2 and d and show(d[0]) == show(P) and cval(d[1]) == MB // SR:
                                okh = hit = True
        if not hit:
            step_u.append(t)
    chk.instance(r_sk, "unformatted", sample=dict(target=inl.render(unf_t)[:300], header_term=okh, position_term=okp))
    if not (okh and okp) or len(ut) != 3 or len(step_u) != 1 or (step_f and show(step_u[0]) != show(step_f[0])):
        chk.violation(r_sk, "unformatted", "the unformatted element position is no longer (2 x full blocks + 1) x %d + position x %d + step with full blocks = position / (%d / %d): the seek target is %s" % (SI, SR, MB, SR, inl.render(unf_t)[:400]), ld1["file"], iff["l"])

    # ---- C10.nums
    r_nu = chk.rule("C10.nums", "combineSummaryNumbers and splitSummaryNumber are mutually inverse encodings (n1 + 2^15 (n2 + 10))", floor=2)
    cb = fx.fn1("Opm::EclIO::combineSummaryNumbers")
    sp = fx.fn1("Opm::EclIO::splitSummaryNumber")
    from verif.alpha import Inliner as _Inl
    icb, isp = _Inl(cb), _Inl(sp)
    rets_c = [n for n in walk(cb["body"]) if n["k"] == "Return" and n.get("e") is not None]
    rets_s = [n for n in walk(sp["body"]) if n["k"] == "Return" and n.get("e") is not None]
    if len(rets_c) != 1 or len(rets_s) != 1 or len(cb["params"]) != 2 or len(sp["params"]) != 1:
        raise core.AnalysisBroken("combineSummaryNumbers / splitSummaryNumber: unexpected shape (returns %d/%d)" % (len(rets_c), len(rets_s)))
    rc = icb.render(rets_c[0]["e"], roles={cb["params"][0]["n"]: "a", cb["params"][1]["n"]: "b"})
    parts = [x for x in walk(isp.expand(rets_s[0]["e"])) if x["k"] in ("InitList", "Ctor", "Call")]
    elems = None
    for x in parts:
        kids = [y for y in (x.get("c") or x.get("a") or []) if isinstance(y, dict) and y.get("k") != "DefArg"]
        if len(kids) == 2:
            elems = [isp.render(y, roles={sp["params"][0]["n"]: "n"}) for y in kids]
            break
    chk.instance(r_nu, "combine", sample=rc)
    chk.instance(r_nu, "split", sample=elems)
    if rc.replace(" ", "") not in ("($a+((1<<15)*($b+10)))", "($a+(($b+10)*(1<<15)))", "(((1<<15)*($b+10))+$a)"):
        chk.violation(r_nu, "combine", "combineSummaryNumbers(a, b) computes %s; the encoding is a + 2^15 (b + 10)" % rc, cb["file"], cb["l"])
    if elems is None:
        raise core.AnalysisBroken("splitSummaryNumber: the returned pair was not recognised")
    if [e_.replace(" ", "") for e_ in elems] != ["($n%(1<<15))", "(($n/(1<<15))-10)"]:
        chk.violation(r_nu, "split", "splitSummaryNumber(n) returns {%s, %s}; the inverse of the combination is {n %% 2^15, n / 2^15 - 10}" % tuple(elems), sp["file"], sp["l"])
    # ---- C10.lockstep: a counter that shadows the size of a member container lives as long as the container keeps growing
    r_ls = chk.rule("C10.lockstep", "in the summary readers, a local counter incremented once per iteration of the loop that appends once per iteration to a member container (so that it is an index into that container) is not declared inside an enclosing loop, where it would restart while the container keeps growing (base-run chains, multiple files)", floor=2)

    def top_level(body):
        return stmt_list(body)

    def is_inc(s_, name=None):
        s0 = s_
        if s0["k"] == "Un" and "++" in (s0.get("op") or "") and s0.get("c") and strip(s0["c"][0])["k"] == "Ref":
            return strip(s0["c"][0])["n"]
        if s0["k"] == "Bin" and s0.get("asg") and s0.get("op") == "+=" and strip(s0["c"][0])["k"] == "Ref" and strip(s0["c"][1]).get("k") == "Int" and strip(s0["c"][1])["v"] == 1:
            return strip(s0["c"][0])["n"]
        return None

    def member_push(s_):
        m_, o_ = meth(s_)
        if m_ in ("push_back", "emplace_back") and o_ is not None:
            o0 = strip(o_)
            if o0["k"] == "Mem" and strip(o0.get("b") or {"k": "This"})["k"] == "This":
                return o0["n"]
        return None
    for f in fx.fns:
        if not f.get("body") or not f["file"].endswith(("ESmry.cpp", "ExtESmry.cpp")) or not (f.get("cls") or "").endswith(("ESmry", "ExtESmry")):
            continue
        decl_loops = {}

        def visit(n, loops):
            k = n["k"]
            if k == "Decl":
                for v in n["vars"]:
                    decl_loops.setdefault(v["n"], list(loops))
            if k in ("While", "For", "Do", "ForRange"):
                inner = loops + [n]
                body = n["body"]
                tops = top_level(body)
                pushes = [member_push(x) for x in tops if member_push(x)]
                incs = [is_inc(x) for x in tops if is_inc(x)]
                for v in incs:
                    for c_ in sorted(set(pushes)):
                        if pushes.count(c_) != 1 or incs.count(v) != 1:
                            continue
                        outer = [e for e in loops if e in decl_loops.get(v, [])]
                        key = "%s:%s~%s@%d" % (f["q"].split("::")[-1], v, c_, n["l"])
                        chk.instance(r_ls, key, sample=dict(function=f["q"], counter=v, container=c_, loop_line=n["l"], declared_inside_enclosing_loop=bool(outer)))
                        if outer:
                            chk.violation(r_ls, key, "%s: `%s` counts the entries appended to this->%s (one increment and one push_back per iteration of the loop at line %d) but is declared inside the enclosing loop at line %d: it restarts for every file of the chain while %s keeps growing, so indices derived from it (report-step positions) point to the wrong time steps" % (f["q"], v, c_, n["l"], outer[-1]["l"], c_), f["file"], n["l"])
                for key_ in ("init", "cond", "inc", "range"):
                    if isinstance(n.get(key_), dict):
                        visit(n[key_], inner)
                visit(body, inner)
                return
            for ch in (n.get("c") or []) if k == "Block" else []:
                visit(ch, loops)
            if k == "If":
                visit(n["then"], loops)
                if n.get("else"):
                    visit(n["else"], loops)
            if k == "Try":
                visit(n["body"], loops)
        visit(f["body"], [])

    # ---- C10.reqindex: an index list into the request vector holds iteration ordinals
    r_ri = chk.rule("C10.reqindex", "where a summary reader hands a callee both a request vector P and an index list L that the callee uses as P[L[n]], every value the caller appends to L inside its loop over P is the ordinal of the current iteration: a zero-initialised counter, appended without side effect and incremented exactly once, unconditionally, per iteration", floor=1)

    def sub2(n):
        if n["k"] == "Idx":
            return n["c"][0], n["c"][1]
        if n["k"] == "OpCall" and n.get("op") == "[]" and len(n.get("a") or []) == 2:
            return n["a"][0], n["a"][1]
        return None
    byq = {}
    for f in fx.fns:
        byq.setdefault(f["q"], []).append(f)
    for f in fx.fns:
        if not f.get("body") or not f["file"].endswith(("ESmry.cpp", "ExtESmry.cpp")):
            continue
        seen_pairs = set()
        for c in walk(f["body"]):
            if c["k"] not in ("MCall", "Call") or not c.get("fn") or len(byq.get(c["fn"], [])) != 1:
                continue
            g = byq[c["fn"]][0]
            if not g.get("body") or len(g.get("params") or []) != len(c.get("a") or []):
                continue
            pn = [p_["n"] for p_ in g["params"]]
            for x in walk(g["body"]):
                s1 = sub2(x)
                if not s1:
                    continue
                b1, i1 = strip(s1[0]), strip(s1[1])
                s2 = sub2(i1) if isinstance(i1, dict) else None
                if not s2 or b1["k"] != "Ref" or b1.get("d") != "Parm" or strip(s2[0])["k"] != "Ref" or strip(s2[0]).get("d") != "Parm":
                    continue
                if b1["n"] not in pn or strip(s2[0])["n"] not in pn:
                    continue
                aP, aL = strip(c["a"][pn.index(b1["n"])]), strip(c["a"][pn.index(strip(s2[0])["n"])])
                if aP["k"] != "Ref" or aL["k"] != "Ref" or aL.get("d") != "Var":
                    continue
                seen_pairs.add((aP["n"], aL["n"], g["q"], b1["n"], strip(s2[0])["n"]))
        for P, L, gq, gp, gl in sorted(seen_pairs):
            key = "%s:%s[%s[.]]" % (f["q"].split("::")[-1], P, L)
            # every append to L in f
            appends = []

            def scan(n, loops, conds):
                k = n["k"]
                m_, o_ = meth(n)
                if m_ in ("push_back", "emplace_back") and o_ is not None and strip(o_)["k"] == "Ref" and strip(o_)["n"] == L:
                    appends.append((n, list(loops), list(conds)))
                if k in ("While", "For", "Do", "ForRange"):
                    for key_ in ("init", "cond", "inc", "range"):
                        if isinstance(n.get(key_), dict):
                            scan(n[key_], loops + [n], conds)
                    scan(n["body"], loops + [n], [])
                    return
                if k == "If":
                    if isinstance(n.get("cond"), dict):
                        scan(n["cond"], loops, conds)
                    scan(n["then"], loops, conds + [n])
                    if n.get("else"):
                        scan(n["else"], loops, conds + [n])
                    return
                for ch in children(n):
                    scan(ch, loops, conds)
            scan(f["body"], [], [])
            chk.instance(r_ri, key, sample=dict(function=f["q"], request=P, index_list=L, callee=gq, callee_use="%s[%s[n]]" % (gp, gl), appends=[a[0]["l"] for a in appends]))
            if not appends:
                chk.violation(r_ri, key, "%s passes %s to %s as positions in %s but never appends to it" % (f["q"], L, gq, P), f["file"], f["l"])
            for a, loops, conds in appends:
                if not loops:
                    raise core.AnalysisBroken("C10.reqindex: %s:%d appends to %s outside a loop (unknown idiom)" % (f["file"], a["l"], L))
                lp = loops[-1]
                arg = strip((a.get("a") or [None])[0])
                if lp["k"] == "ForRange" and strip(lp["range"])["k"] == "Ref" and strip(lp["range"])["n"] == P:
                    if arg is None or arg["k"] != "Ref" or arg.get("d") != "Var":
                        chk.violation(r_ri, key, "%s: the value appended to %s is `%s`, not a plain iteration counter: %s uses %s[%s[n]] to name the vector whose data it stores, so a position that is not the ordinal of the current request entry attaches data to the wrong key" % (f["q"], L, show(a["a"][0]) if a.get("a") else "?", gq, gp, gl), f["file"], a["l"])
                        continue
                    v = arg["n"]
                    decl = [d for n_ in walk(f["body"]) if n_["k"] == "Decl" for d in n_["vars"] if d["n"] == v]
                    inside = [d for n_ in walk(lp["body"]) if n_["k"] == "Decl" for d in n_["vars"] if d["n"] == v]
                    init0 = len(decl) == 1 and not inside and decl[0].get("init") is not None and strip(decl[0]["init"]).get("k") == "Int" and strip(decl[0]["init"]).get("v") == 0
                    tops = stmt_list(lp["body"])
                    top_inc = [s_ for s_ in tops if is_inc(s_) == v]
                    all_mod = [n_ for n_ in walk(lp["body"]) if (n_["k"] == "Un" and "+" in (n_.get("op") or "") + "-" and ("++" in (n_.get("op") or "") or "--" in (n_.get("op") or "")) and strip(n_["c"][0]).get("n") == v)
                               or (n_["k"] == "Bin" and n_.get("asg") and strip(n_["c"][0]).get("k") == "Ref" and strip(n_["c"][0]).get("n") == v)]
                    jumps = [n_ for n_ in walk(lp["body"], skip_lambda=True) if n_["k"] in ("Continue", "Break", "Return")]
                    bad = []
                    if not init0:
                        bad.append("it is not a local initialised to 0 before the loop")
                    if len(top_inc) != 1 or len(all_mod) != 1:
                        bad.append("it is modified %d time(s) in the loop body, %d of them as an unconditional statement of the body (an ordinal needs exactly one unconditional increment)" % (len(all_mod), len(top_inc)))
                    if jumps:
                        bad.append("the body leaves an iteration early at line %s" % ", ".join(str(j["l"]) for j in jumps))
                    if bad:
                        chk.violation(r_ri, key, "%s: `%s` is appended to %s as the position of the current entry of %s (%s reads %s[%s[n]]), but %s; once an entry is skipped, every later position is off and the data read for one vector is stored under another" % (f["q"], v, L, P, gq, gp, gl, "; ".join(bad)), f["file"], a["l"])
                elif lp["k"] == "For":
                    raise core.AnalysisBroken("C10.reqindex: %s:%d index list %s filled in an index-for loop (idiom not modelled)" % (f["file"], a["l"], L))
                else:
                    raise core.AnalysisBroken("C10.reqindex: %s:%d index list %s filled in a loop that does not range over %s" % (f["file"], a["l"], L, P))

    # ---- C10.esmrypos: where ExtESmry looks for vector k in an ESMRY file
    r_ep = chk.rule("C10.esmrypos", "ExtESmry::load_esmry seeks vector k at: position of the RSTEP header + the two INTE arrays RSTEP and TSTEP with their headers + k x (header + one REAL array of the current number of steps), the header being the bytes writeBinaryHeader emits; and the RSTEP position is taken right before the header whose name is checked to be RSTEP", floor=2)
    from verif import symb as sy
    import rules.C07 as c07
    hx = chk.facts([c07.OUT, c07.UTIL])
    hdr_bytes = sum(c07.header_sums(hx)[0])
    le = fx.fn1("Opm::EclIO::ExtESmry::load_esmry")
    seeks = [n for n in walk(le["body"]) if n["k"] == "MCall" and n.get("m") == "seekg" and n.get("a")]
    tgt = [n for n in seeks if strip(n["a"][0]).get("k") == "Ref" and strip(n["a"][0]).get("d") == "Var"]
    if len(tgt) != 1:
        raise core.AnalysisBroken("load_esmry: the seek to a vector (seekg of a local position) was not found (%d candidates)" % len(tgt))
    posv = strip(tgt[0]["a"][0])["n"]
    # the block that computes the position
    pmq = {}
    for x in walk(le["body"]):
        for ch in children(x):
            pmq[id(ch)] = x
    blk = pmq.get(id(tgt[0]))
    while blk is not None and blk.get("k") != "Block":
        blk = pmq.get(id(blk))

    def leaf_e(e):
        if e.get("k") == "Call" and (e.get("fn") or "").endswith("sizeOnDiskBinary") and len(e.get("a") or []) >= 2:
            ty = [x["n"] for x in walk(e["a"][1]) if x["k"] == "Ref" and x.get("d") == "Enum"]
            first = show(decast_(e["a"][0]))
            return sy.S("array(%s,%s)" % (first, ty[0] if ty else "?"))
        sb = None
        if e.get("k") == "OpCall" and e.get("op") == "[]" and len(e.get("a") or []) == 2:
            sb = strip(e["a"][0])
        if sb is not None and sb.get("k") == "Mem":
            return sy.S(sb["n"] + "[.]")
        if e.get("k") == "MCall" and e.get("m") == "at" and strip(e.get("obj") or {}).get("k") in ("OpCall",):
            return sy.S("key")
        return None
    from verif.tree import decast as decast_
    locs_e = {v["n"] for n in walk(le["body"]) if n["k"] == "Decl" for v in n["vars"]}
    ev2 = sy.Eval(leaf_e, locs_e)
    outer = ev2.run([n for n in stmt_list(le["body"]) if n["k"] == "Decl"], {})
    upto = []
    for st in stmt_list(blk):
        if st is tgt[0]:
            break
        upto.append(st)
    env_e = ev2.run(upto, outer)
    got = env_e.get(posv)
    kterm = env_e.get([v["n"] for n in stmt_list(blk) if n["k"] == "Decl" for v in n["vars"] if isinstance(v.get("init"), dict) and meth(strip(v["init"]))[0] == "at"][0]) if [v for n in stmt_list(blk) if n["k"] == "Decl" for v in n["vars"] if isinstance(v.get("init"), dict) and meth(strip(v["init"]))[0] == "at"] else None
    K_ = kterm if kterm is not None else sy.S("key")
    nt = [x for x in walk(le["body"]) if x["k"] == "Call" and (x.get("fn") or "").endswith("sizeOnDiskBinary")]
    nstep = show(decast_(nt[0]["a"][0])) if nt else "?"
    want_e = sy.add(sy.S("m_rstep_offset[.]"), sy.mul(sy.S("array(%s,REAL)" % nstep), K_), sy.mul(sy.I(2), sy.S("array(%s,INTE)" % nstep)), sy.I(2 * hdr_bytes), sy.mul(K_, sy.I(hdr_bytes)))
    chk.instance(r_ep, "vector", sample=dict(seek_target=sy.show_term(got)[:300], header_bytes=hdr_bytes, matches=got == want_e))
    if got != want_e:
        chk.violation(r_ep, "vector", "ExtESmry::load_esmry seeks vector k at %s; the file holds RSTEP and TSTEP (two INTE arrays with a %d-byte header each) and then one %d-byte header plus one REAL array per vector, i.e. %s: the data read for a key is another vector's (or garbage)" % (sy.show_term(got), hdr_bytes, hdr_bytes, sy.show_term(want_e)), le["file"], tgt[0]["l"])
    oe = fx.fn1("Opm::EclIO::ExtESmry::open_esmry")
    st_o = stmt_list(oe["body"])
    pos_i = [i for i, n in enumerate(st_o) if n["k"] == "Bin" and n.get("asg") and any(meth(x)[0] == "tellg" for x in walk(n["c"][1])) and strip(n["c"][0]).get("d") == "Parm"]
    ok_o = False
    if len(pos_i) == 1:
        rest = st_o[pos_i[0] + 1:]
        hdr_then = [i for i, n in enumerate(rest) if any(x["k"] == "Call" and (x.get("fn") or "").endswith("readBinaryHeader") for x in walk(n))]
        name_chk = [i for i, n in enumerate(rest) if n["k"] == "If" and any(x["k"] == "Str" and x["v"].strip() in ("RSTEP", "TSTEP", "UNITS", "KEYCHECK") for x in walk(n["cond"]))]
        if hdr_then and name_chk and hdr_then[0] == 0 and name_chk[0] == 1:
            ok_o = any(x["k"] == "Str" and x["v"].strip() == "RSTEP" for x in walk(rest[1]["cond"]))
    chk.instance(r_ep, "rstep_offset", sample=dict(taken_before_rstep_header=ok_o))
    if not ok_o:
        chk.violation(r_ep, "rstep_offset", "ExtESmry::open_esmry no longer records the stream position immediately before the header that is then checked to be RSTEP: every vector position computed from it is shifted", oe["file"], st_o[pos_i[0]]["l"] if pos_i else oe["l"])

    # ---- C10.loadonce: a series is appended to only while it is not marked loaded
    r_lo = chk.rule("C10.loadonce", "ESmry keeps one float series per vector (vectorData[k]) and a flag vectorLoaded[k]; every append to a series happens under `!vectorLoaded[k]` for the same k - directly in the guarding condition, or because k runs over a local list that only received indices under that test - so loading single vectors first and everything afterwards (get(), then loadData() / make_esmry_file()) never doubles a series", floor=6)
    from verif.tree import children as _children_lo
    for f in fx.fns:
        if not f.get("body") or not f["file"].endswith("/ESmry.cpp"):
            continue
        found = []

        def rec(n, conds, loops):
            if n.get("k") == "MCall" and n.get("m") == "push_back" and isinstance(n.get("obj"), dict):
                o = strip(n["obj"])
                if o.get("k") in ("Idx", "OpCall") and show(strip((o.get("c") or o.get("a"))[0])).replace("this.", "") == "vectorData":
                    found.append((n, show(strip((o.get("c") or o.get("a"))[1])), list(conds), list(loops)))
            if n.get("k") == "If" and isinstance(n.get("cond"), dict):
                rec(n["cond"], conds, loops)
                if isinstance(n.get("then"), dict):
                    rec(n["then"], conds + [n["cond"]], loops)
                if isinstance(n.get("else"), dict):
                    rec(n["else"], conds, loops)
                return
            if n.get("k") == "ForRange":
                for c in _children_lo(n):
                    rec(c, conds, loops + [n])
                return
            if n.get("k") == "Lambda":
                return
            for c in _children_lo(n):
                rec(c, conds, loops)
        rec(f["body"], [], [])

        def conjuncts(c):
            c = strip(c)
            if c.get("k") == "Bin" and c.get("op") == "&&":
                return conjuncts(c["c"][0]) + conjuncts(c["c"][1])
            return [show(c).replace("this.", "").replace(".operator bool()", "")]
        for n, ix, conds, loops in found:
            key = "%s:%s@%d" % (f["q"].split("::")[-1] + ("/%d" % len(f["params"])), ix, n["l"])
            direct = any("(!vectorLoaded[%s])" % ix in conjuncts(c) for c in conds)
            via = None
            if not direct:
                for lp in loops:
                    if isinstance(lp.get("var"), dict) and lp["var"].get("n") == ix and strip(lp["range"]).get("k") == "Ref":
                        L = strip(lp["range"])["n"]
                        adds = []

                        def rec2(m, cs):
                            if m.get("k") == "MCall" and m.get("m") in ("push_back", "emplace_back") and isinstance(m.get("obj"), dict) and strip(m["obj"]).get("n") == L:
                                adds.append((m, list(cs)))
                            if m.get("k") == "If" and isinstance(m.get("cond"), dict):
                                if isinstance(m.get("then"), dict):
                                    rec2(m["then"], cs + [m["cond"]])
                                if isinstance(m.get("else"), dict):
                                    rec2(m["else"], cs)
                                return
                            for c in _children_lo(m):
                                rec2(c, cs)
                        rec2(f["body"], [])
                        via = bool(adds) and all(any("(!vectorLoaded[%s])" % show(strip(m["a"][0])) in conjuncts(c) for c in cs) for m, cs in adds)
            chk.instance(r_lo, key, sample=dict(function=f["q"], line=n["l"], index=ix, guarded_directly=direct, guarded_through_list=via))
            if not direct and not via:
                chk.violation(r_lo, key, "%s appends to vectorData[%s] at line %d without testing !vectorLoaded[%s]: a vector that was loaded on its own before (get(), dates(), loadData({..})) gets every value a second time, so the series is twice as long as the number of time steps" % (f["q"], ix, n["l"], ix), f["file"], n["l"])

    # ---- C10.pending: the writer's re-used buffer of pending ministeps and its live count
    r_pe = chk.rule("C10.pending", "the summary writer collects ministeps in a buffer it re-uses (an element is claimed with buffer[count++], the count is reset to zero after a flush, the buffer is never shrunk): every traversal of the buffer visits exactly the live elements - an index loop from 0 while index < count - never the whole container (a range-for or begin()/end() also sees the ministeps of an earlier, larger batch and writes them again)", floor=2)
    pairs = set()
    sfns = [f for f in fx.fns if f.get("body") and f["file"].endswith("/Summary.cpp")]
    for f in sfns:
        for n in walk(f["body"]):
            if n["k"] in ("Idx", "OpCall") and (n["k"] == "Idx" or n.get("op") == "[]"):
                b_, i_ = [strip(x) for x in (n.get("c") or n.get("a"))][:2]
                if b_.get("k") == "Mem" and strip(b_.get("b") or {"k": "This"}).get("k") == "This" and i_.get("k") == "Un" and "++" in (i_.get("op") or "") and strip(i_["c"][0]).get("k") == "Mem":
                    pairs.add((b_["n"], strip(i_["c"][0])["n"]))
    if len(pairs) != 1:
        raise core.AnalysisBroken("Summary.cpp: the pending-ministep buffer (member[count++]) was not identified: %s" % sorted(pairs))
    buf, cnt = list(pairs)[0]
    for f in sfns:
        for n in walk(f["body"]):
            if n["k"] == "ForRange" and show(strip(n["range"])) == "this.%s" % buf:
                chk.instance(r_pe, "%s:range@%d" % (f["q"].split("::")[-1], n["l"]), sample=dict(function=f["q"], traversal="range-for over the whole buffer"))
                chk.violation(r_pe, "%s:range@%d" % (f["q"].split("::")[-1], n["l"]), "%s walks the whole buffer `%s` (range-for); only the first `%s` entries are live - the rest are ministeps of an earlier batch, which are written to the summary file a second time" % (f["q"], buf, cnt), f["file"], n["l"])
            if n["k"] in ("MCall",) and n.get("m") in ("begin", "end", "cbegin", "cend", "rbegin", "rend") and show(strip(n.get("obj") or {})) == "this.%s" % buf:
                chk.instance(r_pe, "%s:iter@%d" % (f["q"].split("::")[-1], n["l"]), sample=dict(function=f["q"], traversal=show(n)))
                chk.violation(r_pe, "%s:iter@%d" % (f["q"].split("::")[-1], n["l"]), "%s takes %s: iterating the whole re-used buffer visits stale ministeps beyond the live count `%s`" % (f["q"], show(n), cnt), f["file"], n["l"])
            if n["k"] == "For" and any(("this.%s[" % buf) in show(x) for x in walk(n["body"]) if x["k"] in ("Idx", "OpCall")):
                iv = n["init"]["vars"][0]["n"] if n.get("init") and n["init"].get("k") == "Decl" else None
                key = "%s:index@%d" % (f["q"].split("::")[-1], n["l"])
                subs = {show(strip((x.get("c") or x.get("a"))[1])) for x in walk(n["body"]) if x["k"] in ("Idx", "OpCall") and (x["k"] == "Idx" or x.get("op") == "[]") and show(strip((x.get("c") or x.get("a"))[0])) == "this.%s" % buf}
                ok = iv is not None and show(n["cond"]) == "(%s < this.%s)" % (iv, cnt) and subs == {iv} and show(n.get("inc")) in ("(++%s)" % iv, "(%s++)" % iv)
                st0 = sy.Eval(lambda e: sy.S("n") if e.get("k") in ("Mem", "MCall") else None, set()).term(n["init"]["vars"][0]["init"], {}) if iv else None
                ok = ok and st0 == sy.I(0)
                chk.instance(r_pe, key, sample=dict(function=f["q"], loop="for (%s = %s; %s; %s)" % (iv, show(n["init"]["vars"][0].get("init")) if iv else "?", show(n["cond"]), show(n.get("inc"))), subscripts=sorted(subs)))
                if not ok:
                    chk.violation(r_pe, key, "%s traverses `%s` with for (%s; %s; %s) and subscripts %s; the live elements are [0, %s)" % (f["q"], buf, show(n.get("init"))[:60], show(n["cond"]), show(n.get("inc")), sorted(subs), cnt), f["file"], n["l"])

    # ---- C10.stale: a derived ESMRY file of an earlier run never survives the start of a new run
    r_st = chk.rule("C10.stale", "ESmry::make_esmry_file refuses to replace an existing <CASE>.ESMRY (returns false when the file exists); therefore the summary writer removes an existing <CASE>.ESMRY when it is constructed, whatever its options: the removal is guarded by the existence of that file only - otherwise the readers are served the previous run's series", floor=2)
    mk = fx.fn1("Opm::EclIO::ESmry::make_esmry_file")
    refuse = [n for n in walk(mk["body"]) if n["k"] == "If" and any(x["k"] == "Call" and (x.get("fn") or "").endswith("fileExists") or meth(x)[0] == "exists" or (x["k"] == "Call" and (x.get("fn") or "").endswith("filesystem::exists")) for x in walk(n["cond"])) and any(r_["k"] == "Return" for r_ in stmt_list(n["then"]))]
    chk.instance(r_st, "converter", sample=dict(refuses_existing_file=bool(refuse)))
    ctor = [f for f in fx.fns if f["file"].endswith("Summary.cpp") and f.get("body") and f["n"] == "SummaryImplementation" and any(x["k"] == "Str" and x["v"] == "ESMRY" for x in walk(f["body"]))]
    if len(ctor) != 1:
        raise core.AnalysisBroken("SummaryImplementation constructor (the one that names the ESMRY file) not found: %d" % len(ctor))
    ctor = ctor[0]
    fnv = [v["n"] for n in walk(ctor["body"]) if n["k"] == "Decl" for v in n["vars"] if isinstance(v.get("init"), dict) and any(x["k"] == "Str" and x["v"] == "ESMRY" for x in walk(v["init"]))]
    pmc = {}
    for x in walk(ctor["body"]):
        for ch in children(x):
            pmc[id(ch)] = x
    rm = [n for n in walk(ctor["body"]) if n["k"] == "Call" and (n.get("fn") or "").endswith("filesystem::remove") and any(y["k"] == "Ref" and y["n"] in fnv for y in walk(n))]
    guards = []
    for r_ in rm:
        p_ = pmc.get(id(r_))
        child = r_
        while p_ is not None:
            if p_["k"] == "If" and any(x is child for x in walk(p_["then"])):
                guards.append(p_["cond"])
            if p_["k"] == "If" and p_.get("else") is not None and any(x is child for x in walk(p_["else"])):
                guards.append({"k": "Un", "op": "!", "c": [p_["cond"]]})
            child, p_ = p_, pmc.get(id(p_))
    foreign = [show(g)[:80] for g in guards if any(y["k"] == "Ref" and y.get("d") in ("Parm", "Var") and y["n"] not in fnv for y in walk(g)) or any(y["k"] == "Mem" for y in walk(g))]
    chk.instance(r_st, "writer", sample=dict(file_variable=fnv, removals=len(rm), guards=[show(g)[:80] for g in guards]))
    if refuse and (len(rm) != 1 or foreign):
        chk.violation(r_st, "writer", "the summary writer %s; make_esmry_file() does not overwrite an existing ESMRY file, so after a re-run in the same directory the conversion does nothing and ExtESmry returns the previous run's vectors, time axis and report steps" % ("no longer removes an existing <CASE>.ESMRY when it starts" if not rm else "removes an existing <CASE>.ESMRY only under the additional condition %s" % foreign), ctor["file"], rm[0]["l"] if rm else ctor["l"])

    # the i,j,k in the names of block / connection vectors: the numbering rule of C13, run here because the ESMRY writer and the
    # legacy reader must produce the same names (ExtSmryOutput::ijk_from_global_index vs ESmry::ijk_from_global_index)
    import rules.C13 as c13
    c13.run(core.Only(chk, {"C13.ijk"}))

    # ---- C10.fileswitch: stepping from one data file of a run chain to the next
    r_fw = chk.rule("C10.fileswitch", "ESmry.cpp: every loop over the ministep list that notices a change of data file (`dataFileIndex != std::get<1>(ministep)`) takes BOTH indices from the ministep tuple inside that branch - the specification index std::get<0> (which run's SMSPEC gives the vector positions and the formatted flag) and the data-file index std::get<1> - the same in the selective load, the full load and the ministep reader.  With the specification index left at the oldest base run, a continued run whose vectors sit at other positions comes back with the values of other vectors, silently", floor=3)
    ex10 = chk.facts(["opm/io/eclipse/ESmry.cpp"])
    for f in ex10.fns:
        if not f.get("body") or not f["file"].endswith("ESmry.cpp"):
            continue
        for n in walk(f["body"]):
            if n.get("k") != "If" or not isinstance(n.get("cond"), dict):
                continue
            c_ = strip(n["cond"])
            if not (c_.get("k") == "Bin" and c_.get("op") in ("!=", "==") and "dataFileIndex" in show(c_) and "std::get" in show(c_)):
                continue
            branch = n["then"] if c_["op"] == "!=" else n.get("else")
            asg = {}
            for x in walk(branch or {}):
                if x.get("k") == "Bin" and x.get("asg") and x.get("op") == "=" and strip(x["c"][0]).get("k") == "Ref":
                    rhs_ = strip(x["c"][1])
                    if rhs_.get("k") == "Call" and (rhs_.get("fn") or "").endswith("std::get") and rhs_.get("targs"):
                        asg[strip(x["c"][0])["n"]] = str(rhs_["targs"][0])
            key = "%s@%d" % (f["n"], n["l"])
            chk.instance(r_fw, key, sample=dict(function=f["q"], taken=asg))
            if asg.get("specInd") != "0" or asg.get("dataFileIndex") != "1":
                chk.violation(r_fw, key, "%s: on a change of data file the branch takes %s from the ministep; it must take specInd = std::get<0> and dataFileIndex = std::get<1> (the vector positions and the formatted flag belong to the run of the new file)" % (f["q"], asg or "nothing", ), f["file"], n["l"])

    # ---- C10.startvec: the START record of an ESMRY file, written and read
    r_sv = chk.rule("C10.startvec", "ESMRY START record = (day, month, year, hour, minute, second, millisecond), seven entries: the direct writer (ExtSmryOutput) fills all seven from the time stamp in this order, the converter (ESmry::make_esmry_file) turns the SMSPEC microsecond entry into second and appended millisecond, and the reader (ExtESmry make_date) takes hour, minute and second from entries 3, 4, 5 as they stand exactly when the record has seven entries - the same count the writers produce", floor=3)
    sx = chk.facts(["opm/io/eclipse/ExtSmryOutput.cpp", "opm/io/eclipse/ExtESmry.cpp", "opm/io/eclipse/ESmry.cpp"])
    wr = [f for f in sx.fns if f["q"] == "Opm::EclIO::ExtSmryOutput::ExtSmryOutput" and f.get("body")]
    rdm = [f for f in sx.fns if f["n"] == "make_date" and f["file"].endswith("ExtESmry.cpp") and f.get("body")]
    cvf = [f for f in sx.fns if f["n"] == "make_esmry_file" and f["file"].endswith("ESmry.cpp") and f.get("body")]
    if len(wr) != 1 or len(rdm) != 1 or len(cvf) != 1:
        raise core.AnalysisBroken("START record: writer / reader / converter not found (%d, %d, %d)" % (len(wr), len(rdm), len(cvf)))
    wr, rdm, cvf = wr[0], rdm[0], cvf[0]
    asg_ = [n for n in walk(wr["body"]) if n["k"] in ("Bin", "OpCall") and n.get("op") == "=" and "m_start_date_vect" in show(strip((n.get("c") or n.get("a"))[0]))]
    ents = []
    if len(asg_) == 1:
        rhs_ = strip((asg_[0].get("c") or asg_[0].get("a"))[1])
        while rhs_.get("k") in ("Ctor", "Temp", "Bind", "Cast") and len(rhs_.get("a") or rhs_.get("c") or []) == 1:
            rhs_ = strip((rhs_.get("a") or rhs_.get("c"))[0])
        ents = [re.sub(r"^\w+\.", "ts.", show(strip(x))) for x in (rhs_.get("c") or rhs_.get("a") or [])]
    chk.instance(r_sv, "writer", sample=dict(entries=ents))
    if ents != ["ts.day()", "ts.month()", "ts.year()", "ts.hour()", "ts.minutes()", "ts.seconds()", "0"]:
        chk.violation(r_sv, "writer", "ExtSmryOutput fills START with %s; the ESMRY record is (day, month, year, hour, minute, second, 0): with another count the reader takes no time of day at all" % ents, wr["file"], asg_[0]["l"] if asg_ else wr["l"])
    dn = rdm["params"][0]["n"]
    ifs_ = [n for n in stmt_list(rdm["body"]) if n["k"] == "If" and re.fullmatch(r"\(%s\.size\(\) == 7\)" % dn, show(strip(n["cond"])))]
    got_r = {}
    if len(ifs_) == 1:
        env_ = {}
        for st in stmt_list(ifs_[0]["then"]):
            if st["k"] == "Decl":
                for v in st["vars"]:
                    env_[v["n"]] = show(strip(v["init"])) if isinstance(v.get("init"), dict) else "?"
            elif st["k"] == "Bin" and st.get("asg") and st["op"] == "=":
                t_ = show(strip(st["c"][1]))
                for k_, v_ in env_.items():
                    t_ = re.sub(r"\b%s\b" % re.escape(k_), v_, t_)
                got_r[show(strip(st["c"][0]))] = t_
    chk.instance(r_sv, "reader", sample=dict(seven_entry_branch=got_r))
    if got_r != {"hour": "%s[3]" % dn, "minute": "%s[4]" % dn, "second": "%s[5]" % dn}:
        chk.violation(r_sv, "reader", "ExtESmry make_date, seven-entry START: %s; required hour = [3], minute = [4], second = [5] as stored (the writers store seconds, not microseconds)" % (got_r or "no `size() == 7` branch"), rdm["file"], rdm["l"])
    ctxt = " ".join(show(x) for x in walk(cvf["body"]) if x["k"] in ("Decl", "Bin", "MCall") and "start_date_vect" in show(x) and x["k"] != "Block")
    okc = all(t_ in ctxt for t_ in ("(start_date_vect[5] / 1000000)", "start_date_vect.push_back(millisec)", "(start_date_vect[5] = sec)"))
    chk.instance(r_sv, "converter", sample=dict(ok=okc))
    if not okc:
        chk.violation(r_sv, "converter", "ESmry::make_esmry_file no longer turns the SMSPEC start record (microseconds in entry 5) into (.., second, millisecond): %s" % ctxt[:300], cvf["file"], cvf["l"])

    # ---- C10.create: when the writer opens a new summary stream
    r_cr = chk.rule("C10.create", "SummaryImplementation::createSmryStreamIfNecessary(report_step) creates (and thereby truncates) the stream exactly when there is none yet, or output is not unified and the last creation was for a STRICTLY earlier report step (decision table over: stream present, unified, prevCreate < report_step); the creating block opens the file of that report_step and records it as the last creation.  With `<=` every further ministep of a report step re-creates the separate file and the earlier ministeps of that step are lost", floor=2)
    from verif import dtable
    cs = [f for f in fx.fns if f["n"] == "createSmryStreamIfNecessary" and f.get("body")]
    if len(cs) != 1:
        raise core.AnalysisBroken("createSmryStreamIfNecessary: %d definitions" % len(cs))
    cs = cs[0]
    rp = cs["params"][0]["n"]
    dc = [(v, n) for n in stmt_list(cs["body"]) if n["k"] == "Decl" for v in n["vars"] if isinstance(v.get("init"), dict) and (v.get("t") or "").replace("const ", "") in ("bool", "auto")]
    cif = [n for n in stmt_list(cs["body"]) if n["k"] == "If"]
    if len(dc) != 1 or len(cif) != 1 or show(strip(cif[0]["cond"])) != dc[0][0]["n"]:
        raise core.AnalysisBroken("createSmryStreamIfNecessary: the shape `const auto do_create = ...; if (do_create) {...}` was not found")
    A_S, A_U, A_L = "this.stream_", "this.unif_.set", "this.prevCreate_ < %s" % rp
    rows = {}
    unknown = None
    import itertools as _it
    for bits in _it.product((True, False), repeat=3):
        val = dict(zip((A_S, A_U, A_L), bits))
        try:
            rows[bits] = dtable.bool_term(dc[0][0]["init"], {}, {dtable.norm(k_).replace(".operator bool()", ""): v_ for k_, v_ in val.items()} | {A_S + ".operator bool()": val[A_S]})
        except dtable._Need as need:
            unknown = need.atom
            break
    chk.instance(r_cr, "when", sample=dict(condition=show(dc[0][0]["init"]), table={str(k_): v_ for k_, v_ in rows.items()}))
    if unknown is not None:
        chk.violation(r_cr, "when", "createSmryStreamIfNecessary decides on `%s`, which is none of: stream present, unified output, prevCreate_ < report_step (condition: %s)" % (unknown, show(dc[0][0]["init"])), cs["file"], dc[0][1]["l"])
    else:
        wrong = [b_ for b_, got in rows.items() if got != ((not b_[0]) or ((not b_[1]) and b_[2]))]
        if wrong:
            chk.violation(r_cr, "when", "createSmryStreamIfNecessary creates the stream under %s; it must do so exactly when no stream exists, or output is separate and the last creation was for an earlier report step (differs for (stream, unified, earlier) = %s)" % (show(dc[0][0]["init"]), wrong), cs["file"], dc[0][1]["l"])
    tb = [show(x) for x in stmt_list(cif[0]["then"])]
    ok_b = (len(tb) == 2 and re.match(r"\(this\.stream_ = Opm::EclIO::OutputStream::createSummaryFile\(this\.rset_, %s, this\.fmt_, this\.unif_\)\)$" % rp, tb[0]) is not None
            and tb[1] == "(this.prevCreate_ = %s)" % rp and cif[0].get("else") is None)
    chk.instance(r_cr, "block", sample=dict(statements=tb))
    if not ok_b:
        chk.violation(r_cr, "block", "createSmryStreamIfNecessary: the creating block must open createSummaryFile(rset_, report_step, fmt_, unif_) and record prevCreate_ = report_step (found %s)" % tb, cs["file"], cif[0]["l"])

    from verif import narrow
    narrow.run_offwidth(chk, "C10")

    from verif import fallthrough
    fallthrough.run(chk, "C10", floor=13)
    from verif import argorder
    argorder.run(chk, "C10", floor=90)

    chk.assumptions += ["the positional seek arithmetic of ESmry::loadData / ExtESmry is not analysed (runtime quantities)"]
