"""C16  Automatic differentiation exact in every variant — translation validation of the unrolled specialisations.

Decides: each of the twelve statically unrolled Evaluation<ValueT, N> files is the *same program* as the generic
Evaluation.hpp after unrolling its loops for N (C16.unroll: member by member, statement by statement); within
every member the statements for derivative slots 1..N are identical up to the slot index and each slot occurs
exactly once (C16.slots); the dynamic implementation has the same members with the same loop bodies (C16.dyn);
every math function writes every derivative slot as a function of the same slot of its arguments
(C16.math).  Not decided: that the derivative formulas are the true derivatives, floating-point exactness.
"""
import copy
import re

from verif import core
from verif.tree import plain_num, walk, show, stmt_list, strip, children, meth

LEVEL = "translation_validation"
UNIT = "opm/material/densead/Evaluation.cpp"
DIR = "^/repo/opm/material/densead/"
NS = range(1, 13)


def subst(n, env):
    """Copy of tree n with local Refs replaced by trees/ints from env."""
    if isinstance(n, list):
        return [subst(x, env) for x in n]
    if not isinstance(n, dict):
        return n
    if n.get("k") == "Ref" and n.get("d") in ("Var", "Parm") and n["n"] in env:
        v = env[n["n"]]
        if isinstance(v, int):
            return {"k": "Int", "v": v, "l": n.get("l")}
        return copy.deepcopy(v)
    return {k: subst(v, env) if isinstance(v, (dict, list)) else v for k, v in n.items()}


def const_call(n, N, dynamic=False):
    """value of valuepos_/dstart_/dend_/length_/size for a static Evaluation of N derivatives"""
    if n.get("k") in ("MCall", "Call"):
        m = n.get("m") or (n.get("fn") or "").split("::")[-1]
        if not (n.get("a")):
            if m == "valuepos_":
                return 0
            if m == "dstart_":
                return 1
            if m in ("dend_", "length_") and N is not None:
                return N + 1
            if m == "size" and N is not None and (n.get("obj") is None or strip(n["obj"]).get("k") == "This"):
                return N
    return None


def fold(n, N):
    """replace the layout accessors by their constants and fold integer arithmetic"""
    if isinstance(n, list):
        return [fold(x, N) for x in n]
    if not isinstance(n, dict):
        return n
    c = const_call(n, N)
    if c is not None:
        return {"k": "Int", "v": c}
    if n.get("k") == "Ref" and n.get("d") == "NTTP" and n.get("n") == "numDerivs" and N is not None:
        return {"k": "Int", "v": N}
    m = {k: fold(v, N) if isinstance(v, (dict, list)) else v for k, v in n.items()}
    if m.get("k") == "OpCall" and not m.get("fn") and isinstance(m.get("a"), list):
        # operator on dependent operands (unresolved lookup inside a template): same shape as the builtin operator
        if len(m["a"]) == 2 and m["op"] not in ("[]", "()"):
            m = {"k": "Bin", "op": m["op"], "c": m["a"], "l": m.get("l"), **({"asg": True} if m["op"].endswith("=") and m["op"] not in ("==", "!=", "<=", ">=") else {})}
        elif len(m["a"]) == 1:
            m = {"k": "Un", "op": m["op"], "c": m["a"], "l": m.get("l")}
    if m.get("k") == "Bin" and m["op"] in ("+", "-") and all(strip(x).get("k") == "Int" for x in m["c"]):
        a, b = strip(m["c"][0])["v"], strip(m["c"][1])["v"]
        return {"k": "Int", "v": a + b if m["op"] == "+" else a - b}
    return m


def loop_bounds(s, N):
    """(var, start, end) of `for (int v = A; v < B; ++v)` with constant bounds after folding, else None"""
    if s.get("k") != "For":
        return None
    init, cond, inc = s.get("init"), s.get("cond"), s.get("inc")
    if not init or init["k"] != "Decl" or len(init["vars"]) != 1 or not cond or not inc:
        return None
    v = init["vars"][0]
    a = strip(fold(v.get("init"), N)) if v.get("init") else None
    c = fold(cond, N)
    if c["k"] != "Bin" or c["op"] != "<" or strip(c["c"][0]).get("n") != v["n"]:
        return None
    b = strip(c["c"][1])
    if not a or a.get("k") != "Int" or b.get("k") != "Int":
        return None
    if show(inc) not in ("(++%s)" % v["n"], "(%s++)" % v["n"]):
        return None
    return v["n"], a["v"], b["v"]


def inline_locals(stmts):
    """inline `const T& x = E;` / `const T x = E;` declared inside a loop body into the statements that follow"""
    env = {}
    out = []
    for s in stmts:
        if s["k"] == "Decl" and all(v.get("init") is not None and (v.get("cref") or v.get("const")) for v in s["vars"]):
            for v in s["vars"]:
                env[v["n"]] = subst(v["init"], env)
            continue
        out.append(subst(s, env))
    return out


def unroll(body, N):
    """statement list of a member body with every constant-bound loop unrolled"""
    out = []
    for s in stmt_list(body):
        lb = loop_bounds(s, N)
        if lb:
            var, a, b = lb
            inner = stmt_list(s["body"])
            for i in range(a, b):
                for t in inline_locals([subst(x, {var: i}) for x in inner]):
                    out.extend(unroll(t, N) if t["k"] in ("For", "Block") else [t])
        elif s["k"] == "Block":
            out.extend(unroll(s, N))
        else:
            out.append(s)
    return out


ASSERT = re.compile(r"\(\(bool\)\((.*?)\) \? \(void\)0 : __assert_fail\(.*?\)\)\)")


def render(s, N):
    t = show(fold(s, N))
    t = ASSERT.sub(lambda m: "assert(%s)" % m.group(1), t)
    t = re.sub(r"(?:const )?(?:Opm::DenseAd::)?Evaluation<[^<>]*>::ValueType", "ValueType", t)
    t = re.sub(r"(?:Opm::DenseAd::)?Evaluation<[^<>]*>", "Evaluation", t)
    t = t.replace("Opm::DenseAd::Evaluation::", "").replace("this.", "").replace("const ValueType", "ValueType")
    t = re.sub(r"\bEvaluation::(?=[a-z_])", "", t)
    t = re.sub(r"throw \((std::\w+)\).*$", r"throw \1(<message>)", t)
    return t


def member_key(f):
    ps = ",".join(re.sub(r"Evaluation<[^>]*>", "Evaluation", p["t"]) for p in f["params"])
    return "%s(%s)%s%s" % (re.sub(r"Evaluation<[^>]*>", "Evaluation", f["n"]), ps, " const" if f.get("const") else "", " static" if f.get("static") else "")


SLOT = re.compile(r"data_\[(\d+)\]")


def run(chk):
    fx = chk.facts([UNIT], files_re=DIR)
    by_file = {}
    for f in fx.fns:
        if f.get("cls") == "Opm::DenseAd::Evaluation" and f.get("body"):
            by_file.setdefault(f["file"].split("/")[-1], {})[member_key(f)] = f
    gen = by_file.get("Evaluation.hpp")
    dyn = by_file.get("DynamicEvaluation.hpp")
    if not gen or not dyn:
        raise core.AnalysisBroken("generic / dynamic Evaluation not found")
    # the specialisations are all included
    inc = open(core.REPO + "/opm/material/densead/EvaluationSpecializations.hpp").read() if chk.root == core.REPO else open(chk.root + "/opm/material/densead/EvaluationSpecializations.hpp").read()
    r_inc = chk.rule("C16.included", "EvaluationSpecializations.hpp includes all twelve unrolled files and each declares its own size", floor=12)
    programs = 0
    disagreements = 0
    r_un = chk.rule("C16.unroll", "each member of Evaluation<N>.hpp equals the member of the generic Evaluation.hpp with its loops unrolled for N (statement lists compared in order)", floor=580)
    r_sl = chk.rule("C16.slots", "within a member the statements for derivative slots 1..N are identical up to the slot index, every slot occurs exactly once and in order", floor=12 * 8)
    samples = []
    for N in NS:
        fname = "Evaluation%d.hpp" % N
        spec = by_file.get(fname)
        ok_inc = ("Evaluation%d.hpp>" % N) in inc and spec is not None
        chk.instance(r_inc, fname, sample=dict(file=fname, included=ok_inc))
        if not ok_inc:
            chk.violation(r_inc, fname, "%s is not included by EvaluationSpecializations.hpp (the generic implementation would silently be used) or has no members" % fname, None, None)
            continue
        szf = [f for k, f in spec.items() if k.startswith("size()")]
        szv = show([n for n in walk(szf[0]["body"]) if n["k"] == "Return"][0]["e"]) if szf else None
        if szv != str(N):
            chk.violation(r_inc, fname + ":size", "%s::size() returns %s" % (fname, szv), szf[0]["file"] if szf else None, szf[0]["l"] if szf else None)
        for key in sorted(set(gen) | set(spec)):
            g, s = gen.get(key), spec.get(key)
            if key.startswith(("size()", "valuepos_", "dstart_", "dend_", "length_", "checkDefined_")):
                continue
            programs += 1
            if g is None or s is None:
                disagreements += 1
                chk.instance(r_un, "%s:%s" % (fname, key))
                chk.violation(r_un, "%s:%s" % (fname, key), "member %s exists only in %s" % (key, fname if g is None else "the generic Evaluation.hpp"), (s or g)["file"], (s or g)["l"])
                continue
            a = [render(x, N) for x in unroll(g["body"], N)]
            b = [render(x, N) for x in unroll(s["body"], N)]
            chk.instance(r_un, "%s:%s" % (fname, key), nontrivial=len(a) > 1, sample=dict(N=N, member=key, statements=len(b)))
            if len(samples) < 3 and len(b) > 3 and N in (3, 7):
                samples.append(dict(N=N, member=key, specialised=b[:4], generic_unrolled=a[:4]))
            if a != b:
                disagreements += 1
                # first difference
                i = next((i for i in range(min(len(a), len(b))) if a[i] != b[i]), min(len(a), len(b)))
                chk.violation(r_un, "%s:%s" % (fname, key),
                              "%s::%s differs from the generic implementation unrolled for N=%d at statement %d:\n      specialised: %s\n      generic:     %s" % (
                                  fname, key, N, i + 1, b[i] if i < len(b) else "<missing>", a[i] if i < len(a) else "<missing>"), s["file"], s["l"])
            # slot uniformity inside the specialisation itself
            slot_stmts = {}
            order = []
            for t in b:
                ms = set(SLOT.findall(t))
                if len(ms) == 1 and t.lstrip("(").startswith(("data_[", "result.data_[")):
                    k_ = int(next(iter(ms)))
                    shape = SLOT.sub("data_[#]", t)
                    slot_stmts.setdefault(shape, []).append(k_)
            for shape, ks in slot_stmts.items():
                if len(ks) < 2:
                    continue
                full = list(range(0, N + 1))
                der = list(range(1, N + 1))
                chk.instance(r_sl, "%s:%s:%s" % (fname, key, shape[:40]), sample=dict(N=N, member=key, shape=shape[:80], slots=ks))
                if ks != full and ks != der:
                    chk.violation(r_sl, "%s:%s:%s" % (fname, key, shape[:40]), "%s::%s updates slots %s with `%s`; expected every slot of %s exactly once, in order" % (fname, key, ks, shape, "0..N or 1..N"), s["file"], s["l"])
    # ---- dynamic
    r_dyn = chk.rule("C16.dyn", "DynamicEvaluation.hpp has the members of the generic implementation and - except for the 13 construction/size members that handle the run-time size (decided by C16.dynsize) - identical statement lists, declarations included", floor=45)

    DYN_DIFFERS = {
        "checkDefined_() const": "iterates the dynamic storage explicitly",
        "createBlank(const Evaluation &) static": "run-time size taken from the argument",
        "createConstant(const Evaluation &,const RhsValueType &) static": "run-time size taken from the argument",
        "createConstant(const RhsValueType &) static": "a dynamic evaluation cannot be created without a size: throws by design",
        "createConstant(int,const RhsValueType &) static": "run-time size is the argument, nothing to compare it with",
        "createConstantOne(const Evaluation &) static": "run-time size taken from the argument",
        "createConstantZero(const Evaluation &) static": "run-time size taken from the argument",
        "createVariable(const Evaluation &,const RhsValueType &,int) static": "run-time size taken from the argument",
        "createVariable(const RhsValueType &,int) static": "a dynamic evaluation cannot be created without a size: throws by design",
        "createVariable(int,const RhsValueType &,int) static": "run-time size is the argument",
        "length_() const": "storage length is data_.size()",
        "operator-() const": "result must be sized like *this before it is overwritten",
        "size() const": "number of derivatives is data_.size() - 1",
    }

    # ---- C16.mixed: scalar (op) Evaluation free operators reduce to the member form with the operands the right way round
    r_mx = chk.rule("C16.mixed", "Evaluation.hpp free operators with the scalar on the left: a < b is b > a, a > b is b < a, a <= b is b >= a, a >= b is b <= a, a != b compares a with b's value, a + b and a * b are a copy of b updated with += a / *= a, a - b is -(b - a), a / b is Evaluation(a) /= b", floor=9)
    MIXED = {
        "operator<": ["return ($1 > $0)"], "operator>": ["return ($1 < $0)"], "operator<=": ["return ($1 >= $0)"], "operator>=": ["return ($1 <= $0)"],
        "operator!=": ["return ($0 != $1.value())", "return ($1 != $0)", "return (!($1 == $0))", "return ($1.value() != $0)"],
        "operator+": ["$r = ($1); ($r += $0); return $r", "return ($1 + $0)"],
        "operator*": ["$r = ($1); ($r *= $0); return $r", "return ($1 * $0)"],
        "operator-": ["return (-($1 - $0))", "$r = ($1); ($r -= $0); return (-$r)"],
        "operator/": ["$r = ($0); ($r /= $1); return $r"],
    }
    for f in fx.fns:
        if f.get("cls") or not f.get("body") or f["n"] not in MIXED or not f["file"].endswith("/Evaluation.hpp") or len(f["params"]) != 2:
            continue
        if "Evaluation" in f["params"][0]["t"] or "Evaluation" not in f["params"][1]["t"]:
            continue
        body = stmt_list(f["body"])
        parts = []
        loc = None
        for s_ in body:
            if s_["k"] == "Decl" and len(s_["vars"]) == 1 and isinstance(s_["vars"][0].get("init"), dict):
                loc = s_["vars"][0]["n"]
                ini = s_["vars"][0]["init"]
                kids = ini.get("c") or ini.get("a") or []
                parts.append("$r = (%s)" % (show(kids[0]) if len(kids) == 1 else show(ini)))
            elif s_["k"] == "Return":
                parts.append("return %s" % show(s_.get("e")))
            else:
                parts.append(show(s_))
        txt = "; ".join(parts)
        for i_, p_ in enumerate(f["params"]):
            txt = re.sub(r"(?<![\w$.])%s\b" % re.escape(p_["n"]), "$%d" % i_, txt)
        if loc:
            txt = re.sub(r"(?<![\w$.])%s\b" % re.escape(loc), "$r", txt)
        chk.instance(r_mx, f["n"], sample=dict(function=f["q"], line=f["l"], body=txt))
        if txt not in MIXED[f["n"]]:
            chk.violation(r_mx, f["n"], "scalar %s Evaluation is implemented as `%s` ($0: the scalar, $1: the Evaluation); the all-Evaluation form gives `%s`" % (f["n"][8:], txt, MIXED[f["n"]][0]), f["file"], f["l"])

    # ---- C16.smallvec: the storage of the dynamically sized Evaluation
    r_sv = chk.rule("C16.smallvec", "FastSmallVector (storage of DynamicEvaluation): the data pointer always designates the buffer that holds the elements - the inline buffer when size_ <= N, the heap vector otherwise: every member that sets size_ re-points dataPtr_ accordingly in both branches of its size test (the copy assignment may skip the heap copy only for self-assignment), and the members that set size_ to 0 point it at the inline buffer; element access goes through dataPtr_", floor=5)
    svx = chk.facts([UNIT], files_re=r"^/repo/opm/material/common/FastSmallVector\.hpp$")
    svf = [f for f in svx.fns if (f.get("cls") or "").endswith("FastSmallVector") and f.get("body") is not None]
    if len(svf) < 6:
        raise core.AnalysisBroken("FastSmallVector members not found through %s (%d)" % (UNIT, len(svf)))
    SMALL, LARGE = "(this.dataPtr_ = this.smallBuf_.data())", "(this.dataPtr_ = this.data_.data())"
    n_sv = 0
    for f in svf:
        sets = [n for n in walk(f["body"]) if n["k"] == "Bin" and n.get("asg") and n["op"] == "=" and show(strip(n["c"][0])) == "this.size_"]
        if not sets:
            continue
        key = "%s%s@%d" % (f["n"], f.get("sig", "")[:40], f["l"])
        n_sv += 1
        txt = show(f["body"])
        if all(show(strip(n["c"][1])) == "0" for n in sets):
            ok = SMALL in [show(x) for x in stmt_list(f["body"])]
            chk.instance(r_sv, key, sample=dict(member=f["q"], sets_size_to="0", repoints=ok))
            if not ok:
                chk.violation(r_sv, key, "FastSmallVector::%s sets size_ to 0 without pointing dataPtr_ at the inline buffer" % f["n"], f["file"], f["l"])
            continue
        tests = [n for n in walk(f["body"]) if n["k"] == "If" and show(strip(n["cond"])) in ("(this.size_ <= N)", "(this.size_ > N)", "(N >= this.size_)", "(N < this.size_)")]
        ok = len(tests) == 1
        why = "no single test of size_ against N"
        if ok:
            t = tests[0]
            small_first = show(strip(t["cond"])) in ("(this.size_ <= N)", "(N >= this.size_)")
            br_small = t["then"] if small_first else t.get("else")
            br_large = t.get("else") if small_first else t["then"]
            s_ok = br_small is not None and SMALL in [show(x) for x in walk(br_small) if x["k"] == "Bin"]
            l_ok = br_large is not None and LARGE in [show(x) for x in walk(br_large) if x["k"] == "Bin"]
            ok = s_ok and l_ok
            why = "%s%s" % ("" if s_ok else "the branch for size_ <= N does not set dataPtr_ = smallBuf_.data(); ", "" if l_ok else "the branch for size_ > N does not set dataPtr_ = data_.data()")
        chk.instance(r_sv, key, sample=dict(member=f["q"], size_tests=[show(t["cond"]) for t in tests], ok=ok))
        if not ok:
            chk.violation(r_sv, key, "FastSmallVector::%s (line %d) sets size_ but %s: an object that kept its elements on the heap and is then given an inline-sized content (or the reverse) still reads and writes the old buffer - a re-used DynamicEvaluation returns the previous, larger evaluation" % (f["n"], f["l"], why), f["file"], f["l"])
    acc = [f for f in svf if f["n"] == "operator[]"]
    for f in acc:
        n_sv += 1
        chk.instance(r_sv, "operator[]@%d" % f["l"], sample=dict(body=show(f["body"])))
        if "this.dataPtr_[" not in show(f["body"]):
            chk.violation(r_sv, "operator[]@%d" % f["l"], "FastSmallVector::operator[] no longer reads through dataPtr_", f["file"], f["l"])

    # ---- C16.dynsize: the members that handle the run-time size, decided one by one instead of being exempted
    r_ds = chk.rule("C16.dynsize", "DynamicEvaluation.hpp, run-time size: size() is data_.size() - 1 and length_() is data_.size(); the sized constructors allocate 1 + n entries, zero-filled where a value is given, set the value from their argument and (variable constructor) set entry varPos + dstart_() to 1; the create* factories pass the size of their Evaluation argument (or their count argument) first and their remaining arguments in order (createConstantZero/One: 0 and 1); unary minus negates all length_() entries of a copy of *this", floor=12)
    from verif import symb as sy_

    def cl(t):
        return re.sub(r"Evaluation<[^>]*>", "Evaluation", re.sub(r"Opm::DenseAd::Evaluation<[^>]*>::", "", t))

    def ptext(f, node):
        t = cl(show(node))
        for i_, p_ in enumerate(f["params"]):
            if p_.get("n"):
                t = re.sub(r"(?<![\w$.])%s\b" % re.escape(p_["n"]), "$%d" % i_, t)
        return t

    def pterm(f, node):
        pn_ = [p_.get("n") for p_ in f["params"]]

        def leaf(e):
            m_, o_ = meth(e)
            if m_ == "size" and o_ is not None and cl(show(o_)) in ("this.data_", "data_"):
                return sy_.S("L")
            if m_ == "size" and o_ is not None and strip(o_).get("k") == "Ref" and strip(o_).get("n") in pn_:
                return sy_.S("size($%d)" % pn_.index(strip(o_)["n"]))
            if e.get("k") in ("Call", "MCall") and cl(show(e)) in ("dstart_()", "this.dstart_()"):
                return sy_.S("dstart")
            if e.get("k") == "Ref" and e.get("d") == "Parm" and e.get("n") in pn_:
                return sy_.S("$%d" % pn_.index(e["n"]))
            return None
        return sy_.Eval(leaf, set()).term(node, {})

    def body_texts(f):
        return [ptext(f, s_) for s_ in stmt_list(f["body"]) if "__assert_fail" not in show(s_) and cl(show(s_)).strip() not in ("checkDefined_()", "this.checkDefined_()")]
    L_ = sy_.S("L")
    dyn_all = [f for f in fx.fns if f["file"].endswith("DynamicEvaluation.hpp") and f.get("cls") == "Opm::DenseAd::Evaluation" and f.get("body") is not None]
    n_ds = 0

    def ds(key, f, ok, what, want):
        nonlocal n_ds
        n_ds += 1
        chk.instance(r_ds, key, sample=dict(member=key, line=f["l"], found=what))
        if not ok:
            chk.violation(r_ds, key, "DynamicEvaluation::%s: %s; required: %s" % (key, what, want), f["file"], f["l"])
    for f in dyn_all:
        key = member_key(f)
        body = stmt_list(f["body"]) if f.get("body") else []
        if key in ("size() const", "length_() const"):
            ret = [s_ for s_ in body if s_["k"] == "Return" and isinstance(s_.get("e"), dict)]
            t = pterm(f, ret[0]["e"]) if len(ret) == 1 and len(body) == 1 else None
            want = sy_.add(L_, sy_.I(-1)) if key.startswith("size") else L_
            ds(key, f, t == want, "returns %s (L = data_.size())" % sy_.show_term(t), sy_.show_term(want))
        elif f["n"].startswith("Evaluation<") and f["params"] and f["params"][0]["t"] == "int":
            inits = [i_ for i_ in (f.get("inits") or []) if i_.get("member") == "data_"]
            args = (inits[0]["init"].get("c") or inits[0]["init"].get("a") or []) if inits else []
            t0 = pterm(f, args[0]) if args else None
            ok = t0 == sy_.add(sy_.I(1), sy_.S("$0"))
            found = "data_(%s)" % ", ".join(ptext(f, a_) for a_ in args)
            bt = body_texts(f)
            if len(f["params"]) >= 2:
                ok = ok and len(args) == 2 and show(args[1]) in ("0", "0.0")
                ok = ok and bt[:1] == ["this.setValue($1)"]
            if len(f["params"]) == 3:
                asg = [s_ for s_ in body if s_["k"] == "Bin" and s_.get("asg") and s_["op"] == "="]
                idx_ok = False
                if len(asg) == 1:
                    lhs = strip(asg[0]["c"][0])
                    ix = (lhs.get("c") or lhs.get("a") or [None, None])[1] if lhs.get("k") in ("Idx", "OpCall") else None
                    idx_ok = ix is not None and pterm(f, ix) == sy_.add(sy_.S("$2"), sy_.S("dstart")) and show(asg[0]["c"][1]) in ("1", "1.0") and "data_" in show(lhs)
                ok = ok and idx_ok and len(bt) == 2
            elif len(f["params"]) == 2:
                ok = ok and len(bt) == 1
            else:
                ok = ok and len(args) == 1 and not bt
            ds(key, f, ok, "%s { %s }" % (found, "; ".join(bt)), "data_(1 + $0[, 0]) { setValue($1)[; data_[$2 + dstart_()] = 1] }")
        elif f["n"] in ("createBlank", "createConstantZero", "createConstantOne", "createConstant", "createVariable") and f.get("static"):
            if any(s_["k"] == "Throw" or "throw " in show(s_) for s_ in body):
                continue
            first = "size($0)" if "Evaluation" in f["params"][0]["t"] else "$0"
            rest = {"createBlank": [], "createConstantZero": ["0"], "createConstantOne": ["1"]}.get(f["n"], ["$%d" % i_ for i_ in range(1, len(f["params"]))])
            ok = False
            found = "; ".join(ptext(f, s_) for s_ in body)
            if len(body) == 1 and body[0]["k"] == "Return" and isinstance(body[0].get("e"), dict):
                c = strip(body[0]["e"])
                args = [a_ for a_ in (c.get("a") or c.get("c") or []) if a_.get("k") != "DefArg"]
                if c.get("k") in ("Ctor", "InitList", "Temp", "Call", "?CXXUnresolvedConstructExpr", "UCtor") or "Evaluation" in cl(show(c))[:12]:
                    a0 = pterm(f, args[0]) if args else None
                    ok = a0 == sy_.S(first) and [plain_num(ptext(f, a_)) for a_ in args[1:]] == rest
            ds(key, f, ok, found, "return Evaluation(%s)" % ", ".join([first] + rest))
        elif key == "operator-() const":
            loops_ = [s_ for s_ in body if s_["k"] == "For"]
            ok = False
            if len(loops_) == 1 and len(body) == 3 and body[0]["k"] == "Decl" and body[2]["k"] == "Return":
                lp = loops_[0]
                var = lp["init"]["vars"][0]["n"] if lp.get("init") and lp["init"]["k"] == "Decl" else None
                res = body[0]["vars"][0]["n"]
                lb = [cl(show(s_)) for s_ in stmt_list(lp["body"])]
                ok = (var is not None and "(*this)" in show(body[0]["vars"][0].get("init")) and show(lp["init"]["vars"][0].get("init")) == "0"
                      and cl(show(lp["cond"])) in ("(%s < length_())" % var, "(%s < this.length_())" % var) and show(lp.get("inc")) in ("(++%s)" % var, "(%s++)" % var)
                      and lb == ["(%s.data_[%s] = (-this.data_[%s]))" % (res, var, var)] and show(body[2].get("e")) == res)
            ds(key, f, ok, cl(show(f["body"]))[:200], "copy of *this; for i in 0..length_(): result.data_[i] = -data_[i]; return result")
    chk.extra["dynsize_members"] = n_ds

    def full(f):
        out = []
        for s_ in stmt_list(f["body"]):
            if s_["k"] == "For":
                out.append("for(%s;%s;%s){%s}" % (render(s_.get("init"), None), render(s_.get("cond"), None), render(s_.get("inc"), None),
                                                 " | ".join(render(t, None) for t in inline_locals(stmt_list(s_["body"])))))
            else:
                out.append(render(s_, None))
        return out
    for key in sorted(set(gen) | set(dyn)):
        g, d = gen.get(key), dyn.get(key)
        if g is None or d is None:
            chk.info(r_dyn, "member %s exists only in %s" % (key, "DynamicEvaluation.hpp" if g is None else "Evaluation.hpp"))
            continue
        programs += 1
        a, b = full(g), full(d)
        chk.instance(r_dyn, key, nontrivial=len(a) > 1, sample=dict(member=key, statements=b[:3], allowed_to_differ=key in DYN_DIFFERS))
        if key in DYN_DIFFERS:
            continue
        if a != b:
            disagreements += 1
            i = next((i for i in range(min(len(a), len(b))) if a[i] != b[i]), min(len(a), len(b)))
            chk.violation(r_dyn, key, "DynamicEvaluation::%s differs from the generic implementation at statement %d:\n      dynamic: %s\n      generic: %s" % (
                key, i + 1, b[i] if i < len(b) else "<missing>", a[i] if i < len(a) else "<missing>"), d["file"], d["l"])

    # ---- C16.math
    r_m = chk.rule("C16.math", "every DenseAd math function sets each derivative slot from the same slot of its Evaluation arguments, exactly once, and the value from the scalar function of the same name", floor=20)
    fm = chk.facts(["opm/material/components/H2.cpp"], files_re="^/repo/opm/material/densead/Math.hpp$", fn_re="^Opm::")
    for f in fm.fns:
        if not f["file"].endswith("Math.hpp") or not f.get("body") or f.get("cls"):
            continue
        evalp = [p["n"] for p in f["params"] if "Evaluation" in p["t"]]
        loops = [n for n in walk(f["body"]) if n["k"] == "For" and "setDerivative" in show(n["body"])]
        if not evalp or not loops:
            continue
        key = "%s(%s)" % (f["n"], ",".join(p["t"] for p in f["params"]))
        for lp in loops:
            var = lp["init"]["vars"][0]["n"] if lp.get("init") and lp["init"]["k"] == "Decl" else None
            sets = [c for c in walk(lp["body"]) if (c["k"] in ("MCall", "Call")) and "setDerivative" in show(c)[:80] and len(c.get("a", [])) == 2]
            idxs = []
            for c in walk(lp["body"]):
                if c["k"] in ("MCall", "Call") and (c.get("m") == "derivative" or show(c.get("callee")).endswith(".derivative")) and c.get("a"):
                    idxs.append(show(c["a"][0]))
            tgt = [show(c["a"][0]) for c in sets]
            bound = show(lp.get("cond"))
            chk.instance(r_m, key + "@%d" % lp["l"], sample=dict(function=key, loop_var=var, set_index=tgt, derivative_indices=sorted(set(idxs)), bound=bound))
            if any(t != var for t in tgt) or any(i != var for i in idxs):
                chk.violation(r_m, key + ":index", "%s: derivative slot `%s` is computed from slot(s) %s of the arguments (loop variable %s): the chain rule pairs slot i with slot i" % (f["n"], tgt, sorted(set(idxs)), var), f["file"], lp["l"])
            if len(sets) != 1 and not any(n["k"] == "If" for n in walk(lp["body"])):
                chk.violation(r_m, key + ":once", "%s sets a derivative %d times per slot" % (f["n"], len(sets)), f["file"], lp["l"])
            if not re.search(r"\(%s < .*size\(\)\)" % var, bound or ""):
                chk.violation(r_m, key + ":bound", "%s loops while %s; every slot 0..size()-1 must be written" % (f["n"], bound), f["file"], lp["l"])
            if show(lp.get("inc")) not in ("(++%s)" % var, "(%s++)" % var, "(%s += 1)" % var):
                chk.violation(r_m, key + ":step", "%s advances its derivative loop with %s; every slot 0..size()-1 must be written" % (f["n"], show(lp.get("inc"))), f["file"], lp["l"])
            init = show(lp["init"]["vars"][0].get("init")) if var else None
            if init != "0":
                chk.violation(r_m, key + ":start", "%s starts its derivative loop at %s" % (f["n"], init), f["file"], lp["l"])
            # every Evaluation argument contributes its derivative (unless the function is piecewise constant in it)
            used = {p for p in evalp if re.search(r"\b%s\.derivative\(" % re.escape(p), show(lp["body"]))}
            if used != set(evalp) and f["n"] not in ("max", "min", "abs"):
                chk.violation(r_m, key + ":args", "%s ignores the derivatives of argument(s) %s" % (f["n"], sorted(set(evalp) - used)), f["file"], lp["l"])
    # a result that starts as a copy of an argument carries that argument's derivatives: changing only its value is
    # wrong unless the derivatives are rewritten too (loop over all slots, clearDerivatives, or assignment of a scalar)
    n_copy = 0
    for f in fm.fns:
        if not f["file"].endswith("Math.hpp") or not f.get("body") or f.get("cls"):
            continue
        evalp = {p["n"] for p in f["params"] if "Evaluation" in p["t"]}
        if not evalp:
            continue
        for d in [n for n in walk(f["body"]) if n["k"] == "Decl"]:
            for v in d["vars"]:
                i = v.get("init")
                if i is None or "Evaluation" not in (v.get("t") or ""):
                    continue
                src = [x["n"] for x in walk(i) if x["k"] == "Ref" and x["n"] in evalp]
                if not src:
                    continue
                # the statements that follow the declaration in its own block
                blocks = [b for b in walk(f["body"]) if b["k"] == "Block" and d in b["c"]]
                after = blocks[0]["c"][blocks[0]["c"].index(d) + 1:] if blocks else []
                txt = " ".join(show(x) for x in after)
                name = v["n"]
                sets_value = re.search(r"\b%s\.setValue\(" % re.escape(name), txt) is not None
                rewrites = (re.search(r"\b%s\.setDerivative\(" % re.escape(name), txt) is not None or
                            re.search(r"\b%s\.clearDerivatives\(" % re.escape(name), txt) is not None or
                            re.search(r"\(%s [-+*/]?= " % re.escape(name), txt) is not None)
                if not sets_value:
                    continue
                n_copy += 1
                key = "%s(%s):%s" % (f["n"], ",".join(p["t"] for p in f["params"]), name)
                chk.instance(r_m, key + ":copy", sample=dict(function=f["n"], result=name, copy_of=src[0], sets_value=True, rewrites_derivatives=rewrites))
                if not rewrites:
                    chk.violation(r_m, key + ":copy", "%s: `%s` is a copy of `%s` whose value is then replaced (setValue) while its derivatives are neither rewritten slot by slot nor cleared: the result keeps the derivatives of %s" % (f["n"], name, src[0], src[0]), f["file"], d["l"])
    chk.extra["math_results_copied_from_argument"] = n_copy
    chk.level = "translation_validation"
    chk.extra.update(programs=programs, disagreements_checked=disagreements,
                     samples=samples or [dict(note="no multi-statement members sampled")])
    # ---- C16.deriv: the derivative factor of every elementary function
    r_dv = chk.rule("C16.deriv", "DenseAd math functions (Math.hpp): the factor that multiplies the argument's derivatives is the derivative of the function - tan: 1 + tan^2, atan: 1/(1+x^2), sin: cos, asin: 1/sqrt(1-x^2), sinh: cosh, asinh: 1/sqrt(x^2+1), cos: -sin, acos: -1/sqrt(1-x^2), cosh: sinh, acosh: 1/sqrt(x^2-1), sqrt: 0.5/sqrt, exp: exp, log: 1/x, log10: log10(e)/x, pow(x,c): c x^c / x, pow(b,x): ln(b) b^x - compared as symbolic terms with the locals inlined", floor=14)
    from verif import symb as sy
    X_ = sy.S("X")

    def F(nm, *a):
        return sy.S("%s(%s)" % (nm, ",".join(sy.show_term(t) for t in a)))
    one = sy.I(1)
    xx = sy.mul(X_, X_)
    WANT_DV = {
        "tan": [sy.add(one, sy.mul(F("tan", X_), F("tan", X_)))],
        "atan": [sy.div(one, sy.add(one, xx))],
        "sin": [F("cos", X_)],
        "asin": [sy.div(one, F("sqrt", sy.add(one, sy.mul(sy.I(-1), xx))))],
        "sinh": [F("cosh", X_)],
        "asinh": [sy.div(one, F("sqrt", sy.add(xx, one)))],
        "cos": [sy.mul(sy.I(-1), F("sin", X_))],
        "acos": [sy.mul(sy.I(-1), sy.div(one, F("sqrt", sy.add(one, sy.mul(sy.I(-1), xx))))), sy.div(sy.I(-1), F("sqrt", sy.add(one, sy.mul(sy.I(-1), xx))))],
        "cosh": [F("sinh", X_)],
        "acosh": [sy.div(one, F("sqrt", sy.add(xx, sy.I(-1))))],
        "sqrt": [sy.div(sy.S("0.5"), F("sqrt", X_))],
        "exp": [F("exp", X_)],
        "log": [sy.div(one, X_)],
        "log10": [sy.mul(sy.div(one, X_), F("log10", F("exp", one)))],
        "pow:base": [sy.mul(sy.div(F("pow", X_, sy.S("C")), X_), sy.S("C"))],
        "pow:exp": [sy.mul(F("log", sy.S("C")), F("exp", sy.mul(F("log", sy.S("C")), X_))), sy.mul(F("log", sy.S("C")), sy.S("value(result)"))],
    }
    seen_dv = set()
    for f in fm.fns:
        if not f["file"].endswith("Math.hpp") or not f.get("body") or f.get("cls"):
            continue
        dfs = [v for n in walk(f["body"]) if n["k"] == "Decl" for v in n["vars"] if v["n"] == "df_dx" and isinstance(v.get("init"), dict)]
        if len(dfs) != 1:
            continue
        evp = [p_["n"] for p_ in f["params"] if "Evaluation" in (p_.get("t") or "")]
        scp = [p_["n"] for p_ in f["params"] if "Evaluation" not in (p_.get("t") or "")]
        if len(evp) != 1:
            continue
        name = f["n"]
        if name == "pow":
            name = "pow:base" if f["params"][0]["n"] == evp[0] else "pow:exp"

        def leaf_d(e, evp=evp, scp=scp):
            m_, o_ = meth(e)
            if m_ == "value" and o_ is not None and strip(o_).get("k") == "Ref":
                return X_ if strip(o_)["n"] == evp[0] else sy.S("value(%s)" % strip(o_)["n"])
            if e.get("k") == "Ref" and e.get("d") == "Parm" and e.get("n") in scp:
                return sy.S("C")
            if e.get("k") in ("Call", "MCall") and e.get("a") is not None:
                nm = (e.get("m") or (e.get("fn") or "") or ((e.get("callee") or {}).get("n") or "")).split("::")[-1]
                if nm in ("tan", "cos", "sin", "cosh", "sinh", "sqrt", "exp", "log", "log10", "pow"):
                    args = [ev_d.term(a_, env_d) for a_ in e["a"]]
                    if None not in args:
                        return F(nm, *args)
            return None
        locs_d = {v["n"] for n in walk(f["body"]) if n["k"] == "Decl" for v in n["vars"]}
        ev_d = sy.Eval(leaf_d, locs_d)
        env_d = {}
        # locals in source order up to df_dx (declarations may sit in nested blocks)
        for n in walk(f["body"]):
            if n["k"] == "Decl":
                for v in n["vars"]:
                    if isinstance(v.get("init"), dict) and v["n"] != "result":
                        env_d[v["n"]] = ev_d.term(v["init"], env_d)
        got = env_d.get("df_dx")
        seen_dv.add(name)
        ok = name in WANT_DV and got in WANT_DV[name]
        chk.instance(r_dv, name, sample=dict(function=f["q"], factor=sy.show_term(got), expected=sy.show_term(WANT_DV[name][0]) if name in WANT_DV else None))
        if name not in WANT_DV:
            raise core.AnalysisBroken("Math.hpp: function %s has a derivative factor but no entry in the derivative table of rules/C16.py" % name)
        if not ok:
            chk.violation(r_dv, name, "DenseAd::%s multiplies the argument's derivatives with %s; the derivative of the function is %s: the value stays right and every derivative delivered through the chain rule is wrong" % (f["n"], sy.show_term(got), sy.show_term(WANT_DV[name][0])), f["file"], dfs[0]["l"])
    missing = sorted(set(WANT_DV) - seen_dv)
    if missing:
        raise core.AnalysisBroken("Math.hpp: derivative factor not found for %s" % missing)

    X2, Y2, dX2, dY2 = sy.S("X"), sy.S("Y"), sy.S("dX"), sy.S("dY")
    # ---- C16.value: the value stored by every math function; the zero-base case of pow; the toolbox forwarders
    r_val = chk.rule("C16.value", "DenseAd math functions (Math.hpp): the result's value is set exactly once, outside the derivative loop, to the scalar function of the same name applied to the values of the arguments in order (pow(scalar, Evaluation): exp(ln(base) x)); the three pow overloads single out base == 0 (result 0, no derivatives computed) and run the general code otherwise; every member of MathToolbox<Evaluation> named like a DenseAd function returns DenseAd::<that name>(its arguments in order)", floor=40)
    n_val = 0
    for f in fm.fns:
        if not f["file"].endswith("Math.hpp") or not f.get("body") or f.get("cls") or not f["q"].startswith("Opm::DenseAd::"):
            continue
        pn = [p_["n"] for p_ in f["params"]]
        evp = [p_["n"] for p_ in f["params"] if "Evaluation" in (p_.get("t") or "")]
        loops = [n for n in walk(f["body"]) if n["k"] == "For" and "setDerivative" in show(n["body"])]
        if not evp or not loops:
            continue
        key = "%s(%s)" % (f["n"], ",".join("E" if x in evp else "s" for x in pn))
        in_loop = {id(c) for lp in loops for c in walk(lp)}
        svs = [c for c in walk(f["body"]) if c["k"] in ("MCall", "Call") and meth(c)[0] == "setValue" and len(c.get("a") or []) == 1]
        chk.instance(r_val, key + ":value", sample=dict(function=f["q"], setValue_calls=[c["l"] for c in svs]))
        n_val += 1
        if len(svs) != 1 or id(svs[0]) in in_loop:
            chk.violation(r_val, key + ":value", "DenseAd::%s sets the value of its result %d time(s)%s: the result is a copy of an argument, so without exactly one setValue outside the derivative loop it carries the argument's value" % (key, len(svs), " (inside the derivative loop)" if svs and id(svs[0]) in in_loop else ""), f["file"], f["l"])
            continue

        def leaf_v(e, pn=pn, evp=evp):
            m_, o_ = meth(e)
            if m_ == "value" and o_ is not None and strip(o_).get("k") == "Ref" and strip(o_)["n"] in pn:
                return (X2, Y2)[pn.index(strip(o_)["n"])]
            if e.get("k") == "Ref" and e.get("d") == "Parm" and e.get("n") in pn and e["n"] not in evp:
                return (X2, Y2)[pn.index(e["n"])]
            if e.get("k") in ("Call", "MCall") and e.get("a") is not None:
                nm = (e.get("m") or (e.get("fn") or "") or ((e.get("callee") or {}).get("n") or "")).split("::")[-1]
                if nm and nm not in ("value", "derivative", "size"):
                    args = [ev_v.term(a_, env_v) for a_ in e["a"]]
                    if None not in args:
                        return F(nm, *args)
            return None
        locs_v = {v["n"] for n in walk(f["body"]) if n["k"] == "Decl" for v in n["vars"]}
        ev_v = sy.Eval(leaf_v, locs_v)
        env_v = {}
        for n in walk(f["body"]):
            if n["k"] == "Decl" and id(n) not in in_loop:
                for v in n["vars"]:
                    if isinstance(v.get("init"), dict) and v["n"] != "result":
                        env_v[v["n"]] = ev_v.term(v["init"], env_v)
        got = ev_v.term(svs[0]["a"][0], env_v)
        args_v = [(X2, Y2)[i] for i in range(len(pn))]
        want_v = [F(f["n"], *args_v)]
        if f["n"] == "pow" and pn[0] not in evp:
            want_v.append(F("exp", sy.mul(F("log", X2), Y2)))
        if got not in want_v:
            chk.violation(r_val, key + ":value", "DenseAd::%s sets the value of its result to  %s  (X, Y: values of the arguments); the function value is  %s" % (key, sy.show_term(got), sy.show_term(want_v[0])), f["file"], svs[0]["l"])
        if f["n"] == "pow":
            ifs = [n for n in stmt_list(f["body"]) if n["k"] == "If"]
            ok0 = False
            for n in ifs:
                c = strip(n["cond"])
                is_eq = c.get("op") == "==" and len(c.get("c") or c.get("a") or []) == 2
                if not is_eq:
                    continue
                a0, b0 = (c.get("c") or c.get("a"))
                if not (strip(a0).get("k") == "Ref" and strip(a0)["n"] == pn[0] and show(b0) in ("0", "0.0")):
                    continue
                th, el = show(n["then"]), show(n.get("else")) if n.get("else") is not None else ""
                ok0 = "(result = 0)" in plain_num(th) and "setDerivative" not in th and "setDerivative" in el
            chk.instance(r_val, key + ":zero", sample=dict(function=f["q"], conditions=[show(n["cond"]) for n in ifs]))
            n_val += 1
            if not ok0:
                chk.violation(r_val, key + ":zero", "DenseAd::%s: no statement `if (%s == 0) result = 0; else <general code>` at function level (conditions found: %s): the general formulas divide by the base / take its logarithm, and with the test inverted every non-zero base gives 0" % (key, pn[0], [show(n["cond"]) for n in ifs]), f["file"], f["l"])
    dense_names = {f["n"] for f in fm.fns if f["q"].startswith("Opm::DenseAd::") and not f.get("cls")}
    for f in fm.fns:
        if not f.get("cls") or "MathToolbox" not in f["cls"] or f["n"] not in dense_names or not f.get("body"):
            continue
        pn = [p_["n"] for p_ in f["params"]]
        key = "MathToolbox::%s@%d" % (f["n"], f["l"])
        body = stmt_list(f["body"])
        txt = show(body[0]) if len(body) == 1 else None
        want_t = "return DenseAd::%s(%s)" % (f["n"], ", ".join(pn))
        chk.instance(r_val, key, sample=dict(function=f["q"], body=txt))
        n_val += 1
        fwd = False
        if len(body) == 1 and body[0]["k"] == "Return" and isinstance(body[0].get("e"), dict):
            c = strip(body[0]["e"])
            cal = c.get("callee") or {}
            cname = (cal.get("qual") or "") + (cal.get("n") or c.get("fn") or "")
            args_ = [strip(a_) for a_ in (c.get("a") or [])]
            fwd = (c.get("k") == "Call" and cname.split("::")[-1] == f["n"] and "DenseAd" in cname
                   and [a_.get("n") for a_ in args_ if a_.get("k") == "Ref"] == pn and len(args_) == len(pn))
        if not fwd:
            chk.violation(r_val, key, "MathToolbox<Evaluation>::%s does `%s`; it forwards to the free function of the same name with its arguments in order (`%s`)" % (f["n"], txt, want_t), f["file"], f["l"])

    # ---- C16.deriv2: functions of two arguments - the expression stored in each derivative slot, as a rational function
    r_d2 = chk.rule("C16.deriv2", "DenseAd functions of two arguments (Math.hpp atan2 in its three overloads, pow(Evaluation, Evaluation)): the expression stored in derivative slot i equals the total derivative  f_x dx_i + f_y dy_i  - atan2: (dx y - x dy)/(x^2 + y^2), pow: (g f'/f + ln f g') f^g - compared as rational functions of the values and slot-i derivatives of the arguments (a scalar argument has derivative 0)", floor=4)
    seen_d2 = 0
    for f in fm.fns:
        if not f["file"].endswith("Math.hpp") or not f.get("body") or f.get("cls") or len(f["params"]) != 2:
            continue
        if f["n"] not in ("atan2", "pow"):
            continue
        evp = [p_["n"] for p_ in f["params"] if "Evaluation" in (p_.get("t") or "")]
        if f["n"] == "pow" and len(evp) != 2:
            continue
        pn = [p_["n"] for p_ in f["params"]]
        sets = [c for c in walk(f["body"]) if c["k"] in ("MCall", "Call") and meth(c)[0] == "setDerivative" and len(c.get("a") or []) == 2]
        key = "%s(%s)" % (f["n"], ",".join("E" if p_["n"] in evp else "s" for p_ in f["params"]))
        if len(sets) != 1:
            raise core.AnalysisBroken("Math.hpp: %s has %d setDerivative calls (one expected)" % (key, len(sets)))

        def leaf2(e, pn=pn, evp=evp):
            m_, o_ = meth(e)
            if m_ in ("value", "derivative") and o_ is not None and strip(o_).get("k") == "Ref" and strip(o_)["n"] in pn:
                i = pn.index(strip(o_)["n"])
                if m_ == "value":
                    return (X2, Y2)[i]
                return (dX2, dY2)[i] if strip(o_)["n"] in evp else None
            if e.get("k") == "Ref" and e.get("d") == "Parm" and e.get("n") in pn and e["n"] not in evp:
                return (X2, Y2)[pn.index(e["n"])]
            if e.get("k") in ("Call", "MCall") and e.get("a") is not None:
                nm = (e.get("m") or (e.get("fn") or "") or ((e.get("callee") or {}).get("n") or "")).split("::")[-1]
                if nm in ("log", "pow", "exp", "sqrt"):
                    args = [ev2.term(a_, env2) for a_ in e["a"]]
                    if None not in args:
                        return F(nm, *args)
            return None
        locs2 = {v["n"] for n in walk(f["body"]) if n["k"] == "Decl" for v in n["vars"]}
        ev2 = sy.Eval(leaf2, locs2)
        env2 = {}
        for n in walk(f["body"]):
            if n["k"] == "Decl":
                for v in n["vars"]:
                    if isinstance(v.get("init"), dict) and v["n"] != "result":
                        env2[v["n"]] = ev2.term(v["init"], env2)
        got = ev2.term(sets[0]["a"][1], env2)
        dx = dX2 if pn[0] in evp else sy.I(0)
        dy = dY2 if pn[1] in evp else sy.I(0)
        if f["n"] == "atan2":
            want = sy.div(sy.sub(sy.mul(dx, Y2), sy.mul(X2, dy)), sy.add(sy.mul(X2, X2), sy.mul(Y2, Y2)))
        else:
            want = sy.mul(sy.add(sy.div(sy.mul(Y2, dx), X2), sy.mul(F("log", X2), dy)), F("pow", X2, Y2))
        seen_d2 += 1
        chk.instance(r_d2, key, sample=dict(function=f["q"], line=sets[0]["l"], stored=sy.show_term(got), total_derivative=sy.show_term(want)))
        if got is None or not sy.same_ratio(got, want):
            chk.violation(r_d2, key, "DenseAd::%s stores  %s  in derivative slot i (X, Y: values of the arguments, dX, dY: their slot-i derivatives); the total derivative is  %s: the value is right and the derivatives are wrong" % (key, sy.show_term(got), sy.show_term(want)), f["file"], sets[0]["l"])
    if seen_d2 < 4:
        raise core.AnalysisBroken("Math.hpp: %d two-argument derivative sites found (atan2 x3, pow(E,E) expected)" % seen_d2)

    chk.assumptions += ["loop unrolling with dstart_()=1, dend_()=length_()=N+1, valuepos_()=0, size()=N as declared in each specialisation (checked by C16.included)",
                        "the derivative factors of Math.hpp are compared with the table of elementary derivatives in rules/C16.py (C16.deriv); abs, min, max and the blending helpers are not in it; atan2 and pow(E,E) are compared as rational functions (C16.deriv2)"]
