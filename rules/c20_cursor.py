"""Cursor discipline for hand-written token scanners (part of C20).

A *cursor* is an integer that a function (local cursor) or a class (member cursor) both compares with `V.size()` and uses
to subscript `V`, and that is advanced by statements of the code itself (not only by a for-header).  For every cursor the
analysis runs a small branch-sensitive typestate over the structured AST:

    INB   it is known that idx < V.size()          UNK   nothing is known (idx <= V.size() by induction, see below)

    V[idx]                     requires INB
    ++idx / idx += 1 / next()  leaves UNK; if the code tests the end with EQUALITY (idx == V.size()) the advance itself
                               requires INB: a cursor that steps from size() to size()+1 is never caught by an equality test
    idx < size (true) / idx >= size (false) / idx != size (true) / idx == size (false)      establish INB

Facts are killed by every modification of the cursor and by every call that may advance a member cursor.  Knowledge about
a token fetched from the cursor position (`auto curr = current(); if (curr.type == X)`) establishes INB while `curr` is
fresh, because the fetch returns the `end` token exactly when the cursor is at the end.

Decides only this discipline (a necessary condition for the absence of out-of-bounds token reads); nothing about other
index arithmetic.
"""
from verif.tree import walk, show, strip, meth, stmt_list

CMP = ("<", ">=", "==", "!=", "<=", ">")
FLIP = {"<": ">", ">": "<", "<=": ">=", ">=": "<=", "==": "==", "!=": "!="}


def subscript(n):
    if n["k"] == "Idx":
        return n["c"][0], n["c"][1]
    if n["k"] == "OpCall" and n.get("op") == "[]" and len(n.get("a", [])) == 2:
        return n["a"][0], n["a"][1]
    m, o = meth(n)
    if m == "at" and o is not None and len(n.get("a", [])) == 1:
        return None          # .at() is checked
    return None


def kids(n):
    """Child expression/statement nodes in source order, not descending into lambdas."""
    out = []
    for k, v in n.items():
        if k in ("k", "l", "t", "fn", "pt", "targs", "n", "q", "d", "dl", "ev", "fv", "m", "cls", "op"):
            continue
        if isinstance(v, dict) and "k" in v:
            out.append(v)
        elif isinstance(v, list):
            for x in v:
                if isinstance(x, dict) and "k" in x:
                    out.append(x)
                elif isinstance(x, dict):
                    for y in x.values():
                        if isinstance(y, dict) and "k" in y:
                            out.append(y)
    return out


def walk_nl(n):
    """Pre-order walk that does not enter lambda bodies."""
    stack = [n]
    while stack:
        x = stack.pop()
        yield x
        if x["k"] == "Lambda":
            continue
        stack.extend(reversed(kids(x)))


class Cursor:
    """What identifies the cursor and its container in expressions."""

    def __init__(self, idx, cont, member=False, cls=None):
        self.idx, self.cont, self.member, self.cls = idx, cont, member, cls

    def is_idx(self, e):
        e = strip(e)
        if self.member:
            return e["k"] == "Mem" and e["n"] == self.idx and (e.get("cls") in (None, self.cls)) and strip(e.get("b") or {"k": "This"})["k"] in ("This",)
        return e["k"] == "Ref" and e.get("d") in ("Var", "Parm") and e["n"] == self.idx

    def is_cont(self, e):
        e = strip(e)
        if self.member:
            return e["k"] == "Mem" and e["n"] == self.cont and strip(e.get("b") or {"k": "This"})["k"] in ("This",)
        return show(e) == self.cont

    def is_size(self, e):
        e = strip(e)
        m, o = meth(e)
        return m in ("size", "length") and o is not None and self.is_cont(o)


class Analysis:
    def __init__(self, cur, fn, eqmode, advance=(), fetch=(), atend=(), may_advance=(), token_end=None, token_preds_ok=True):
        self.c, self.fn, self.eqmode = cur, fn, eqmode
        self.advance, self.fetch, self.atend, self.may_advance = set(advance), set(fetch), set(atend), set(may_advance)
        self.reports = []      # (kind, line, text)
        self.instances = []    # (kind, line, text, ok)
        self.fresh = set()     # token variables that describe the current cursor position
        self.zero = False      # cursor currently holds the literal 0
        self.nonempty = False  # container known non-empty
        self.flags = {}        # bool var -> (inb_if_true, inb_if_false)
        self.breaks = []

    # -- events -------------------------------------------------------------------------------
    def call_name(self, n):
        m, o = meth(n)
        if m and o is not None and strip(o)["k"] == "This":
            return m
        if n["k"] == "MCall" and n.get("m") and strip(n.get("obj") or {"k": "This"})["k"] == "This":
            return n["m"]
        return None

    def kill(self):
        self.fresh.clear()
        self.flags.clear()
        self.zero = False

    def events(self, e, st):
        """Process subscripts, advances and other modifications inside an expression (evaluation order approximated by
        source order; ?: and && || are evaluated branch-sensitively); returns the state after it."""
        if e is None:
            return st
        c = self.c
        n = e
        k = n["k"]
        if k == "Lambda":
            return st
        if k == "Cond" and len(n.get("c", [])) == 3:
            t, f = self.cond(n["c"][0], st)
            a = self.events(n["c"][1], t)
            b = self.events(n["c"][2], f)
            return min(a, b)
        if k == "Bin" and n.get("op") in ("&&", "||"):
            t, f = self.cond(n, st)
            return min(t, f)
        s = subscript(n)
        if s and c.is_cont(s[0]) and self.idx_plus(s[1]) is not None:
            self.instances.append(("subscript", n["l"], show(n)[:60], st))
            if int(st) < self.idx_plus(s[1]) + 1:
                self.reports.append(("subscript", n["l"], "`%s` is read while nothing on this path has established %s < %s.size() since the cursor was last advanced" % (show(n)[:50], c.idx, c.cont)))
        for ch in kids(n):
            st = self.events(ch, st)
        mod = None
        if k == "Un" and ("++" in (n.get("op") or "") or "--" in (n.get("op") or "")) and n.get("c") and c.is_idx(n["c"][0]):
            mod = "inc" if "++" in n["op"] else "dec"
        elif k == "Bin" and n.get("asg") and c.is_idx(n["c"][0]):
            rhs = strip(n["c"][1])
            if n["op"] == "+=":
                mod = "inc"
            elif n["op"] == "-=":
                mod = "dec"
            else:
                mod = "set"
        elif c.member and k in ("MCall", "Call"):
            nm = self.call_name(n)
            if nm in self.advance:
                mod = "inc"
            elif nm in self.may_advance:
                mod = "set"
        elif not c.member and k in ("MCall", "Call", "Ctor"):
            # the cursor handed to a callee by non-const reference may be changed there
            for a, pt in zip(n.get("a", []), n.get("pt", []) or []):
                if c.is_idx(a) and pt.rstrip().endswith("&") and not pt.lstrip().startswith("const"):
                    mod = "set"
        if mod == "inc":
            self.instances.append(("advance", n["l"], show(n)[:60], st))
            if self.eqmode and not st:
                self.reports.append(("advance", n["l"], "`%s` advances the cursor although it may already be at %s.size(); the end of input is tested with equality, so a cursor that steps past the end is never detected and the next fetch reads out of bounds" % (show(n)[:50], c.cont)))
            st = max(int(st) - 1, 0)
            self.kill()
        elif mod == "set":
            st = 0
            self.kill()
            if k == "Bin":
                rhs = strip(n["c"][1])
                self.zero = rhs["k"] == "Int" and rhs["v"] == 0
        elif mod == "dec":
            self.kill()
        return st

    def modifies(self, body):
        """Syntactic: does the statement contain anything that can move the cursor?"""
        c = self.c
        for n in walk_nl(body):
            k = n["k"]
            if k == "Un" and ("++" in (n.get("op") or "") or "--" in (n.get("op") or "")) and n.get("c") and c.is_idx(n["c"][0]):
                return True
            if k == "Bin" and n.get("asg") and c.is_idx(n["c"][0]):
                return True
            if c.member and k in ("MCall", "Call") and (self.call_name(n) in self.advance or self.call_name(n) in self.may_advance):
                return True
            if not c.member and k in ("MCall", "Call", "Ctor"):
                for a, pt in zip(n.get("a", []), n.get("pt", []) or []):
                    if c.is_idx(a) and pt.rstrip().endswith("&") and not pt.lstrip().startswith("const"):
                        return True
        return False

    # -- conditions ---------------------------------------------------------------------------
    def token_fact(self, e):
        """('eq'|'ne', is_end) if e compares <fresh token var>.type with an enumerator, or ('pred',) for P(var.type)."""
        e = strip(e)
        if e["k"] == "Bin" and e.get("op") in ("==", "!="):
            a, b = strip(e["c"][0]), strip(e["c"][1])
            for x, y in ((a, b), (b, a)):
                if x["k"] == "Mem" and x["n"] == "type" and strip(x.get("b") or {}).get("k") == "Ref" and strip(x["b"])["n"] in self.fresh and y["k"] == "Ref" and y.get("d") == "Enum":
                    return e["op"], y["n"] == "end"
                # direct call:  this->current().type == X
                if x["k"] == "Mem" and x["n"] == "type" and x.get("b") is not None and self.call_name(strip(x["b"])) in self.fetch and y["k"] == "Ref" and y.get("d") == "Enum":
                    return e["op"], y["n"] == "end"
        if e["k"] == "Call" and len(e.get("a", [])) == 1:
            a = strip(e["a"][0])
            if a["k"] == "Mem" and a["n"] == "type" and strip(a.get("b") or {}).get("k") == "Ref" and strip(a["b"])["n"] in self.fresh:
                return ("pred",)
        return None

    def idx_plus(self, e):
        """k if e is `idx` (k = 0) or `idx + k` with a literal k, else None."""
        e = strip(e)
        if self.c.is_idx(e):
            return 0
        if e["k"] == "Bin" and e.get("op") == "+" and not e.get("asg"):
            a, b = strip(e["c"][0]), strip(e["c"][1])
            if self.c.is_idx(a) and b["k"] == "Int":
                return b["v"]
            if self.c.is_idx(b) and a["k"] == "Int":
                return a["v"]
        return None

    def cond(self, e, st):
        """(state if true, state if false) after evaluating e from state st."""
        e0 = strip(e)
        c = self.c
        k = e0["k"]
        if k == "Bin" and e0.get("op") == "&&":
            aT, aF = self.cond(e0["c"][0], st)
            bT, bF = self.cond(e0["c"][1], aT)
            return bT, min(aF, bF)
        if k == "Bin" and e0.get("op") == "||":
            aT, aF = self.cond(e0["c"][0], st)
            bT, bF = self.cond(e0["c"][1], aF)
            return min(aT, bT), bF
        if k == "Un" and e0.get("op") == "!":
            t, f = self.cond(e0["c"][0], st)
            return f, t
        tf = self.token_fact(e0)
        if tf is not None:
            st = self.events(e0, st)
            one = max(int(st), 1)
            if tf == ("pred",):
                return one, st
            op, is_end = tf
            if is_end:
                return (st, one) if op == "==" else (one, st)
            return (one, st) if op == "==" else (st, one)
        if k == "Bin" and e0.get("op") in CMP:
            a, b = e0["c"][0], e0["c"][1]
            op, off = None, 0
            if self.idx_plus(a) is not None and c.is_size(b):
                op, off = e0["op"], self.idx_plus(a)
            elif self.idx_plus(b) is not None and c.is_size(a):
                op, off = FLIP[e0["op"]], self.idx_plus(b)
            if op is not None:
                # idx + off < size  means off + 1 further subscripts/advances are in bounds
                known = max(int(st), off + 1)
                if op == "<" or (op == "!=" and off == 0):
                    return known, st
                if op == ">=" or (op == "==" and off == 0):
                    return st, known
                return st, st
            st = self.events(e0, st)
            return st, st
        nm = self.call_name(e0) if k in ("MCall", "Call") else None
        if nm in self.atend:
            return st, max(int(st), 1)
        m, o = meth(e0)
        if m == "empty" and o is not None and c.is_cont(o):
            if self.zero:
                return st, max(int(st), 1)
            return st, st
        if k == "Ref" and e0["n"] in self.flags:
            t, f = self.flags[e0["n"]]
            return max(int(st), int(t)), max(int(st), int(f))
        st = self.events(e0, st)
        return st, st

    # -- statements ---------------------------------------------------------------------------
    def run(self, s, st):
        """Returns the state after s, or None if control does not fall through."""
        if s is None or st is None:
            return st
        k = s["k"]
        if k == "Block":
            for x in s["c"]:
                st = self.run(x, st)
                if st is None:
                    return None
            return st
        if k == "If":
            if isinstance(s.get("init"), dict):
                st = self.run(s["init"], st)
            t, f = self.cond(s["cond"], st)
            after = (set(self.fresh), dict(self.flags), self.zero)
            a = self.run(s["then"], t)
            fresh_a, flags_a, zero_a = set(self.fresh), dict(self.flags), self.zero
            self.fresh, self.flags, self.zero = set(after[0]), dict(after[1]), after[2]
            b = self.run(s["else"], f) if s.get("else") else f
            fresh_b, flags_b, zero_b = set(self.fresh), dict(self.flags), self.zero
            if a is None and b is None:
                return None
            if a is None:
                self.fresh, self.flags, self.zero = fresh_b, flags_b, zero_b
                return b
            if b is None:
                self.fresh, self.flags, self.zero = fresh_a, flags_a, zero_a
                return a
            self.fresh = fresh_a & fresh_b
            self.flags = {v: x for v, x in flags_a.items() if flags_b.get(v) == x}
            self.zero = zero_a and zero_b
            return min(a, b)
        if k in ("While", "For", "Do"):
            if k == "For" and isinstance(s.get("init"), dict):
                st = self.run(s["init"], st)
            entry = st
            n_rep, n_inst = len(self.reports), len(self.instances)
            for _ in range(3):
                del self.reports[n_rep:]
                del self.instances[n_inst:]
                saved_breaks, self.breaks = self.breaks, []
                self.conts = []
                self.kill() if _ else None
                cur = entry
                exit_f = None
                if k != "Do" and s.get("cond") is not None:
                    cur, exit_f = self.cond(s["cond"], cur)
                body_end = self.run(s["body"], cur)
                ends = [x for x in [body_end] + self.conts if x is not None]
                back = min(ends) if ends else None
                if back is not None and k == "For" and s.get("inc") is not None:
                    back = self.events(s["inc"], back)
                if back is not None and k == "Do" and s.get("cond") is not None:
                    back, exit_f = self.cond(s["cond"], back)
                brk = self.breaks
                self.breaks = saved_breaks
                new_entry = entry if back is None else min(entry, back)
                if new_entry == entry:
                    break
                entry = new_entry
            exits = list(brk)
            if s.get("cond") is not None and exit_f is not None:
                exits.append(exit_f)
            elif s.get("cond") is not None and k != "Do":
                # cond exists but body never falls through on first evaluation: exit via the condition from entry
                exits.append(self.cond(s["cond"], entry)[1])
            self.kill()
            if not exits:
                return None
            return min(exits)
        if k == "Break":
            self.breaks.append(st)
            return None
        if k == "Continue":
            if hasattr(self, "conts"):
                self.conts.append(st)
            return None
        if k in ("Return", "Throw"):
            if s.get("e") is not None:
                self.events(s["e"], st)
            return None
        if k == "Decl":
            for v in s["vars"]:
                i = v.get("init")
                if i is None:
                    continue
                i0 = strip(i)
                # token fetched from the cursor position
                nm = self.call_name(i0) if i0["k"] in ("MCall", "Call") else None
                if i0["k"] == "Ctor" and len(i0.get("a", [])) == 1 and strip(i0["a"][0])["k"] in ("MCall", "Call"):
                    nm = self.call_name(strip(i0["a"][0]))
                if nm in self.fetch or nm in self.advance:
                    st = self.events(i, st)
                    self.fresh.add(v["n"])
                    continue
                if (v.get("t") or "").replace("const ", "") == "bool":
                    t, f = self.cond(i, st)
                    self.flags[v["n"]] = (int(t), int(f))
                    continue
                st = self.events(i, st)
                if not self.c.member and v["n"] == self.c.idx:
                    st = 0
                    self.zero = i0["k"] == "Int" and i0["v"] == 0
                    if self.zero and getattr(self, "nonempty", False):
                        st = 1
                    # a position taken from the container's own index of existing elements (Deck::index(keyword) lists the
                    # positions at which the keyword occurs) is a valid subscript
                    src_ = i0
                    if src_.get("k") == "Ref" and src_.get("d") == "Var":
                        defs_ = [w for d_ in walk_nl(self.fn["body"]) if d_["k"] == "Decl" for w in d_["vars"] if w["n"] == src_["n"] and w.get("init") is not None]
                        asg_ = [d_ for d_ in walk_nl(self.fn["body"]) if d_["k"] == "Bin" and d_.get("asg") and strip(d_["c"][0]).get("n") == src_["n"]]
                        if len(defs_) == 1 and not asg_:
                            src_ = strip(defs_[0]["init"])
                    m_, o_ = meth(src_)
                    if m_ in ("front", "back") and o_ is not None:
                        m2, o2 = meth(strip(o_))
                        if m2 == "index" and o2 is not None and self.c.is_cont(o2):
                            st = 1
            return st
        if k in ("ForRange", "Switch"):
            if k == "Switch":
                st = self.events(s["cond"], st)
            elif isinstance(s.get("range"), dict):
                st = self.events(s["range"], st)
            if not self.modifies(s["body"]):
                # the body cannot move the cursor: facts survive; subscripts inside are checked against the state on entry
                saved = (set(self.fresh), dict(self.flags), self.zero)
                saved_breaks, self.breaks = self.breaks, []
                self.run(s["body"], st)
                self.breaks = saved_breaks
                self.fresh, self.flags, self.zero = saved
                return st
            saved_breaks, self.breaks = self.breaks, []
            self.run(s["body"], 0)
            self.breaks = saved_breaks
            self.kill()
            return 0
        if k in ("Case", "Default"):
            return self.run(s.get("sub"), st)
        if k == "Try":
            a = self.run(s["body"], st)
            for h in s.get("handlers", []):
                self.run(h["body"], 0)
            return a if a is not None else 0
        # expression statement; assignment of a fresh token
        lhs = rhs = None
        if k == "Bin" and s.get("asg") and s["op"] == "=":
            lhs, rhs = s["c"][0], s["c"][1]
        elif k == "OpCall" and s.get("op") == "=" and len(s.get("a", [])) == 2:
            lhs, rhs = s["a"][0], s["a"][1]
        if lhs is not None and strip(lhs)["k"] == "Ref":
            r = strip(rhs)
            while r["k"] in ("Ctor", "Cast") and len([x for x in (r.get("a") or r.get("c") or []) if x.get("k") != "DefArg"]) == 1:
                r = strip([x for x in (r.get("a") or r.get("c")) if x.get("k") != "DefArg"][0])
            nm = self.call_name(r) if r["k"] in ("MCall", "Call") else None
            if nm in self.fetch or nm in self.advance:
                st = self.events(rhs, st)
                self.fresh.add(strip(lhs)["n"])
                return st
            self.fresh.discard(strip(lhs)["n"])
        # early-exit on empty container establishes non-emptiness
        return self.events(s, st)


def nonempty_prefix(body, cur):
    """True if the function starts with `if (V.empty()) return/throw` before the cursor is declared."""
    for s in stmt_list(body)[:4]:
        if s["k"] == "If":
            m, o = meth(strip(s["cond"]))
            last = stmt_list(s["then"])[-1] if stmt_list(s["then"]) else None
            if m == "empty" and o is not None and cur.is_cont(o) and last is not None and last["k"] in ("Return", "Throw"):
                return True
            c0 = strip(s["cond"])
            if c0["k"] == "Bin" and c0.get("op") == "==" and cur.is_size(c0["c"][0]) and strip(c0["c"][1]).get("v") == 0 and last is not None and last["k"] in ("Return", "Throw"):
                return True
    return False


def local_cursors(fn):
    """(idx, container text, eqmode) for local cursors of a function: compared with V.size(), used in V[idx], advanced in the body."""
    body = fn["body"]
    adv, cmp_, eq, subs = set(), set(), set(), set()
    for_inc = set()
    for n in walk_nl(body):
        if n["k"] == "For" and n.get("inc") is not None:
            for x in walk_nl(n["inc"]):
                if x["k"] == "Un" and x.get("c") and strip(x["c"][0])["k"] == "Ref":
                    for_inc.add(id(x))
    for n in walk_nl(body):
        k = n["k"]
        if k == "Un" and "++" in (n.get("op") or "") and n.get("c") and strip(n["c"][0])["k"] == "Ref" and strip(n["c"][0]).get("d") == "Var" and id(n) not in for_inc:
            adv.add(strip(n["c"][0])["n"])
        elif k == "Bin" and n.get("asg") and n.get("op") == "+=" and strip(n["c"][0])["k"] == "Ref" and strip(n["c"][0]).get("d") == "Var":
            adv.add(strip(n["c"][0])["n"])
        elif k == "Bin" and n.get("op") in CMP:
            a, b = strip(n["c"][0]), strip(n["c"][1])
            for x, y in ((a, b), (b, a)):
                m, o = meth(y)
                if m in ("size", "length") and o is not None and x["k"] == "Ref" and x.get("d") == "Var":
                    cmp_.add((x["n"], show(strip(o))))
                    if n["op"] in ("==", "!="):
                        eq.add((x["n"], show(strip(o))))
        s = subscript(n)
        if s and strip(s[1])["k"] == "Ref" and strip(s[1]).get("d") == "Var":
            subs.add((strip(s[1])["n"], show(strip(s[0]))))
    return [(i, c, (i, c) in eq) for (i, c) in sorted(cmp_ & subs) if i in adv]


def member_cursors(fns_by_cls):
    """Classes that keep a cursor into a member container: yields (cls, idx, cont, eqmode, roles, methods)."""
    out = []
    for cls, fns in sorted(fns_by_cls.items()):
        cmp_, subs, incs, eq = set(), set(), {}, set()
        for f in fns:
            for n in walk_nl(f["body"]):
                k = n["k"]
                if k == "Bin" and n.get("op") in CMP:
                    a, b = strip(n["c"][0]), strip(n["c"][1])
                    for x, y in ((a, b), (b, a)):
                        m, o = meth(y)
                        if m in ("size", "length") and o is not None and strip(o)["k"] == "Mem" and x["k"] == "Mem" and strip(x.get("b") or {"k": "This"})["k"] == "This" and strip(strip(o).get("b") or {"k": "This"})["k"] == "This":
                            cmp_.add((x["n"], strip(o)["n"]))
                            if n["op"] in ("==", "!="):
                                eq.add((x["n"], strip(o)["n"]))
                s = subscript(n)
                if s and strip(s[0])["k"] == "Mem" and strip(s[1])["k"] == "Mem":
                    subs.add((strip(s[1])["n"], strip(s[0])["n"]))
                if (k == "Un" and "++" in (n.get("op") or "") and n.get("c") and strip(n["c"][0])["k"] == "Mem") or (k == "Bin" and n.get("asg") and n.get("op") == "+=" and strip(n["c"][0])["k"] == "Mem"):
                    incs.setdefault(strip(n["c"][0])["n"], set()).add(f["n"])
        for (i, c) in sorted(cmp_ & subs):
            if i not in incs:
                continue
            cur = Cursor(i, c, member=True, cls=cls)
            advance, fetch, atend = set(), set(), set()
            for f in fns:
                top = stmt_list(f["body"])
                top_inc = any((s["k"] == "Un" and "++" in (s.get("op") or "") and s.get("c") and cur.is_idx(s["c"][0])) or (s["k"] == "Bin" and s.get("asg") and s.get("op") == "+=" and cur.is_idx(s["c"][0])) for s in top)
                if top_inc:
                    advance.add(f["n"])
                    continue
                rets = [s for s in top if s["k"] == "Return"]
                if len(top) == 1 and rets and rets[0].get("e") is not None:
                    e = strip(rets[0]["e"])
                    if e["k"] == "Bin" and ((e.get("op") in ("==", ">=") and cur.is_idx(e["c"][0]) and cur.is_size(e["c"][1])) or (e.get("op") in ("==", "<=") and cur.is_idx(e["c"][1]) and cur.is_size(e["c"][0]))):
                        atend.add(f["n"])
                        continue
                if any(subscript(n) and cur.is_cont(subscript(n)[0]) and cur.is_idx(subscript(n)[1]) for n in walk_nl(f["body"])):
                    fetch.add(f["n"])
            may = set()
            changed = True
            while changed:
                changed = False
                for f in fns:
                    if f["n"] in advance or f["n"] in fetch or f["n"] in atend or f["n"] in may:
                        continue
                    for n in walk_nl(f["body"]):
                        m, o = meth(n)
                        if m and o is not None and strip(o)["k"] == "This" and (m in advance or m in may):
                            may.add(f["n"])
                            changed = True
                            break
            out.append((cls, i, c, (i, c) in eq, dict(advance=advance, fetch=fetch, atend=atend, may_advance=may), fns))
    return out


def analyse_member(cls, idx, cont, eqmode, roles, fns):
    """Runs the typestate over every method of the class; returns [(fn, Analysis)]."""
    res = []
    for f in fns:
        if f["n"] in roles["atend"]:
            continue
        cur = Cursor(idx, cont, member=True, cls=cls)
        # the primitive that advances is analysed with the advance itself exempt: the obligation is on its call sites
        an = Analysis(cur, f, eqmode and f["n"] not in roles["advance"], advance=roles["advance"] - {f["n"]}, fetch=roles["fetch"], atend=roles["atend"], may_advance=roles["may_advance"])
        an.run(f["body"], 0)
        res.append((f, an))
    return res
