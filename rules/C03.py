"""C03  The schedule is causal — copy-on-write discipline and effect confinement.

Decides the structural necessary condition of causality: no code writes through storage that is shared
between ScheduleState snapshots (so building later report steps cannot change earlier ones), and the
side effects of keyword handling are confined to the current snapshot plus an enumerated set of registries.
Not decided: the split of the input into blocks, equality of states under truncation (runtime).
"""
import re

from verif import core, cow
from verif.tree import walk, walk_fn, show, stmt_list, meth, strip, children

LEVEL = "other"
SS = "Opm::ScheduleState"
TOK = re.compile(r"[A-Za-z_][A-Za-z0-9_]*(?:::[A-Za-z_][A-Za-z0-9_]*)+")


def load_allow(name):
    t = core.load_table(name)
    return {(e["function"], e["what"]): e for e in t["allow"]}


def closure_from(fx, root):
    out = set()
    work = [root]
    while work:
        c = work.pop()
        if c in out:
            continue
        out.add(c)
        rec = fx.recs.get(c)
        if not rec:
            continue
        for t in [f["ct"] for f in rec["fields"]] + [b.get("q") or b["t"] for b in rec.get("bases", [])]:
            for m in TOK.findall(t):
                parts = m.split("::")
                for i in range(len(parts), 1, -1):
                    q = "::".join(parts[:i])
                    if q in fx.recs and q not in out:
                        work.append(q)
    return out


def fn_key(f):
    return f["q"]


def run_escape(chk, fx, fns, entry_filter=None, prefix="C03"):
    """Shared by C03 and C04: classify every use of a mutable handle obtained from a map_member."""
    allow = load_allow("c03_escapes.json")
    used = set()
    r_api = chk.rule(prefix + ".api", "ptr_member hands out const references only; the accessors of map_member that can hand out a mutable handle are enumerated from the class itself", floor=8)
    pm = fx.rec1(SS + "::ptr_member")
    mm = fx.rec1(SS + "::map_member")
    for m in pm["methods"]:
        sig = m["sig"]
        ret = sig.split("(")[0].strip()
        key = "ptr_member::%s %s" % (m["n"], sig)
        chk.instance(r_api, key, sample=dict(method=m["n"], sig=sig))
        if m["n"] in ("update", "serializeOp"):
            continue
        if not m.get("const") or cow.is_mut_ref_type(ret) or cow.pointee_mutable_value(ret):
            chk.violation(r_api, key, "ScheduleState::ptr_member::%s (%s) can hand out a mutable reference to an object shared between report steps" % (m["n"], sig), pm["file"], m["l"])
    escapers = {}
    for m in mm["methods"]:
        sig = m["sig"]
        ret = sig.split("(")[0].strip()
        mut = cow.is_mut_ref_type(ret) or cow.pointee_mutable_value(ret) or "iterator" in ret or "reference_wrapper<T>" in ret
        chk.instance(r_api, "map_member::%s %s" % (m["n"], sig), nontrivial=mut, sample=dict(method=m["n"], sig=sig, mutable_handle=mut))
        if mut:
            escapers.setdefault(m["n"], []).append(sig)
    chk.extra["map_member_mutable_accessors"] = {k: v for k, v in escapers.items()}

    r_esc = chk.rule(prefix + ".escape", "every handle obtained from a map_member accessor (or by iterating a map_member) is only copied, read through const members or bound to const", floor=60)
    n_sites = 0
    for f in fns:
        if not f.get("body"):
            continue
        roots = []
        for n in walk_fn(f):
            if n["k"] in ("MCall", "OpCall") and (n.get("cls") or "") == SS + "::map_member" and n.get("m") in escapers:
                rt = n.get("t") or ""
                if n.get("m") in ("get", "operator()") and "const" in rt.split("reference_wrapper")[-1][:8] and not cow.is_mut_ref_type(rt) and "reference_wrapper<Opm" not in rt.replace("reference_wrapper<const", ""):
                    # const overload: const T& / vector<reference_wrapper<const T>>
                    chk.instance(r_esc, "%s:%s:const" % (f["q"], n["l"]), nontrivial=False)
                    continue
                roots.append((n, "%s()" % n["m"]))
            elif n["k"] == "ForRange":
                rng = strip(n["range"])
                rt = rng.get("t") or ""
                if "map_member<" in rt or (rng["k"] == "Mem" and "map_member<" in (rng.get("t") or "")):
                    roots.append((rng, "iteration"))
        for root, what in roots:
            n_sites += 1
            res = cow.classify(f, root, via=what)
            bad = [r for r in res if r[0] != "safe"]
            key = "%s:%s" % (f["q"], what)
            chk.instance(r_esc, "%s@%s" % (key, root["l"]), sample=dict(function=f["q"], line=root["l"], handle=show(root)[:80], verdict=[(r[0], r[2]) for r in res][:3]))
            for kind, node, why in bad:
                a = allow.get((f["q"], what)) or allow.get((f["q"], "*"))
                if a:
                    used.add((a["function"], a["what"]))
                    continue
                chk.violation(r_esc, "%s:%s" % (key, re.sub(r"\W+", "_", why)[:50]),
                              "%s: %s obtained by `%s` from storage shared between report steps: %s (accepted idioms: copy + update(), const reference, const member)" % (
                                  f["q"], "mutable handle" if kind == "escape" else "unclassified use of a handle", show(root)[:90], why),
                              f["file"], node.get("l", root["l"]))
    chk.extra["map_member_sites"] = n_sites
    return allow, used


def run_through(chk, fx, fns, closure, prefix="C03"):
    allow = load_allow("c03_through.json")
    used = set()
    r_thr = chk.rule(prefix + ".through", "member functions of classes stored in ScheduleState never write through a shared_ptr member unless it was re-pointed to a fresh copy earlier in the same function (clone-then-modify)", floor=100)
    fields = {}
    for c in closure:
        rec = fx.recs.get(c)
        if not rec:
            continue
        for fld in rec["fields"]:
            if re.match(r"^(const )?std::shared_ptr<(?!const )", fld["ct"]):
                fields.setdefault(c, {})[fld["n"]] = fld
    chk.extra["shared_ptr_members"] = {c: sorted(v) for c, v in fields.items()}
    for f in fns:
        cls = f.get("cls")
        if cls not in fields or not f.get("body"):
            continue
        if f.get("ctor") or f["n"] in ("serializeOp", "serializationTestObject", "operator=="):
            continue
        body = f["body"]
        # statements that re-point a shared_ptr member to fresh storage
        fresh = {}
        par = cow.parent_map(f)
        for n in walk(body):
            tgt = None
            rhs = None
            if n["k"] == "Bin" and n["op"] == "=":
                tgt, rhs = strip(n["c"][0]), n["c"][1]
            elif n["k"] == "OpCall" and n["op"] == "=" and len(n.get("a", [])) == 2:
                tgt, rhs = strip(n["a"][0]), n["a"][1]
            elif n["k"] == "MCall" and n.get("m") == "reset" and strip(n.get("obj") or {}).get("k") == "Mem":
                tgt, rhs = strip(n["obj"]), (n["a"][0] if n.get("a") else None)
            if tgt is not None and tgt.get("k") == "Mem" and tgt.get("n") in fields[cls] and (tgt.get("b") or {}).get("k") in (None, "This"):
                txt = show(rhs) if rhs else ""
                if "make_shared" in txt or "New" in [x["k"] for x in walk(rhs)] if rhs else False:
                    fresh.setdefault(tgt["n"], []).append(n)
                elif rhs is not None:
                    # assigned from a parameter / local that holds a fresh object built by the caller: pointer re-seat, not a write-through
                    fresh.setdefault(tgt["n"], []).append(n)
        for n in walk(body):
            if n["k"] == "Mem" and n.get("cls") == cls and n["n"] in fields[cls] and (n.get("b") or {"k": "This"}).get("k") == "This":
                res = cow.classify(f, n, via="member %s" % n["n"])
                bad = [r for r in res if r[0] == "escape"]
                key = "%s:%s" % (f["q"], n["n"])
                chk.instance(r_thr, "%s@%s" % (key, n["l"]), nontrivial=bool(bad), sample=dict(function=f["q"], member=n["n"], verdict=[(r[0], r[2]) for r in res][:2]))
                for kind, node, why in bad:
                    # the write that re-seats the member itself is not a write through it
                    if node["k"] in ("Bin", "OpCall") and why.startswith("assigned through") and strip((node.get("c") or node.get("a"))[0]) is n:
                        continue
                    if node["k"] == "MCall" and node.get("m") in ("reset", "swap") and strip(node.get("obj")) is n:
                        continue
                    # clone-then-modify: a re-seat of this member precedes the use in the same or an enclosing block
                    ok = False
                    for fr in fresh.get(n["n"], []):
                        if fr.get("l", 0) <= node.get("l", 0) and dominates(par, body, fr, node):
                            ok = True
                    if ok:
                        continue
                    a = allow.get((f["q"], n["n"]))
                    if a:
                        used.add((a["function"], a["what"]))
                        continue
                    chk.violation(r_thr, key, "%s writes through shared_ptr member `%s` (%s) without first re-pointing it to a fresh copy: every ScheduleState that shares the object changes" % (f["q"], n["n"], why), f["file"], node.get("l"))
    return allow, used


def ancestors(par, n):
    out = []
    cur = n
    while id(cur) in par:
        cur = par[id(cur)]
        out.append(cur)
    return out


def dominates(par, body, a, b):
    """a executes before b on every path reaching b: a's enclosing statement is a direct child of a block that
    encloses b, and precedes b's branch there (structured code, no goto)."""
    anc_b = [b] + ancestors(par, b)
    ids_b = {id(x): x for x in anc_b}
    cur = a
    while id(cur) in par:
        p = par[id(cur)]
        if p["k"] == "Block" and id(p) in ids_b:
            kids = p["c"]
            ia = next((i for i, k in enumerate(kids) if k is cur), None)
            ib = next((i for i, k in enumerate(kids) if id(k) in ids_b or k is b), None)
            return ia is not None and ib is not None and ia < ib
        if p["k"] in ("If", "For", "While", "ForRange", "Switch", "Case", "Default", "Try", "Do", "Lambda") and id(p) not in ids_b:
            return False
        cur = p
    return False


def run_inplace(chk, fx, fns, prefix="C03"):
    # ---- C03.inplace: callers of the in-place mutators
    r_inp = chk.rule(prefix + ".inplace", "every caller of an in-place connection mutator (Well::updateWellProductivityIndex / applyWellProdIndexScaling) first gives the Well a private copy of its connections", floor=4)
    INPLACE = ("Opm::Well::updateWellProductivityIndex", "Opm::Well::applyWellProdIndexScaling")
    for f in fns:
        if not f.get("body"):
            continue
        par = None
        for n in walk_fn(f):
            if n["k"] == "MCall" and n.get("fn") in INPLACE:
                if par is None:
                    par = cow.parent_map(f)
                obj = strip(n.get("obj") or {})
                key = "%s:%s@%s" % (f["q"], n["m"], show(obj)[:30])
                if f["q"] == "Opm::Schedule::applyWellProdIndexScaling":
                    chk.instance(r_inp, key, sample=dict(caller=f["q"], callee=n["fn"], discharged_by="handleWELPI installs a fresh well unconditionally"))
                    continue
                fresh = None
                unforced = None
                for c in walk_fn(f):
                    if c["k"] == "MCall" and c.get("fn") == "Opm::Well::updateConnections" and show(strip(c.get("obj") or {})) == show(obj):
                        arg = c["a"][0] if c.get("a") else None
                        txt = show(arg)
                        names = [x["n"] for x in walk(arg) if x["k"] == "Ref" and x.get("d") == "Var"] if arg else []
                        env = {v["n"]: show(v.get("init")) + " : " + (v.get("t") or "") for d in walk_fn(f) if d["k"] == "Decl" for v in d["vars"]}
                        if "make_shared" in txt or any("make_shared" in (env.get(nm) or "") and "WellConnections" in (env.get(nm) or "") for nm in names):
                            # Well::updateConnections(ptr, force) discards the copy when force is false and the contents are
                            # equal - which is exactly when the old object is still shared: the install must be forced
                            forced = len(c.get("a", [])) >= 2 and strip(c["a"][1]).get("k") == "Bool" and strip(c["a"][1]).get("v") in (True, 1, "true")
                            if not forced:
                                unforced = c
                            elif dominates(par, f["body"], c, n):
                                fresh = c
                chk.instance(r_inp, key, sample=dict(caller=f["q"], callee=n["fn"], cloned_at=fresh and fresh["l"]))
                if fresh is None and unforced is not None:
                    chk.violation(r_inp, key + ":unforced", "%s clones the connections of `%s` but installs the clone with updateConnections(..., force = %s): when the clone equals the original it is discarded, the well keeps the object it shares with earlier report steps and %s then rescales that object in place" % (f["q"], show(obj), show(unforced["a"][1]) if len(unforced.get("a", [])) > 1 else "<default>", n["fn"]), f["file"], unforced["l"])
                elif fresh is None:
                    chk.violation(r_inp, key, "%s calls %s on `%s` without first installing a private copy of the well's connections (updateConnections(make_shared<WellConnections>(...))): the connections shared with earlier report steps are modified in place" % (f["q"], n["fn"], show(obj)), f["file"], n["l"])
    hw = [f for f in fns if f["n"] == "handleWELPI" and f["file"].endswith("WellPropertiesKeywordHandlers.cpp")]
    if len(hw) != 1:
        raise core.AnalysisBroken("handleWELPI not found")
    par = cow.parent_map(hw[0])
    ups = [c for c in walk_fn(hw[0]) if c["k"] == "MCall" and c.get("m") == "update" and (c.get("cls") or "").endswith("map_member") and "wells" in show(c.get("obj"))]
    cond = [c for c in ups if any(a["k"] in ("If", "Cond", "Switch") and a is not hw[0]["body"] for a in ancestors(par, c)
                                   if a["k"] in ("If", "Cond", "Switch") and not (a["k"] == "If" and "actionx_mode" in show(a["cond"])))]
    chk.instance(r_inp, "handleWELPI:install", sample=dict(updates=len(ups), conditional=len(cond)))
    if len(ups) != 1 or cond:
        chk.violation(r_inp, "handleWELPI:install", "handleWELPI must install the re-pointed well unconditionally: Schedule::applyWellProdIndexScaling rescales the well objects from the WELPI step onwards in place and relies on them not being shared with earlier steps", hw[0]["file"], hw[0]["l"])



def run_items(chk, fx, prefix="C03"):
    """<prefix>.items: a local named after a record item is read from the item of that name."""
    r = chk.rule(prefix + ".items", "in the input code, a local variable that carries the name of one of the record items its function reads (K1, K2, I, J, ...) is initialised from the item of that name, not from a sibling item", floor=100)

    def norm(t):
        return re.sub(r"[^a-z0-9]", "", t.lower())

    def item_of(call):
        m_, o_ = meth(call)
        if m_ in ("getItem", "get") and call.get("a"):
            ls = [x["v"] for x in walk(call["a"][0]) if x["k"] == "Str"]
            if ls:
                return ls[0]
        if m_ == "getItem" and call.get("targs"):
            return call["targs"][0].split("::")[-1]
        return None
    for f in fx.fns:
        if not f.get("body") or "/opm/input/" not in f["file"]:
            continue
        items = {item_of(n) for n in walk_fn(f) if n["k"] in ("MCall", "Call") and item_of(n)}
        if len(items) < 2:
            continue
        ni = {norm(i): i for i in items}
        for n in walk_fn(f):
            if n["k"] != "Decl":
                continue
            for v in n["vars"]:
                if v.get("init") is None:
                    continue
                its = {item_of(c) for c in walk(v["init"]) if c["k"] in ("MCall", "Call") and item_of(c)}
                if len(its) != 1:
                    continue
                it = next(iter(its))
                # numbered siblings (K1/K2, I1/I2, ...): a variable named X<n> read from item X<m>, n != m
                mv, mi = re.match(r"^([a-z]+)(\d+)$", norm(v["n"])), re.match(r"^([a-z]+)(\d+)$", norm(it))
                sibling = bool(mv and mi and mv.group(1) == mi.group(1) and mv.group(2) != mi.group(2))
                if norm(v["n"]) not in ni and not sibling:
                    continue
                key = "%s:%s@%d" % (f["q"], v["n"], n["l"] - f["l"])
                chk.instance(r, key, sample=dict(function=f["q"], variable=v["n"], read_from_item=it))
                if norm(it) != norm(v["n"]):
                    chk.violation(r, key, "%s: `%s` is initialised from record item %s (%s): the value of a sibling item is used under this name" % (f["q"], v["n"], it, "the function also reads item %s" % ni[norm(v["n"])] if norm(v["n"]) in ni else "numbered sibling of the item the name says"), f["file"], n["l"])


def run_changed(chk, fx, prefix="C03"):
    """<prefix>.changed: 'install the new value only if it differs' makes operator== part of the schedule semantics."""
    r = chk.rule(prefix + ".changed", "where an update method installs a new value only if `*this->m != *arg`, the operator== of that class compares every data member (a forgotten member makes a keyword that changes only that member a silent no-op)", floor=12)
    exempt = {(e["class"], e["member"]): e for e in core.load_table("c03_changed_exempt.json")["exempt"]}
    used = set()
    by_q = {}
    for f in fx.fns:
        by_q.setdefault(f["q"], []).append(f)
    hdr = None
    sites = []
    for f in fx.fns:
        if not f.get("body") or not f.get("cls"):
            continue
        for n in walk_fn(f):
            if n["k"] != "If":
                continue
            cmps = [c for c in walk(n["cond"]) if c["k"] == "OpCall" and c.get("op") in ("!=", "==") and len(c.get("a", [])) == 2 and (c.get("fn") or "").startswith("Opm::")]
            for c in cmps:
                T = c.get("cls") or ""
                if T in ("Opm::UDAValue", "Opm::time_point") or not T.startswith("Opm::"):
                    continue
                # the branch that runs when the two values differ
                neg = False
                p_ = strip(n["cond"])
                if p_["k"] == "Un" and p_.get("op") == "!":
                    neg = True
                differ_branch = n["then"] if ((c["op"] == "!=") != neg) else n.get("else")
                if differ_branch is None:
                    continue
                installs = False
                for x in walk(differ_branch):
                    m_ = meth(x)[0] if x["k"] in ("MCall", "Call") else None
                    if m_ and (m_.startswith("update") or m_ in ("insert_or_assign", "emplace", "insert")):
                        installs = True
                    if (x["k"] == "Bin" and x.get("asg") and x["op"] == "=") or (x["k"] == "OpCall" and x.get("op") == "="):
                        lhs = (x.get("c") or x.get("a"))[0]
                        if any(y["k"] == "Mem" for y in walk(lhs)):
                            installs = True
                if installs and "/Schedule/" in f["file"]:
                    sites.append((f, n, T, show(c)[:60]))
    if len(sites) < 10:
        raise core.AnalysisBroken("only %d install-if-different update methods found (Well::update*, Group::updateProduction: 13 on the pinned tree)" % len(sites))
    classes = sorted({T for _, _, T, _ in sites})
    units_h = [u for u in core.library_units()]
    recs = chk.facts(core.library_units(), files_re="^/repo/opm/", fn_re="::operator==$", rest_light=True)
    for T in classes:
        rec = recs.recs.get(T) or fx.recs.get(T)
        eqs = [f for f in recs.fns if f["q"] == T + "::operator==" and f.get("body") and not f.get("light")] or [f for f in fx.fns if f["q"] == T + "::operator==" and f.get("body")]
        if rec is None or not eqs:
            raise core.AnalysisBroken("%s: record or operator== not found" % T)
        names = {x["n"] for x in rec["fields"]}
        got = set()
        for e in eqs:
            for n in walk_fn(e):
                if n["k"] == "Mem" and n["n"] in names and (n.get("cls") in (None, T)):
                    got.add(n["n"])
                elif n["k"] in ("DMem", "UMem") and n["n"] in names:
                    got.add(n["n"])
                elif n["k"] == "MCall" and n.get("cls") == T and n.get("fn") in by_q:
                    for g in by_q[n["fn"]]:
                        if g.get("body"):
                            got |= {x["n"] for x in walk_fn(g) if x["k"] == "Mem" and x["n"] in names}
        where = [s_ for s_ in sites if s_[2] == T]
        for fld in sorted(names):
            key = "%s::%s" % (T, fld)
            chk.instance(r, key, sample=dict(member=key, compared=fld in got, change_detection_in=[s_[0]["q"] for s_ in where]))
            if fld not in got:
                ex = exempt.get((T, fld))
                if ex:
                    used.add((T, fld))
                    continue
                chk.violation(r, key, "%s installs a new %s only if it differs from the current one, but %s::operator== does not compare `%s`: an input record that changes nothing else is dropped and the schedule keeps the old value" % (where[0][0]["q"], T.split("::")[-1], T, fld), eqs[0]["file"], eqs[0]["l"])
    for k_ in exempt:
        if k_ not in used:
            chk.info(r, "tables/c03_changed_exempt.json: entry %s::%s not needed on this tree" % k_)


def run_validated(chk, fx, prefix="C03"):
    """A report step (or other integer) that a Schedule function validates is the one it acts on."""
    r = chk.rule(prefix + ".validated", "in the schedule code, an integer parameter that a throwing range guard validates (if (step < current || step >= size) throw ...) is also used outside its guards: a function that checks the requested report step but then acts on another step variable applies the input at the wrong report step", floor=7)
    n_fn = 0
    for f in fx.fns:
        if not f.get("body") or "/opm/input/eclipse/Schedule/" not in f["file"] or not f.get("params"):
            continue
        ints = [p_["n"] for p_ in f["params"] if p_.get("n") and re.fullmatch(r"(const )?(std::)?(size_t|int|unsigned int|unsigned long|long|std::size_t)( const)?", (p_.get("t") or "").strip())]
        if not ints:
            continue
        guards = []

        def collect(n):
            if n["k"] == "If" and isinstance(n.get("cond"), dict) and any(x["k"] == "Throw" for x in walk(n["then"], skip_lambda=True)) and not any(x["k"] in ("For", "While", "ForRange") for x in walk(n["then"])):
                guards.append(n)
        for n in walk(f["body"]):
            collect(n)
        if not guards:
            continue
        inside = set()
        for g in guards:
            for x in walk(g["cond"]):
                inside.add(id(x))
            for x in walk(g["then"]):
                inside.add(id(x))
        for p_ in ints:
            in_guard = [x for g in guards for x in walk(g["cond"]) if x["k"] == "Ref" and x["n"] == p_ and x.get("d") == "Parm"]
            if not in_guard:
                continue
            outside = [x for x in walk_fn(f) if x["k"] == "Ref" and x["n"] == p_ and x.get("d") == "Parm" and id(x) not in inside]
            n_fn += 1
            key = "%s(%s)" % (f["q"], p_)
            chk.instance(r, key, sample=dict(function=f["q"], parameter=p_, guard_lines=[g["l"] for g in guards if any(x["k"] == "Ref" and x["n"] == p_ for x in walk(g["cond"]))], uses_outside_guards=len(outside)))
            if not outside:
                chk.violation(r, key, "%s validates its parameter `%s` in a throwing guard (line %d) and never uses it again: whatever it does, it does for another value than the one that was requested and checked" % (f["q"], p_, in_guard[0]["l"]), f["file"], in_guard[0]["l"])


def run_itemused(chk, fx, prefix="C03"):
    r = chk.rule(prefix + ".itemused", "in the keyword handlers of opm/input/eclipse/Schedule, a local that is initialised from an item of the record being handled (record.getItem(...)...) is referred to afterwards: an item that is read into a local and then never looked at is an input the handler silently ignores (the assignment that carried it into the state has been lost)", floor=300)
    n_i = 0
    for f in fx.fns:
        if not f.get("body") or not f["file"].startswith(core.REPO + "/opm/input/eclipse/Schedule/"):
            continue
        decls = []
        for n in walk(f["body"]):
            if n["k"] == "Decl":
                for v in n["vars"]:
                    if isinstance(v.get("init"), dict) and any(x["k"] == "MCall" and x.get("m") == "getItem" for x in walk(v["init"])) and v.get("n"):
                        decls.append(v)
        if not decls:
            continue
        refs = {}
        for n in walk(f["body"]):
            if n["k"] == "Ref" and n.get("d") in ("Var",):
                refs.setdefault((n["n"], n.get("dl")), 0)
                refs[(n["n"], n.get("dl"))] += 1
            elif n["k"] == "Lambda":
                for c in n.get("caps") or []:
                    if isinstance(c, dict) and c.get("n"):
                        for v in decls:
                            if v["n"] == c["n"]:
                                refs[(v["n"], v.get("l"))] = refs.get((v["n"], v.get("l")), 0) + 1
        for v in decls:
            n_i += 1
            used = refs.get((v["n"], v.get("l")), 0)
            chk.instance(r, "%s:%s@%s" % (f["q"], v["n"], v.get("l")), sample=dict(function=f["q"], local=v["n"], item=show(v["init"])[:90], references=used))
            if not used:
                chk.violation(r, "%s:%s" % (f["q"], v["n"]), "%s reads `%s = %s` (line %s) and never refers to `%s` again: this record item no longer reaches the state" % (f["q"], v["n"], show(v["init"])[:110], v.get("l"), v["n"]), f["file"], v.get("l"))


def run_records(chk, fx, prefix="C03"):
    r = chk.rule(prefix + ".records", "a keyword handler of opm/input/eclipse/Schedule that walks the records of a keyword (a range-for over handlerContext.keyword or over any DeckKeyword) leaves that loop only by finishing it or by throwing: a record that does not apply is skipped with `continue` - a `return` or `break` would silently drop every later record of the keyword", floor=50)
    from verif.tree import children as _ch
    for f in fx.fns:
        if not f.get("body") or not f["file"].startswith(core.REPO + "/opm/input/eclipse/Schedule/"):
            continue
        for lp in walk(f["body"]):
            if lp["k"] != "ForRange":
                continue
            rng_ = strip(lp["range"])
            if not (show(rng_).endswith(".keyword") or re.search(r"\bDeckKeyword\b", rng_.get("t") or "") or re.search(r"\bDeckRecord\b", (lp.get("var") or {}).get("t") or "")):
                continue
            exits = []

            def rec(n, inner):
                if n.get("k") == "Lambda":
                    return
                if n.get("k") == "Return":
                    exits.append(("return", n["l"]))
                if n.get("k") == "Break" and not inner:
                    exits.append(("break", n["l"]))
                for c in _ch(n):
                    rec(c, inner or n.get("k") in ("For", "ForRange", "While", "Do", "Switch"))
            rec(lp["body"], False)
            chk.instance(r, "%s@%d" % (f["q"], lp["l"]), sample=dict(function=f["q"], record_loop_line=lp["l"], early_exits=exits))
            for kind, ln in exits:
                chk.violation(r, "%s:%s@%d" % (f["q"], kind, lp["l"]), "%s leaves the loop over the records of its keyword with `%s` at line %d: the records after this one are never handled" % (f["q"], kind, ln), f["file"], ln)


def run_dedupe(chk, fx, prefix="C03"):
    r = chk.rule(prefix + ".dedupe", "Schedule::applyWellProdIndexScaling rescales the connection sets of the well from the WELPI step onwards in place; consecutive well objects may share one connection set (hasSameConnectionsPointers), so the loop scales an object only if it does not share its set with the LAST SCALED one - the branch that scales also records the object as that reference (prev = current) - otherwise a shared set is scaled once per well object that happens to reference it, and how many do is decided by later input", floor=1)
    fs = [f for f in fx.fn("Opm::Schedule::applyWellProdIndexScaling") if f.get("body")]
    if len(fs) != 1:
        raise core.AnalysisBroken("Schedule::applyWellProdIndexScaling not found")
    f = fs[0]
    n_i = 0
    for lp in [n for n in walk(f["body"]) if n["k"] in ("For", "ForRange", "While")]:
        for iff in [n for n in walk(lp["body"]) if n["k"] == "If"]:
            shares = [x for x in walk(iff["cond"]) if x["k"] == "MCall" and x.get("m") == "hasSameConnectionsPointers"]
            if len(shares) != 1:
                continue
            cur = strip(shares[0]["obj"])
            while cur.get("k") in ("OpCall", "Un") and (cur.get("a") or cur.get("c")):
                cur = strip((cur.get("a") or cur.get("c"))[0])
            ref = strip(shares[0]["a"][0])
            while ref.get("k") in ("OpCall", "Un") and (ref.get("a") or ref.get("c")):
                ref = strip((ref.get("a") or ref.get("c"))[0])
            negated = strip(iff["cond"]).get("k") == "Un" and strip(iff["cond"]).get("op") == "!"
            branch = iff["then"] if negated else iff.get("else")
            if cur.get("k") != "Ref" or ref.get("k") != "Ref" or branch is None:
                continue
            scales = [x for x in walk(branch) if x["k"] == "MCall" and x.get("m") == "applyWellProdIndexScaling"]
            records = [x for x in walk(branch) if x["k"] == "Bin" and x.get("asg") and x["op"] == "=" and strip(x["c"][0]).get("n") == ref["n"] and strip(x["c"][1]).get("n") == cur["n"]]
            n_i += 1
            chk.instance(r, "loop@%d" % lp["l"], sample=dict(function=f["q"], current=cur["n"], reference=ref["n"], scaled_in_branch=len(scales), reference_updated=bool(records)))
            if scales and not records:
                chk.violation(r, "loop@%d" % iff["l"], "Schedule::applyWellProdIndexScaling: the branch that rescales `%s` (not sharing its connection set with `%s`) does not record it as the new reference (`%s = %s`): two later well objects that share one connection set are then both rescaled, i.e. the set is scaled twice - and whether a second object exists depends on input of a later report step" % (cur["n"], ref["n"], ref["n"], cur["n"]), f["file"], iff["l"])
    if not n_i:
        raise core.AnalysisBroken("applyWellProdIndexScaling: the de-duplicating loop (hasSameConnectionsPointers) was not found")


def run_lostupdate(chk, fx, prefix="C03"):
    r = chk.rule(prefix + ".lostupdate", "copy - modify - install: a local object copied out of longer-lived state (a ScheduleState member, a Well's or Group's property object, a network, a config ...) and then modified (non-const member call, directly or through ->, or member assignment) is afterwards read by something - handed to update()/updateX()/emplace, moved, returned, compared; a copy that is modified and then dropped means the keyword or restart record it was built for is silently ignored (functions of opm/input/eclipse/Schedule; a const member call only inspects the copy, a repository function that takes it by mutable reference and only calls members on it modifies it)", floor=100)
    from verif import lostupdate
    n_c = 0
    for f in fx.fns:
        if not f.get("body") or not f["file"].startswith(core.REPO + "/opm/input/eclipse/Schedule/"):
            continue
        rep, nc = lostupdate.analyse(f, fx.fn)
        n_c += nc
        if nc:
            chk.instance(r, f["q"] + "@%d" % f["l"], sample=dict(function=f["q"], copies_of_state=nc, dropped=len(rep)))
        for line, name, typ, init, wl in rep:
            chk.violation(r, "%s:%s" % (f["q"], name), "%s: `%s` (%s, copied from `%s` at line %s) is modified at line%s %s and then never read again - not installed with update()/updateX(), not moved, not returned: the change is lost when the function returns" % (f["q"], name, typ, init, line, "s" if len(wl) > 1 else "", wl), f["file"], line)
    chk.extra[prefix + "_state_copies_examined"] = n_c


def run(chk):
    units = core.library_units()
    fx = chk.facts(units)
    run_lostupdate(chk, fx, "C03")
    run_dedupe(chk, fx, "C03")
    run_itemused(chk, fx, "C03")
    run_records(chk, fx, "C03")
    fh = chk.facts(["opm/input/eclipse/Schedule/Schedule.cpp"], files_re="^/repo/opm/input/eclipse/Schedule/", fn_re="^$")
    for q, r in fh.recs.items():
        fx.recs.setdefault(q, r)
    fns = [f for f in fx.fns if f["file"].startswith(core.REPO + "/opm/")]
    closure = closure_from(fx, SS)
    chk.extra["closure_classes"] = len(closure)

    allow_e, used_e = run_escape(chk, fx, fns)
    allow_t, used_t = run_through(chk, fx, fns, closure)

    run_inplace(chk, fx, fns)
    run_changed(chk, fx)
    run_items(chk, fx)
    run_validated(chk, fx)

    # ---- C03.index
    r_idx = chk.rule("C03.index", "snapshots[e] with an arithmetic index (an earlier/later step than the one being built) is only read", floor=40)
    allow_i = load_allow("c03_index.json")
    used_i = set()
    for f in fns:
        if not f.get("body") or not f["q"].startswith(("Opm::Schedule::", "Opm::HandlerContext::")):
            continue
        for n in walk_fn(f):
            if n["k"] == "OpCall" and n["op"] == "[]" and len(n.get("a", [])) == 2:
                b = strip(n["a"][0])
                if b["k"] == "Mem" and b["n"] == "snapshots" and b.get("cls") == "Opm::Schedule":
                    idx = strip(n["a"][1])
                    arith = any(x["k"] == "Bin" and x["op"] in ("+", "-") for x in walk(idx))
                    res = cow.classify(f, n, via="snapshots[%s]" % show(idx))
                    bad = [r for r in res if r[0] != "safe"]
                    chk.instance(r_idx, "%s@%s" % (f["q"], n["l"]), nontrivial=arith, sample=dict(function=f["q"], index=show(idx), arithmetic=arith, mutable=bool(bad)))
                    if arith and bad:
                        a = allow_i.get((f["q"], show(idx)))
                        if a:
                            used_i.add((a["function"], a["what"]))
                            continue
                        chk.violation(r_idx, "%s:%s" % (f["q"], show(idx)), "%s writes to snapshots[%s], a report step other than the one being built: %s" % (f["q"], show(idx), bad[0][2]), f["file"], n["l"])

    # ---- C03.globals: who may write the members of Schedule other than snapshots
    r_glob = chk.rule("C03.globals", "every write to a data member of Schedule other than `snapshots` comes from an enumerated (function, member) pair with a reason why it cannot change an earlier state", floor=15)
    allow_g = load_allow("c03_globals.json")
    used_g = set()
    sched = fx.rec1("Opm::Schedule")
    members = {fl["n"] for fl in sched["fields"]} - {"snapshots"}
    for f in fns:
        if not f.get("body") or (f.get("cls") == "Opm::Schedule" and (f.get("ctor") or f["n"] in ("serializeOp", "serializationTestObject", "operator=="))):
            continue
        for n in walk_fn(f):
            if n["k"] == "Mem" and n.get("cls") == "Opm::Schedule" and n["n"] in members:
                res = cow.classify(f, n, via="Schedule::%s" % n["n"])
                bad = [r for r in res if r[0] != "safe"]
                if not bad:
                    continue
                key = "%s:%s" % (f["q"], n["n"])
                chk.instance(r_glob, key, sample=dict(function=f["q"], member=n["n"], how=bad[0][2]))
                a = allow_g.get((f["q"], n["n"]))
                if a:
                    used_g.add((a["function"], a["what"]))
                    continue
                chk.violation(r_glob, key, "%s writes Schedule::%s (%s); it is not in the table of schedule-wide registries that handlers may update" % (f["q"], n["n"], bad[0][2]), f["file"], n["l"])

    # ---- C03.static: no hidden state in handler units
    r_static = chk.rule("C03.static", "no function-local or namespace-scope mutable static state in the schedule/handler units", floor=1)
    nstat = 0
    for f in fns:
        if "/Schedule/" not in f["file"] or not f.get("body"):
            continue
        for n in walk_fn(f):
            if n["k"] == "Decl":
                for v in n["vars"]:
                    if v.get("static"):
                        nstat += 1
                        chk.instance(r_static, "%s:%s" % (f["q"], v["n"]), sample=dict(function=f["q"], var=v["n"], type=v["t"]))
                        if not (v.get("const") or v["t"].startswith("const ")):
                            # effectively constant if it is never written after its initialisation
                            uses = []
                            for r_ in [x for x in walk_fn(f) if x["k"] == "Ref" and x["n"] == v["n"] and x.get("dl") == v["l"]]:
                                uses += [u for u in cow.classify(f, r_, via="static " + v["n"]) if u[0] != "safe"]
                            if not uses:
                                continue
                            chk.violation(r_static, "%s:%s" % (f["q"], v["n"]), "%s keeps mutable static state `%s %s`: results of later keywords can depend on earlier calls" % (f["q"], v["t"], v["n"]), f["file"], v["l"])
    for v in fx.vars:
        if "/Schedule/" in v["file"] and v["file"].endswith(".cpp"):
            nstat += 1
            chk.instance(r_static, "global:" + v["q"], sample=dict(var=v["q"], type=v["t"]))
            if not (v.get("const") or v.get("constexpr") or v["t"].startswith("const ")):
                chk.violation(r_static, "global:" + v["q"], "mutable namespace-scope variable %s (%s) in a schedule unit" % (v["q"], v["t"]), v["file"], v["l"])

    # ---- C03.next
    r_next = chk.rule("C03.next", "a new report step is a copy of the previous one with every per-step member reset; create_next copies from the last snapshot", floor=6)
    per_step = core.load_table("c03_per_step.json")["per_step_members"]
    ctor = [f for f in fx.fns if f["q"] == SS + "::ScheduleState" and [p["t"] for p in f["params"]] == ["const Opm::ScheduleState &", "const Opm::time_point &"]]
    if len(ctor) != 1:
        raise core.AnalysisBroken("ScheduleState(const ScheduleState&, const time_point&) not found")
    ctor = ctor[0]
    inits = ctor.get("inits", [])
    deleg = [i for i in inits if i.get("delegating")]
    chk.instance(r_next, "copy", sample=show(deleg[0]["init"]) if deleg else None)
    if not deleg or "src" not in show(deleg[0]["init"]):
        chk.violation(r_next, "copy", "the next-step constructor no longer starts from a copy of the previous state", ctor["file"], ctor["l"])
    resets = {}
    for n in stmt_list(ctor["body"]):
        if n["k"] == "Bin" and n["op"] == "=":
            t = strip(n["c"][0])
            if t["k"] == "Mem":
                resets[t["n"]] = show(n["c"][1])
        if n["k"] == "OpCall" and n["op"] == "=" and len(n["a"]) == 2 and strip(n["a"][0])["k"] == "Mem":
            resets[strip(n["a"][0])["n"]] = show(n["a"][1])
        if n["k"] == "MCall" and n.get("m") in ("reset", "clear") and strip(n.get("obj") or {}).get("k") == "Mem":
            resets[strip(n["obj"])["n"]] = n["m"] + "()"
    for mem, want in per_step.items():
        got = resets.get(mem)
        chk.instance(r_next, "reset:" + mem, sample=dict(member=mem, reset=got))
        if got is None or (want != "*" and got.replace("std::", "") != want):
            chk.violation(r_next, "reset:" + mem, "per-step member %s is not reset when the next report step is created (found %s, expected %s): the previous step's value leaks into the next" % (mem, got, want), ctor["file"], ctor["l"])
    # whether a state has an end time is decided by later input (the last state has none): the constructor with an end time
    # may therefore differ from the one without in nothing but m_end_time
    ctor3 = [f for f in fx.fns if f["q"] == SS + "::ScheduleState" and [p["t"] for p in f["params"]] == ["const Opm::ScheduleState &", "const Opm::time_point &", "const Opm::time_point &"]]
    if len(ctor3) != 1:
        raise core.AnalysisBroken("ScheduleState(const ScheduleState&, const time_point&, const time_point&) not found")
    ctor3 = ctor3[0]
    deleg3 = [i for i in ctor3.get("inits", []) if i.get("delegating")]
    body3 = stmt_list(ctor3["body"])
    only_end = []
    for n in body3:
        tgt = None
        if n["k"] == "Bin" and n.get("asg") and strip(n["c"][0])["k"] == "Mem":
            tgt = strip(n["c"][0])["n"]
        elif n["k"] == "OpCall" and n.get("op") == "=" and len(n.get("a", [])) == 2 and strip(n["a"][0])["k"] == "Mem":
            tgt = strip(n["a"][0])["n"]
        only_end.append((tgt, n))
    chk.instance(r_next, "end-time-only", sample=dict(delegates_to=show(deleg3[0]["init"])[:80] if deleg3 else None, body=[t for t, _ in only_end]))
    if not deleg3 or "start_time" not in show(deleg3[0]["init"]):
        chk.violation(r_next, "end-time-only:delegate", "ScheduleState(src, start, end) no longer delegates to ScheduleState(src, start): the two ways of creating the next step can diverge", ctor3["file"], ctor3["l"])
    for tgt, n in only_end:
        if tgt != "m_end_time":
            chk.violation(r_next, "end-time-only:%d" % (n["l"] - ctor3["l"]), "ScheduleState(src, start, end) does `%s` besides setting m_end_time: the last report step of a schedule is built without an end time, so this makes state k depend on whether more input follows step k" % show(n)[:90], ctor3["file"], n["l"])
    cn = [f for f in fx.fn("Opm::Schedule::create_next") if len(f["params"]) == 2]
    if len(cn) != 1:
        raise core.AnalysisBroken("Schedule::create_next(start, end) not found")
    emps = [c for c in walk(cn[0]["body"]) if c["k"] == "MCall" and c.get("m") == "emplace_back"]
    env = {v["n"]: show(v.get("init")) for n in walk(cn[0]["body"]) if n["k"] == "Decl" for v in n["vars"]}
    chk.instance(r_next, "create_next", sample=dict(last=env.get("last"), emplace=[show(c)[:80] for c in emps]))
    if env.get("last") != "this.snapshots.back()" or len(emps) != 2 or not all(show(c["a"][0]) == "last" and "this.snapshots" in show(c.get("obj")) for c in emps):
        chk.violation(r_next, "create_next", "create_next no longer builds the new state from snapshots.back()", cn[0]["file"], cn[0]["l"])

    # ---- C03.prefix: what is fixed before the first report step may only depend on input before the SCHEDULE section
    r_pre = chk.rule("C03.prefix", "code that builds the schedule-wide static data and the first state queries the whole Deck only for keywords that cannot occur in the SCHEDULE section, or stops at SCHEDULE", floor=60)
    import json as _json
    import os as _os
    kwroot = _os.path.join(chk.root if _os.path.isdir(_os.path.join(chk.root, "opm/input/eclipse/share/keywords")) else core.REPO, "opm/input/eclipse/share/keywords")
    sched_kw = {}
    for rel in re.findall(r"^\s+(\d{3}_\w+/[A-Za-z0-9_/]+)\)?\s*$", open(_os.path.join(kwroot, "keyword_list.cmake")).read(), re.M):
        try:
            txt = open(_os.path.join(kwroot, rel)).read()
            txt = re.sub(r"(\d)\.([eE])", r"\1.0\2", txt)
            txt = re.sub(r"(\d)\.(\s*[,}\]\n])", r"\1.0\2", txt)
            d = _json.loads(txt, strict=False)
        except Exception as e:
            raise core.AnalysisBroken("keyword file %s does not parse: %s" % (rel, e))
        sched_kw[d.get("name", rel.split("/")[-1])] = "SCHEDULE" in d.get("sections", [])
    allow_p = load_allow("c03_prefix.json")
    used_p = set()
    by_q = {}
    for f in fns:
        by_q.setdefault(f["q"], []).append(f)
    from verif.callgraph import hidden_constructors
    hidden_p = hidden_constructors(fns)
    clo = set()
    work = ["Opm::ScheduleStatic::ScheduleStatic", "Opm::Schedule::create_first"]
    for w_ in work:
        if w_ not in by_q:
            raise core.AnalysisBroken("anchor %s not found" % w_)
    while work:
        q = work.pop()
        if q in clo:
            continue
        clo.add(q)
        for f in by_q.get(q, []):
            for c in list(f.get("callees", [])) + sorted(hidden_p.get(q, ())):
                if c in by_q and c not in clo:
                    work.append(c)
    QUERY = ("hasKeyword", "get", "operator[]", "getKeywordList", "count", "getKeyword", "index")
    for q in sorted(clo):
        for f in by_q[q]:
            if not f.get("body"):
                continue
            for n in walk_fn(f):
                if n["k"] in ("MCall", "OpCall") and (n.get("cls") or "") == "Opm::Deck" and n.get("m") in QUERY:
                    kws = [t.split("::")[-1] for t in n.get("targs") or []] or [x["v"] for x in walk(n) if x["k"] == "Str"]
                    for kw in kws:
                        key = "%s:%s" % (q, kw)
                        insched = sched_kw.get(kw)
                        chk.instance(r_pre, key, nontrivial=bool(insched), sample=dict(function=q, query=n["m"], keyword=kw, valid_in_SCHEDULE=insched))
                        if insched:
                            a = allow_p.get((q, kw))
                            if a:
                                used_p.add((q, kw))
                                continue
                            chk.violation(r_pre, key, "%s asks the whole Deck for %s, a keyword that may appear in the SCHEDULE section, while building data that is fixed before the first report step: states 0..k then depend on input of later report steps" % (q, kw), f["file"], n["l"])
                if n["k"] == "ForRange" and (strip(n["range"]).get("t") or "").replace("const ", "").strip(" &") in ("Opm::Deck", "Deck"):
                    stops = [i for i in walk(n["body"]) if i["k"] == "If" and any(x["k"] == "Str" and x["v"] == "SCHEDULE" for x in walk(i["cond"])) and any(x["k"] in ("Break", "Return") for x in walk(i["then"]))]
                    key = "%s:loop" % q
                    chk.instance(r_pre, key, sample=dict(function=q, loop="over the whole Deck", stops_at_SCHEDULE=bool(stops)))
                    if not stops:
                        chk.violation(r_pre, key, "%s iterates the whole Deck without stopping at the SCHEDULE keyword while building data that is fixed before the first report step" % q, f["file"], n["l"])

    # stale allow-list entries
    for name, allow, used in (("c03_prefix.json", allow_p, used_p), ("c03_escapes.json", allow_e, used_e), ("c03_through.json", allow_t, used_t), ("c03_index.json", allow_i, used_i), ("c03_globals.json", allow_g, used_g)):
        for k in allow:
            if k not in used:
                chk.info("C03.allow", "allow-list entry %s %s in %s matched nothing on this tree" % (k[0], k[1], name))
    # ---- C03.blocks: the splitter of the SCHEDULE section into report-step blocks
    r_bl = chk.rule("C03.blocks", "ScheduleDeck (the splitter of the SCHEDULE section into one keyword block per report step): add_block closes the current block and opens a new one for every time boundary - the only ways out before that are inside `if (context.rst_skip)`, the skipping of the steps a restart has already simulated; DATES records and TSTEP items each call add_block; every other keyword is appended to the last block (or, while skipping, to block 0 if it is one of the keywords kept from the skipped part)", floor=6)
    from verif.tree import children as _children
    sd = chk.facts(["opm/input/eclipse/Schedule/ScheduleDeck.cpp"])

    def guarded(body, pred_node, guard_pred):
        """for every node satisfying pred_node: is it inside the then-branch of an If whose condition satisfies guard_pred?"""
        out = []

        def rec(n, under):
            if pred_node(n):
                out.append((n, under))
            if n.get("k") == "If" and isinstance(n.get("cond"), dict):
                g = guard_pred(n["cond"])
                for key in ("cond", "then", "else"):
                    x = n.get(key)
                    if isinstance(x, dict):
                        rec(x, under or (g and key == "then"))
                return
            if n.get("k") == "Lambda":
                return
            for c in _children(n):
                rec(c, under)
        rec(body, False)
        return out
    ab = sd.fn("Opm::ScheduleDeck::add_block")
    ctor = [f for f in sd.fn("Opm::ScheduleDeck::ScheduleDeck") if len(f["params"]) == 3]
    ats = sd.fn("Opm::ScheduleDeck::add_TSTEP")
    if len(ab) != 1 or len(ctor) != 1 or len(ats) != 1:
        raise core.AnalysisBroken("ScheduleDeck::add_block / constructor(start, deck, rst_info) / add_TSTEP not found")
    ab, ctor, ats = ab[0], ctor[0], ats[0]
    tparam = [p_["n"] for p_ in ab["params"] if "time_point" in p_["t"]]
    cparam = [p_["n"] for p_ in ab["params"] if "ScheduleDeckContext" in p_["t"]]
    if len(tparam) != 1 or len(cparam) != 1:
        raise core.AnalysisBroken("add_block: time / context parameter not found")
    tparam, cparam = tparam[0], cparam[0]

    def is_skip(c, cp):
        return show(strip(c)) == "%s.rst_skip" % cp
    exits = guarded(ab["body"], lambda n: n.get("k") in ("Return", "Throw"), lambda c: is_skip(c, cparam))
    top = stmt_list(ab["body"])
    tail = [show(x) for x in top[-2:]]
    loc_p = [p_["n"] for p_ in ab["params"] if "KeywordLocation" in p_["t"]]
    tt_p = [p_["n"] for p_ in ab["params"] if "ScheduleTimeType" in p_["t"]]
    want_tail = ["this.m_blocks.back().end_time(%s)" % tparam, "this.m_blocks.emplace_back(%s, %s, %s)" % (loc_p[0] if loc_p else "?", tt_p[0] if tt_p else "?", tparam)]
    chk.instance(r_bl, "add_block:open", sample=dict(last_statements=tail))
    if tail != want_tail:
        chk.violation(r_bl, "add_block:open", "ScheduleDeck::add_block ends with %s; a time boundary closes the current block at its time and opens the next one (%s)" % (tail, want_tail), ab["file"], top[-1]["l"] if top else ab["l"])
    chk.instance(r_bl, "add_block:exits", sample=dict(early_exits=[dict(line=n["l"], kind=n["k"], under_rst_skip=bool(u)) for n, u in exits]))
    for n, u in exits:
        if not u:
            chk.violation(r_bl, "add_block:exit@%s" % show(n)[:40], "ScheduleDeck::add_block leaves at line %d (`%s`) without opening a block, outside `if (%s.rst_skip)`: in a run that is not restarted the restart time is the default (1 JAN 1970) and every keyword after such a boundary lands in the block of an EARLIER report step - the state of step n then depends on input after step n" % (n["l"], show(n)[:80], cparam), ab["file"], n["l"])
    # the two kinds of time boundary each reach add_block once per record / item
    loops_c = [n for n in walk(ctor["body"]) if n["k"] == "ForRange" and "SCHEDULESection" in show(n.get("range"))]
    if len(loops_c) != 1:
        raise core.AnalysisBroken("ScheduleDeck constructor: loop over the SCHEDULE section not found")
    kwv = loops_c[0]["var"]["n"]
    calls_ab = [n for n in walk(loops_c[0]["body"]) if n["k"] == "MCall" and n.get("m") == "add_block"]
    rec_loops = [n for n in walk(loops_c[0]["body"]) if n["k"] == "For" and any(x is c_ for c_ in calls_ab for x in walk(n["body"]))]
    okd = len(calls_ab) == 1 and len(rec_loops) == 1 and show(rec_loops[0]["init"]["vars"][0].get("init")) == "0" and show(rec_loops[0]["cond"]) == "(%s < %s.size())" % (rec_loops[0]["init"]["vars"][0]["n"], kwv) and "++" in show(rec_loops[0].get("inc"))
    chk.instance(r_bl, "DATES", sample=dict(add_block_calls=[n["l"] for n in calls_ab], record_loop=show(rec_loops[0]["cond"]) if rec_loops else None))
    if not okd:
        chk.violation(r_bl, "DATES", "ScheduleDeck constructor: add_block is no longer called once for every record 0..size()-1 of a DATES keyword", ctor["file"], loops_c[0]["l"])
    ca = [n for n in walk(ats["body"]) if n["k"] == "MCall" and n.get("m") == "add_block"]
    lt = [n for n in walk(ats["body"]) if n["k"] == "For" and any(x is c_ for c_ in ca for x in walk(n["body"]))]
    okt = len(ca) == 1 and len(lt) == 1 and show(lt[0]["init"]["vars"][0].get("init")) == "0" and re.fullmatch(r"\(%s < \w+\.data_size\(\)\)" % lt[0]["init"]["vars"][0]["n"], show(lt[0]["cond"])) is not None and "++" in show(lt[0].get("inc"))
    ex_t = guarded(lt[0]["body"], lambda n: n.get("k") in ("Return", "Break", "Continue"), lambda c: False) if lt else []
    chk.instance(r_bl, "TSTEP", sample=dict(add_block_calls=[n["l"] for n in ca], item_loop=show(lt[0]["cond"]) if lt else None))
    if not okt or ex_t:
        chk.violation(r_bl, "TSTEP", "ScheduleDeck::add_TSTEP: add_block is no longer called once for every item 0..data_size()-1 of the TSTEP record", ats["file"], ats["l"])
    # where ordinary keywords go
    pushes = guarded(loops_c[0]["body"], lambda n: n.get("k") == "MCall" and n.get("m") == "push_back" and "m_blocks" in show(n.get("obj")), lambda c: is_skip(c, "context"))
    ctxv = [v["n"] for n in walk(ctor["body"]) if n["k"] == "Decl" for v in n["vars"] if "ScheduleDeckContext" in (v.get("t") or "")]
    if ctxv and ctxv[0] != "context":
        pushes = guarded(loops_c[0]["body"], lambda n: n.get("k") == "MCall" and n.get("m") == "push_back" and "m_blocks" in show(n.get("obj")), lambda c: is_skip(c, ctxv[0]))
    chk.instance(r_bl, "append", sample=dict(appends=[dict(line=n["l"], to=show(n.get("obj")), while_skipping=bool(u)) for n, u in pushes]))
    seen_back = False
    for n, u in pushes:
        tgt = show(n.get("obj"))
        if show(n["a"][0]) != kwv:
            continue
        if u:
            if tgt != "this.m_blocks[0]":
                chk.violation(r_bl, "append:skip", "ScheduleDeck constructor: while skipping, a kept keyword is appended to %s (expected block 0)" % tgt, ctor["file"], n["l"])
        else:
            seen_back = seen_back or tgt == "this.m_blocks.back()"
            if tgt != "this.m_blocks.back()":
                chk.violation(r_bl, "append:%s" % tgt, "ScheduleDeck constructor: a keyword is appended to %s; outside restart skipping it belongs to the block of the current (= last) report step, never an earlier one" % tgt, ctor["file"], n["l"])
    chk.instance(r_bl, "append:current", sample=dict(found=seen_back))
    if not seen_back:
        chk.violation(r_bl, "append:current", "ScheduleDeck constructor: keywords are no longer appended to m_blocks.back()", ctor["file"], loops_c[0]["l"])

    from verif import fallthrough
    fallthrough.run(chk, "C03", floor=2)
    # ---- C03.atstep: a per-step query of Schedule answers from that step
    r_as = chk.rule("C03.atstep", "a const member function (a query) of Schedule that takes a report step / time step parameter (an integer parameter named report_step, reportStep, timeStep, time_step or step) answers from that step: it never calls getWellatEnd / getWellsatEnd / getGroupatEnd and never reads snapshots.back() - mixing step-k groups with last-step wells makes the answer for step k depend on the input of later steps", floor=12)
    sfx = chk.facts(["opm/input/eclipse/Schedule/Schedule.cpp"])
    for f in sfx.fns:
        if not f.get("body") or not f["file"].endswith("Schedule/Schedule.cpp") or (f.get("cls") or "") != "Opm::Schedule":
            continue
        stepp = [p_["n"] for p_ in f.get("params") or [] if p_.get("n") in ("report_step", "reportStep", "timeStep", "time_step", "step", "reportstep") and re.search(r"int|size_t|long|unsigned", p_.get("t") or "")]
        if not stepp or not (f.get("const") or (f.get("sig") or "").rstrip().endswith("const")):
            continue          # queries only: while the schedule is built, the mutators use back() as the current step
        bad_ = []
        for n in walk(f["body"]):
            m_, o_ = meth(n)
            if m_ in ("getWellatEnd", "getWellsatEnd", "getGroupatEnd"):
                bad_.append((n.get("l"), m_))
            elif m_ == "back" and o_ is not None and show(strip(o_)) == "this.snapshots":
                # the clamp `step < snapshots.size() ? snapshots[step] : snapshots.back()` (also as if / else) is a read at the step
                if re.search(r"\(%s (<|>=) this\.snapshots\.size\(\)\)" % re.escape(stepp[0]), show(f["body"])):
                    continue
                bad_.append((n.get("l"), "snapshots.back()"))
        key = "%s@%d" % (f["q"], f["l"])
        chk.instance(r_as, key, sample=dict(function=f["q"], step_parameter=stepp, end_state_reads=len(bad_)))
        for ln, what in bad_:
            chk.violation(r_as, key, "%s takes the step `%s` but reads the END of the schedule (%s): its answer for an earlier step changes when later input changes" % (f["q"], stepp[0], what), f["file"], ln)

    # ---- C03.backflow: nothing flows from the last snapshot into an earlier one
    r_bf = chk.rule("C03.backflow", "Schedule.cpp: a statement that writes to an indexed snapshot `snapshots[k]` (a non-const member call or assignment through it) takes nothing from `snapshots.back()` - neither directly nor through a local reference bound to it: once the whole SCHEDULE section has been iterated, back() is the last report step, so the state at step k would depend on input of later steps.  ", floor=10)
    bfx = chk.facts(["opm/input/eclipse/Schedule/Schedule.cpp"])
    n_bf = 0
    for f in bfx.fns:
        if not f.get("body") or not f["file"].endswith("Schedule/Schedule.cpp"):
            continue
        alias = set()
        for n in walk(f["body"]):
            if n.get("k") == "Decl":
                for v in n["vars"]:
                    if v.get("ref") and isinstance(v.get("init"), dict) and re.match(r"this\.snapshots\.back\(\)", show(strip(v["init"]))):
                        alias.add(v["n"])
        for n in walk(f["body"]):
            tgt = args = None
            if n.get("k") == "MCall" and not n.get("const") and n.get("obj") is not None:
                tgt, args = n["obj"], n.get("a") or []
            elif n.get("k") == "Bin" and n.get("asg"):
                tgt, args = n["c"][0], [n["c"][1]]
            elif n.get("k") == "OpCall" and n.get("op") == "=" and len(n.get("a") or []) == 2:
                tgt, args = n["a"][0], [n["a"][1]]
            if tgt is None:
                continue
            tt = show(strip(tgt))
            m_ = re.match(r"this\.snapshots\[(.+?)\]", tt)
            if not m_:
                continue
            n_bf += 1
            key = "%s@%d" % (f["n"], n["l"])
            at = " ".join(show(a_) for a_ in args)
            src = "this.snapshots.back()" in at or any(re.search(r"(?<![\w.])%s\b" % re.escape(a_), at) for a_ in alias)
            chk.instance(r_bf, key, sample=dict(function=f["q"], target=tt[:80], from_back=src))
            if src:
                chk.violation(r_bf, key, "%s updates snapshots[%s] from snapshots.back() (%s): after the whole SCHEDULE section has been iterated that is the LAST report step, so the state at step %s depends on input that belongs to later steps" % (f["q"], m_.group(1), at[:120], m_.group(1)), f["file"], n["l"])

    from verif import moved
    moved.run(chk, "C03", r"^/repo/opm/input/eclipse/Schedule/", floor=95)
    from verif import argorder
    argorder.run(chk, "C03", floor=55)

    chk.assumptions += [
        "intraprocedural alias classification (verif/cow.py): a handle is followed through references, pointers, smart pointers, iterators and range-for variables; calls are judged by the callee's parameter types",
        "tables/c03_*.json: allow-lists, one (function, item) pair and one reason per entry",
    ]
