"""C02  Unit conversion: invertible, composable, physical, deck-unit independent — table rules.

Decides (as written in the tables): mutual inverseness of the to/from factor tables (C02.inv), uniformity of
every measure's dimensional formula across unit systems (C02.sys), the formula itself against a frozen
table (C02.dim), wiring of the tables (C02.wire), physical definition of every constant (C02.phys), the
algebraic form of to_si/from_si (C02.affine), composite-dimension handling (C02.parse), resolvability of
every keyword dimension (C02.kwdim) and symmetry of the output conversions (C02.io).
"""
import json
import os
import re
from fractions import Fraction

from verif import core
from verif import symb as sy
from verif.tree import strip as strip_
from verif.tree import walk, walk_fn, show, stmt_list, meth, strip

LEVEL = "other"
US = "opm/input/eclipse/Units/UnitSystem.cpp"
DIM = "opm/input/eclipse/Units/Dimension.cpp"
RV = "opm/output/eclipse/RestartValue.cpp"
SOL = "opm/output/data/Solution.cpp"
SYSTEMS = {"metric": "Metric", "field": "Field", "lab": "Lab", "pvt_m": "PVT_M"}
INIT = {"metric": "initMETRIC", "field": "initFIELD", "lab": "initLAB", "pvt_m": "initPVT_M", "input": "initINPUT"}


# ---------------------------------------------------------------------------------------
# monomials over named constants (dimension algebra where every per-system constant is a base symbol)

def monomial(n, ns):
    """Expression -> (numeric factor, {symbol: exponent}) with symbols = constants of namespace `ns`
    (Opm::<ns>::X -> X); unit::square/cubic handled; anything else -> None."""
    n = strip(n)
    k = n["k"]
    if k in ("Int",):
        return Fraction(n["v"]), {}
    if k == "Flt":
        return Fraction(n["v"]), {}
    if k == "Ref":
        q = n.get("q") or n["n"]
        if q.startswith("Opm::%s::" % ns):
            return Fraction(1), {q.split("::")[-1]: 1}
        if q.startswith(("Opm::unit::", "Opm::prefix::")) and "fv" in n:
            return None  # a raw unit inside a measure table: foreign symbol
        return None
    if k == "Bin" and n["op"] in ("*", "/"):
        a = monomial(n["c"][0], ns)
        b = monomial(n["c"][1], ns)
        if a is None or b is None:
            return None
        sgn = 1 if n["op"] == "*" else -1
        d = dict(a[1])
        for s, e in b[1].items():
            d[s] = d.get(s, 0) + sgn * e
        d = {s: e for s, e in d.items() if e}
        return (a[0] * b[0] if sgn == 1 else a[0] / b[0]), d
    if k == "Call" and (n.get("fn") or "") in ("Opm::unit::square", "Opm::unit::cubic"):
        a = monomial(n["a"][0], ns)
        if a is None:
            return None
        p = 2 if n["fn"].endswith("square") else 3
        return a[0] ** p, {s: e * p for s, e in a[1].items()}
    return None


def mono_str(m):
    if m is None:
        return "<not a monomial>"
    f, d = m
    num = "*".join("%s%s" % (s, "^%d" % e if e != 1 else "") for s, e in sorted(d.items()) if e > 0) or "1"
    den = "*".join("%s%s" % (s, "^%d" % -e if e != -1 else "") for s, e in sorted(d.items()) if e < 0)
    s = num + ("/(" + den + ")" if den else "")
    return s if f == 1 else "%s*%s" % (f, s)


def parse_mono(text):
    """'LiquidSurfaceVolume/Time' | 'Pressure/(GeomVolume/Time)^2' is not needed: table uses 'A*B^2/C*D' = (A*B^2)/(C*D)."""
    d = {}
    if text in ("1", ""):
        return Fraction(1), d
    num, _, den = text.partition("/")
    for part, sgn in ((num, 1), (den, -1)):
        for t in [x for x in part.split("*") if x and x != "1"]:
            s, _, e = t.partition("^")
            d[s] = d.get(s, 0) + sgn * (int(e) if e else 1)
    return Fraction(1), {s: e for s, e in d.items() if e}


# ---------------------------------------------------------------------------------------
# tiny rational-polynomial normaliser for the conversion formulas (purely syntactic normal form)

def poly_mul(a, b):
    out = {}
    for ma, ca in a.items():
        for mb, cb in b.items():
            d = dict(ma)
            for s, e in mb:
                d[s] = d.get(s, 0) + e
            m = tuple(sorted((s, e) for s, e in d.items() if e))
            out[m] = out.get(m, 0) + ca * cb
    return {m: c for m, c in out.items() if c}


def poly_add(a, b, sgn=1):
    out = dict(a)
    for m, c in b.items():
        out[m] = out.get(m, 0) + sgn * c
    return {m: c for m, c in out.items() if c}


def poly(n, leaf, env=None):
    """Expression -> polynomial {monomial: coeff}; `leaf(node)` names atomic symbols."""
    n = strip(n)
    s = leaf(n)
    if s is not None:
        return {((s, 1),): Fraction(1)}
    k = n["k"]
    if k in ("Int", "Flt"):
        return {(): Fraction(n["v"])} if Fraction(n["v"]) else {}
    if k == "Ref" and env and n["n"] in env:
        return poly(env[n["n"]], leaf, env)
    if k == "Bin" and n["op"] in ("+", "-"):
        return poly_add(poly(n["c"][0], leaf, env), poly(n["c"][1], leaf, env), 1 if n["op"] == "+" else -1)
    if k == "Bin" and n["op"] == "*":
        return poly_mul(poly(n["c"][0], leaf, env), poly(n["c"][1], leaf, env))
    if k == "Bin" and n["op"] == "/":
        den = poly(n["c"][1], leaf, env)
        if len(den) != 1:
            raise core.AnalysisBroken("conversion formula divides by a sum: %s" % show(n))
        (m, c), = den.items()
        inv = {tuple((s, -e) for s, e in m): 1 / c}
        return poly_mul(poly(n["c"][0], leaf, env), inv)
    if k == "Un" and n["op"] == "-":
        return poly_add({}, poly(n["c"][0], leaf, env), -1)
    raise core.AnalysisBroken("conversion formula has an unexpected node %s: %s" % (k, show(n)))


def poly_str(p):
    def mono(m):
        return "*".join("%s%s" % (s, "^%d" % e if e != 1 else "") for s, e in m) or "1"
    return " + ".join("%s*%s" % (c, mono(m)) for m, c in sorted(p.items())) or "0"


def P(text):
    """Build the expected polynomial from a short string like 'F*v - F*O'."""
    out = {}
    text = text.replace(" ", "").replace("^-", "^~")
    for sign, term in re.findall(r"([+-]?)([^+-]+)", text):
        term = term.replace("^~", "^-")
        d = {}
        for f in term.split("*"):
            s, _, e = f.partition("^")
            d[s] = d.get(s, 0) + (int(e) if e else 1)
        m = tuple(sorted(d.items()))
        out[m] = out.get(m, 0) + (Fraction(-1) if sign == "-" else Fraction(1))
    return out


def idx_leaf(names):
    """leaf namer: this->TABLE[static_cast<int>(m)] -> names[TABLE]; the value parameter -> 'v'."""
    def leaf(n):
        if n["k"] == "Idx":
            b = strip(n["c"][0])
            if b["k"] == "Mem" and b["n"] in names:
                return names[b["n"]]
        if n["k"] == "Mem" and n["n"] in names:
            return names[n["n"]]
        if n["k"] == "Ref" and n["n"] in names:
            return names[n["n"]]
        return None
    return leaf


def load_kw_json(path):
    txt = open(path).read()
    txt = re.sub(r"(\d)\.([eE])", r"\1.0\2", txt)       # 1.e-01 (accepted by cJSON, not by python)
    txt = re.sub(r"(\d)\.(\s*[,}\]\n])", r"\1.0\2", txt)   # 35.
    return json.loads(txt, strict=False)


def run(chk):
    fx = chk.facts([US, DIM, RV, SOL], files_re="^/repo/opm/input/eclipse/Units/")
    measures = [e["n"] for e in fx.enum1("Opm::UnitSystem::measure")["items"]]
    if measures[-1] != "_count":
        raise core.AnalysisBroken("measure enum no longer ends with _count")
    N = len(measures) - 1
    tabs = {v["n"]: v for v in fx.vars if v["file"].endswith("UnitSystem.cpp")}

    def table(name):
        if name not in tabs:
            raise core.AnalysisBroken("table %s not found in UnitSystem.cpp" % name)
        il = tabs[name]["init"]
        if il["k"] != "InitList":
            raise core.AnalysisBroken("table %s is not brace-initialised" % name)
        return il["c"], tabs[name]

    F = tabs["to_metric"]["file"] if "to_metric" in tabs else None
    consts_fv = {v["q"]: float(v["fv"]) for v in fx.vars if v["file"].endswith("Units.hpp") and "fv" in v}
    dims_want = core.load_table("measure_dims.json")["measures"]

    r_len = chk.rule("C02.len", "every factor/offset/name table has exactly measure::_count entries", floor=20)
    r_inv = chk.rule("C02.inv", "to_<sys>[i] is 1 or 1/E and from_<sys>[i] is 1 resp. the same expression E (exact, rounding-free proof of mutual inverseness)", floor=5 * 46)
    r_sys = chk.rule("C02.sys", "every measure has the same dimensional formula in all four unit systems (modulo the namespace)", floor=46)
    r_dim = chk.rule("C02.dim", "the dimensional formula of every measure equals the frozen formula (tables/measure_dims.json)", floor=4 * 46)
    r_off = chk.rule("C02.offset", "conversion offsets are zero except for measure::temperature, where it is the system's TemperatureOffset", floor=5 * 46)

    forms = {}
    for sysname in list(SYSTEMS) + ["input"]:
        ns = SYSTEMS.get(sysname)
        to, tv = table("to_" + sysname)
        fr, fv = table("from_" + sysname)
        off, ov = table("from_%s_offset" % sysname)
        names, nv = table(sysname + "_names")
        for nm, t in (("to_", to), ("from_", fr), ("offset", off), ("names", names)):
            chk.instance(r_len, "%s:%s" % (sysname, nm), sample=dict(table=nm + sysname, entries=len(t), expected=N))
            if len(t) != N:
                chk.violation(r_len, "%s:%s" % (sysname, nm), "table %s%s has %d entries, measure::_count is %d: later measures read a neighbouring table or zero" % (nm, sysname, len(t), N), tv["file"], tv["l"])
        for i in range(min(N, len(to), len(fr))):
            key = "%s:%s" % (sysname, measures[i])
            a, b = strip(to[i]), strip(fr[i])
            sa, sb = show(a), show(b)
            chk.instance(r_inv, key, sample=dict(system=sysname, measure=measures[i], to=sa.replace("Opm::", ""), frm=sb.replace("Opm::", "")))
            ok = False
            if sa in ("1", "1.0") and sb in ("1", "1.0"):
                ok = True
                E = None
            elif a["k"] == "Bin" and a["op"] == "/" and show(a["c"][0]) in ("1", "1.0") and show(strip(a["c"][1])) == sb:
                ok = True
                E = b
            else:
                E = b
            if not ok:
                # spelt differently: accept iff the compile-time values are reciprocal to within one rounding
                va, vb = to[i].get("fv", to[i].get("v")), fr[i].get("fv", fr[i].get("v"))
                if va is not None and vb is not None and abs(float(va) * float(vb) - 1.0) <= 4.5e-16:
                    ok = True
                    chk.info(r_inv, "%s: reciprocal by value, not by spelling (%s vs %s)" % (key, sa, sb))
            if not ok:
                chk.violation(r_inv, key, "to_%s[%s] = %s is not the reciprocal of from_%s[%s] = %s" % (sysname, measures[i], sa, sysname, measures[i], sb), tv["file"], to[i].get("l"))
            if ns:
                m = monomial(E, ns) if E is not None else (Fraction(1), {})
                forms.setdefault(i, {})[sysname] = (m, fr[i].get("l"))
                want = parse_mono(dims_want.get(measures[i], "?")) if measures[i] in dims_want else None
                chk.instance(r_dim, key, sample=dict(system=sysname, measure=measures[i], formula=mono_str(m)))
                if want is None:
                    chk.fail_broken("C02.dim: measure %s has no frozen dimensional formula in tables/measure_dims.json (confirm and add it)" % measures[i])
                elif m is None or m[0] != 1 or m[1] != want[1]:
                    # spelt differently: decide on the value (constants are compile-time, evaluated by clang)
                    val = fr[i].get("fv", fr[i].get("v"))
                    wv = 1.0
                    for sname, e in want[1].items():
                        c = consts_fv.get("Opm::%s::%s" % (ns, sname))
                        if c is None:
                            raise core.AnalysisBroken("constant %s::%s not found" % (ns, sname))
                        wv *= c ** e
                    if val is not None and abs(float(val) - wv) <= 1e-12 * abs(wv):
                        chk.info(r_dim, "%s: from_%s spelt %s, numerically equal to %s in this system" % (measures[i], sysname, mono_str(m), dims_want[measures[i]]))
                        forms[i][sysname] = ((Fraction(1), want[1]), fr[i].get("l"))
                        continue
                    chk.violation(r_dim, key, "from_%s[%s] = %s has the dimensional formula %s; %s is %s" % (sysname, measures[i], sb.replace("Opm::", ""), mono_str(m), measures[i], dims_want[measures[i]]), fv["file"], fr[i].get("l"))
            elif E is not None:
                chk.violation(r_inv, key + ":input", "the INPUT (identity) system has a non-unit factor for %s" % measures[i], fv["file"], fr[i].get("l"))
        for i in range(min(N, len(off))):
            key = "%s:%s" % (sysname, measures[i])
            so = show(strip(off[i]))
            chk.instance(r_off, key, nontrivial=(measures[i] == "temperature"), sample=dict(system=sysname, measure=measures[i], offset=so))
            if measures[i] == "temperature" and ns:
                if so != "Opm::%s::TemperatureOffset" % ns:
                    chk.violation(r_off, key, "temperature offset of %s is %s, expected %s::TemperatureOffset" % (sysname, so, ns), ov["file"], off[i].get("l"))
            elif so not in ("0", "0.0"):
                chk.violation(r_off, key, "non-zero conversion offset %s for %s in %s" % (so, measures[i], sysname), ov["file"], off[i].get("l"))
    for i, per in sorted(forms.items()):
        vals = {s: mono_str(m) for s, (m, l) in per.items()}
        chk.instance(r_sys, measures[i], sample={"measure": measures[i], **vals})
        ref = max(set(vals.values()), key=list(vals.values()).count)
        for s, v in vals.items():
            if v != ref:
                chk.violation(r_sys, "%s:%s" % (s, measures[i]), "%s has formula %s in %s but %s in the other systems" % (measures[i], v, s, ref), F, per[s][1])

    # ---- wiring and addDimension lists
    r_wire = chk.rule("C02.wire", "init<SYS> wires measure_table_from_si = to_<sys>, measure_table_to_si = from_<sys>, offsets and names of the same system", floor=20)
    r_add = chk.rule("C02.adddim", "init<SYS> registers the same dimension names in every system, each with the system's own constant of that name (or the frozen composite)", floor=4 * 28)
    adds = {}
    for sysname, fname in INIT.items():
        fn = fx.fn1("Opm::UnitSystem::" + fname)
        want = {"measure_table_from_si": "to_" + sysname, "measure_table_to_si": "from_" + sysname,
                "measure_table_to_si_offset": "from_%s_offset" % sysname, "unit_name_table": sysname + "_names"}
        got = {}
        for n in stmt_list(fn["body"]):
            if n["k"] == "Bin" and n["op"] == "=" and strip(n["c"][0])["k"] == "Mem":
                got[strip(n["c"][0])["n"]] = show(strip(n["c"][1])).split("::")[-1]
        for mem, w in want.items():
            chk.instance(r_wire, "%s:%s" % (sysname, mem), sample=dict(init=fname, member=mem, table=got.get(mem)))
            if got.get(mem) != w:
                chk.violation(r_wire, "%s:%s" % (sysname, mem), "%s assigns %s = %s, expected %s" % (fname, mem, got.get(mem), w), fn["file"], fn["l"])
        ad = {}
        for n in walk(fn["body"]):
            if n["k"] == "MCall" and n.get("m") == "addDimension":
                name = n["a"][0]
                name = [x["v"] for x in walk(name) if x["k"] == "Str"]
                if len(name) != 1:
                    raise core.AnalysisBroken("%s: addDimension with a non-literal name" % fname)
                ad[name[0]] = (n["a"][1:], n["l"])
        adds[sysname] = (ad, fn)
    comp = core.load_table("measure_dims.json")["dimension_names"]
    names_all = set()
    for sysname, (ad, fn) in adds.items():
        if sysname in SYSTEMS:      # the four deck unit systems; INPUT (identity) is checked for its factors only
            names_all |= set(ad)
    for sysname, (ad, fn) in adds.items():
        ns = SYSTEMS.get(sysname)
        for nm in sorted(names_all):
            key = "%s:%s" % (sysname, nm)
            if nm not in ad and sysname not in SYSTEMS:
                chk.info(r_add, "INPUT system does not register dimension '%s'" % nm)
                continue
            if nm not in ad:
                chk.instance(r_add, key)
                chk.violation(r_add, key, "dimension '%s' is registered in other unit systems but not in %s: keywords using it fail in %s decks" % (nm, INIT[sysname], sysname.upper()), fn["file"], fn["l"])
                continue
            args, line = ad[nm]
            val = show(strip(args[0])).replace("Opm::", "")
            chk.instance(r_add, key, sample=dict(system=sysname, dimension=nm, factor=val))
            if nm not in comp:
                chk.fail_broken("C02.adddim: " + "dimension '%s' has no frozen constant in tables/measure_dims.json (confirm and add it)" % nm)
                continue
            if ns is None:
                if val not in ("1", "1.0"):
                    chk.violation(r_add, key, "INPUT system registers '%s' with factor %s" % (nm, val), fn["file"], line)
                continue
            want = comp[nm]
            if want in ("1", "nan"):
                ok = (val in ("1", "1.0")) if want == "1" else ("quiet_NaN" in val or "nan" in val.lower())
            else:
                m = monomial(args[0], ns)
                ok = m is not None and m[0] == 1 and m[1] == parse_mono(want)[1]
            if not ok:
                chk.violation(r_add, key, "%s registers dimension '%s' with %s; expected %s::%s" % (INIT[sysname], nm, val, ns, want), fn["file"], line)
            if nm == "Temperature":
                o = show(strip(args[1])).replace("Opm::", "") if len(args) > 1 and args[1]["k"] != "DefArg" else None
                if o != "%s::TemperatureOffset" % ns:
                    chk.violation(r_add, key + ":offset", "%s registers 'Temperature' with offset %s; expected %s::TemperatureOffset" % (INIT[sysname], o, ns), fn["file"], line)
            elif len(args) > 1 and args[1]["k"] != "DefArg" and show(strip(args[1])) not in ("0", "0.0"):
                chk.violation(r_add, key + ":offset", "%s registers '%s' with a non-zero offset %s" % (INIT[sysname], nm, show(args[1])), fn["file"], line)

    # ---- physical definitions
    r_phys = chk.rule("C02.phys", "every constant of Units.hpp equals its physical definition (independent table, relative tolerance 1e-12)", floor=150)
    phys = core.load_table("physical_units.json")
    base = {k: float(Fraction(v)) if isinstance(v, str) and "/" in v else float(v) for k, v in phys["base"].items()}
    consts = {v["q"]: v for v in fx.vars if v["file"].endswith("Units.hpp")}
    for q, expr in sorted(phys["constants"].items()):
        if q not in consts:
            raise core.AnalysisBroken("constant %s vanished from Units.hpp" % q)
        v = consts[q]
        got = v.get("fv")
        if got is None and "ev" in v:
            got = v["ev"]
        if got is None:
            raise core.AnalysisBroken("constant %s is no longer a compile-time constant" % q)
        got = float(got)
        want = float(eval(expr, {"__builtins__": {}}, base))
        ok = abs(got - want) <= 1e-12 * max(abs(want), 1e-300)
        chk.instance(r_phys, q, sample=dict(constant=q, value=got, definition=expr))
        if not ok:
            chk.violation(r_phys, q, "%s = %.17g, but its physical definition (%s) is %.17g" % (q, got, expr, want), v["file"], v["l"])
    for q, v in consts.items():
        if q not in phys["constants"]:
            chk.fail_broken("C02.phys: " + "constant %s is not in tables/physical_units.json (confirm its definition and add it)" % q)

    # ---- affine forms
    r_aff = chk.rule("C02.affine", "to_si is v*T + O and from_si is (v - O)*F on the wired tables (with C02.inv this makes them mutual inverses); Dimension::convert* likewise", floor=6)
    sym = idx_leaf({"measure_table_from_si": "F", "measure_table_to_si": "T", "measure_table_to_si_offset": "O", "val": "v",
                    "m_SIfactor": "T", "m_SIoffset": "O", "rawValue": "v", "siValue": "v", "x": "v", "factor": "X", "offset": "O"})
    cases = []
    for f in fx.fn("Opm::UnitSystem::from_si") + fx.fn("Opm::UnitSystem::to_si"):
        kind = f["n"]
        ps = [p["t"] for p in f["params"]]
        if ps == ["Opm::UnitSystem::measure", "double"]:
            ret = [n for n in walk(f["body"]) if n["k"] == "Return"][0]["e"]
            cases.append((f, "scalar", kind, poly(ret, sym), P("F*v - F*O") if kind == "from_si" else P("T*v + O")))
        elif ps == ["Opm::UnitSystem::measure", "std::vector<double> &"]:
            env = {}
            for n in walk(f["body"]):
                if n["k"] == "Decl":
                    for v in n["vars"]:
                        env[v["n"]] = v.get("init")
            lam = [n for n in walk(f["body"]) if n["k"] == "Lambda"]
            if len(lam) != 1:
                raise core.AnalysisBroken("%s(measure, vector): expected one lambda" % kind)
            ret = [n for n in walk(lam[0]["body"]) if n["k"] == "Return"][0]["e"]
            # 'factor' must be the right table
            fac = show(strip(env["factor"]))
            wantfac = "this.measure_table_from_si" if kind == "from_si" else "this.measure_table_to_si"
            p = poly(ret, sym)
            cases.append((f, "vector", kind, p, P("X*v - X*O") if kind == "from_si" else P("X*v + O")))
            chk.instance(r_aff, "%s:vector:table" % kind, sample=dict(function=kind, factor=fac))
            if not fac.startswith(wantfac + "[") or not show(strip(env["offset"])).startswith("this.measure_table_to_si_offset["):
                chk.violation(r_aff, "%s:vector:table" % kind, "%s(measure, vector) reads factor %s / offset %s; expected %s and measure_table_to_si_offset" % (kind, fac, show(env["offset"]), wantfac), f["file"], f["l"])
            tr = [n for n in walk(f["body"]) if n["k"] == "Call" and (n.get("fn") or "").endswith("std::transform")]
            if len(tr) != 1 or [show(a) for a in tr[0]["a"][:3]] != ["data.begin()", "data.end()", "data.begin()"]:
                chk.violation(r_aff, "%s:vector:range" % kind, "%s(measure, vector) no longer transforms the whole vector in place" % kind, f["file"], f["l"])
    for name, want in (("convertRawToSi", "T*v + O"), ("convertSiToRaw", "T^-1*v - T^-1*O")):
        f = fx.fn1("Opm::Dimension::" + name)
        ret = [n for n in stmt_list(f["body"]) if n["k"] == "Return"]
        if len(ret) != 1:
            raise core.AnalysisBroken("Dimension::%s: expected one top-level return" % name)
        cases.append((f, "Dimension", name, poly(ret[0]["e"], sym), P(want)))
    for f, flavour, kind, got, want in cases:
        key = "%s:%s" % (kind, flavour)
        chk.instance(r_aff, key, sample=dict(function=f["q"], flavour=flavour, normal_form=poly_str(got)))
        if got != want:
            chk.violation(r_aff, key, "%s (%s) computes %s; the conversion must be %s" % (f["q"], flavour, poly_str(got), poly_str(want)), f["file"], f["l"])
    if len(cases) != 6:
        raise core.AnalysisBroken("expected 4 UnitSystem + 2 Dimension conversion functions, found %d" % len(cases))
    # string overloads go through parse + Dimension
    for kind, conv in (("from_si", "convertSiToRaw"), ("to_si", "convertRawToSi")):
        fs = [f for f in fx.fn("Opm::UnitSystem::" + kind) if [p["t"] for p in f["params"]] == ["const std::string &", "double"]]
        if len(fs) != 1:
            raise core.AnalysisBroken("UnitSystem::%s(string,double) not found" % kind)
        calls = [meth(n)[0] for n in walk(fs[0]["body"]) if n["k"] == "MCall"]
        chk.instance(r_aff, kind + ":string", sample=calls)
        if calls != ["parse", conv] and sorted(calls) != sorted(["parse", conv]):
            chk.violation(r_aff, kind + ":string", "UnitSystem::%s(string, double) calls %s; expected parse + Dimension::%s" % (kind, calls, conv), fs[0]["file"], fs[0]["l"])

    # ---- composite dimensions
    r_parse = chk.rule("C02.parse", "composite dimensions: parseFactor multiplies the SI scalings of the '*' parts; parse divides dividend by divisor (one '/')", floor=2)
    pf = fx.fn1("Opm::UnitSystem::parseFactor")
    muls = [show(n) for n in walk(pf["body"]) if n["k"] == "Bin" and n.get("asg") and "SIfactor" in show(n["c"][0])]
    splits = [show(n["a"][1]) for n in walk(pf["body"]) if n["k"] == "Call" and (n.get("fn") or "").endswith("split_string")]
    chk.instance(r_parse, "parseFactor", sample=dict(accumulate=muls, split=splits))
    if muls != ["(SIfactor *= dim.getSIScaling())"] or splits != ["'*'"]:
        chk.violation(r_parse, "parseFactor", "parseFactor no longer forms the product of the factors of the '*'-separated parts: %s, split %s" % (muls, splits), pf["file"], pf["l"])
    init = [v for n in walk(pf["body"]) if n["k"] == "Decl" for v in n["vars"] if v["n"] == "SIfactor"]
    if not init or show(init[0]["init"]) not in ("1", "1.0"):
        chk.violation(r_parse, "parseFactor:init", "parseFactor starts the product from %s" % (show(init[0]["init"]) if init else None), pf["file"], pf["l"])
    ps = fx.fn1("Opm::UnitSystem::parse")
    rets = [n for n in stmt_list(ps["body"]) if n["k"] == "Return"]
    last = show(rets[-1]["e"]) if rets else ""
    splits = [show(n["a"][1]) for n in walk(ps["body"]) if n["k"] == "Call" and (n.get("fn") or "").endswith("split_string")]
    env = {v["n"]: show(v.get("init")) for n in walk(ps["body"]) if n["k"] == "Decl" for v in n["vars"]}
    chk.instance(r_parse, "parse", sample=dict(result=last, split=splits, dividend=env.get("dividend"), divisor=env.get("divisor")))
    if "(dividend.getSIScaling() / divisor.getSIScaling())" not in last or splits != ["'/'"] or \
            env.get("dividend") != "this.parseFactor(parts[0])" or env.get("divisor") != "this.parseFactor(parts[1])":
        chk.violation(r_parse, "parse", "UnitSystem::parse no longer returns factor(parts[0]) / factor(parts[1]): %s" % last, ps["file"], ps["l"])

    # ---- keyword dimensions
    r_kw = chk.rule("C02.kwdim", "every dimension string of every compiled-in keyword item resolves ('*' and at most one '/') to names registered in all unit systems", floor=900)
    kwroot = os.path.join(chk.root if os.path.isdir(os.path.join(chk.root, "opm/input/eclipse/share/keywords")) else core.REPO, "opm/input/eclipse/share/keywords")
    listed = re.findall(r"^\s+(\d{3}_\w+/[A-Za-z0-9_/]+)\)?\s*$", open(os.path.join(kwroot, "keyword_list.cmake")).read(), re.M)
    common = set.intersection(*[set(ad) for s_, (ad, _) in adds.items() if s_ in SYSTEMS])
    nkw = 0
    for rel in listed:
        path = os.path.join(kwroot, rel)
        try:
            d = load_kw_json(path)
        except Exception as e:
            raise core.AnalysisBroken("keyword file %s does not parse: %s" % (rel, e))
        nkw += 1

        def items(d):
            for it in d.get("items", []):
                yield it
            for rec in d.get("records", []):
                for it in rec:
                    yield it
            if isinstance(d.get("data"), dict):
                yield d["data"]
            for alt in d.get("alternating_records", []):
                for it in alt:
                    yield it
        for it in items(d):
            dim = it.get("dimension")
            if dim is None:
                continue
            for x in (dim if isinstance(dim, list) else [dim]):
                key = "%s:%s:%s" % (d.get("name", rel), it.get("name", it.get("item", "data")), x)
                chk.instance(r_kw, key, sample=dict(keyword=d.get("name"), item=it.get("name"), dimension=x))
                if x.count("/") > 1:
                    chk.violation(r_kw, key, "dimension '%s' has more than one '/': UnitSystem::parse throws" % x, path, None)
                for part in x.replace("/", "*").split("*"):
                    if part not in common:
                        chk.violation(r_kw, key, "dimension '%s' of %s item %s uses '%s', which is not registered in every unit system" % (x, d.get("name"), it.get("name"), part), path, None)
                vt = it.get("value_type")
                if vt not in ("DOUBLE", "UDA"):
                    chk.violation(r_kw, key + ":type", "item %s of %s carries a dimension but has value_type %s" % (it.get("name"), d.get("name"), vt), path, None)
    chk.extra["keyword_files_scanned"] = nkw

    # ---- C02.fpunit: the two places that give a cell property its unit
    r_fp = chk.rule("C02.fpunit", "a cell property keyword has its unit in two places - the data item of the compiled-in keyword definition converts an explicit array, the unit_string of the FieldProps keyword table (FieldProps.hpp) converts the scalar of EQUALS/ADD/MINVALUE/.../OPERATE: both name the same dimension (same names with the same exponents, or names whose registered factors agree in all four deck unit systems)", floor=30)

    def dimvec(x):
        out = {}
        if x is None:
            return out
        parts = x.split("/")
        for sg, grp in ((1, parts[0]), (-1, "*".join(parts[1:]))):
            for nm in grp.split("*"):
                nm = nm.strip()
                if nm and nm != "1":
                    out[nm] = out.get(nm, 0) + sg
        return {k: v for k, v in out.items() if v}
    def numfac(x, sysname):
        ad, _fn = adds[sysname]
        val = 1.0
        for nm, e in dimvec(x).items():
            if nm not in ad:
                return None
            m = monomial(ad[nm][0][0], SYSTEMS[sysname])
            if m is None:
                t = show(strip(ad[nm][0][0]))
                if t in ("1", "1.0"):
                    f_ = 1.0
                else:
                    return None
            else:
                f_ = float(m[0])
                for sym, ex in m[1].items():
                    c_ = consts_fv.get("Opm::%s::%s" % (SYSTEMS[sysname], sym))
                    if c_ is None:
                        return None
                    f_ *= c_ ** ex
            val *= f_ ** e
        return val

    def same_factor(a, b):
        """the two dimension strings convert with the same factor in each of the four deck unit systems"""
        for sysname in SYSTEMS:
            fa, fb = numfac(a, sysname), numfac(b, sysname)
            if fa is None or fb is None or abs(fa - fb) > 1e-12 * max(abs(fa), abs(fb)):
                return False
        return True
    kwdims = {}
    for rel in listed:
        try:
            d = load_kw_json(os.path.join(kwroot, rel))
        except Exception:
            continue
        if isinstance(d.get("data"), dict):
            kwdims.setdefault(d.get("name"), []).append((rel, d["data"].get("dimension")))
    fpx = chk.facts(["opm/input/eclipse/EclipseState/Grid/FieldProps.cpp"], files_re=r"^/repo/opm/input/eclipse/EclipseState/Grid/FieldProps\.(hpp|cpp)$")
    n_fp = 0
    for v in fpx.vars:
        if not v["file"].endswith("FieldProps.hpp") or "keyword_info<double>" not in (v.get("t") or "") or not isinstance(v.get("init"), dict):
            continue
        for pair in walk(v["init"]):
            if pair.get("k") not in ("Ctor", "InitList") or "std::pair<" not in (pair.get("t") or "")[:24]:
                continue
            kids = [c for c in (pair.get("a") or pair.get("c") or []) if isinstance(c, dict)]
            if len(kids) != 2 or strip_(kids[0]).get("k") != "Str":
                continue
            name = strip_(kids[0])["v"]
            us = [n for n in walk(kids[1]) if n.get("k") in ("MCall", "Call") and meth(n)[0] == "unit_string"]
            unit = None
            if us:
                strs = [x["v"] for x in walk(us[0]["a"][0]) if x.get("k") == "Str"] if us[0].get("a") else []
                unit = strs[0] if strs else "?"
            if name not in kwdims:
                chk.info(r_fp, "FieldProps table %s lists %s, for which no compiled-in keyword with a data item exists" % (v["q"].split("::")[-2], name))
                continue
            for rel, kdim in kwdims[name]:
                key = "%s:%s" % (v["q"].split("::")[-2], name)
                n_fp += 1
                chk.instance(r_fp, key, nontrivial=unit is not None, sample=dict(keyword=name, table=v["q"], unit_string=unit, keyword_file=rel, data_dimension=kdim))
                if dimvec(unit) != dimvec(kdim) and not same_factor(unit, kdim):
                    chk.violation(r_fp, "%s=%s|%s" % (key, unit, kdim), "%s: the FieldProps table %s gives the unit `%s`, the keyword definition %s gives its data the dimension `%s`: an explicit array and the scalar of a box/region operation on the same keyword are converted with different factors" % (name, v["q"], unit, rel, kdim), v["file"], pair.get("l") or v["l"])

    # ---- C02.udadim: the unit a UDA-controlled quantity gets when it is restored, against the unit its keyword gives it
    r_ud = chk.rule("C02.udadim", "UnitSystem::uda_dim(control) - the dimension UDQActive::load_rst gives a user-defined argument when a run is restarted - converts with the same factor, in each of the four deck unit systems, as the dimension of the keyword item the control stands for (WCONPROD_ORAT: item ORAT of WCONPROD, ...; WELTARG_X like WCONPROD_X; an item without a dimension means identity): otherwise the same UDQ value is a different target before and after a restart", floor=20)
    ud = fx.fn1("Opm::UnitSystem::uda_dim")
    sws = [n for n in walk(ud["body"]) if n["k"] == "Switch"]
    if len(sws) != 1:
        raise core.AnalysisBroken("UnitSystem::uda_dim: switch not found")
    ctl_measure = {}
    pend = []
    for st_ in sws[0]["body"]["c"]:
        x = st_
        while x.get("k") == "Case":
            pend.append((strip(x["v"]).get("n"), x["l"]))
            x = x.get("sub") or {}
        if x.get("k") == "Return" and isinstance(x.get("e"), dict):
            ms = [y["n"] for y in walk(x["e"]) if y["k"] == "Ref" and y.get("d") == "Enum" and "measure" in (y.get("q") or "")]
            for lab, ln in pend:
                ctl_measure[lab] = (ms[0] if len(ms) == 1 else None, ln)
            pend = []
        elif x.get("k") in ("Throw", "Break"):
            pend = []
    ALIAS = {"GCONINJE_SURFACE_MAX_RATE": ("GCONINJE", "SURFACE_TARGET"), "GCONINJE_RESV_MAX_RATE": ("GCONINJE", "RESV_TARGET"),
             "GCONINJE_TARGET_REINJ_FRACTION": ("GCONINJE", "REINJ_TARGET"), "GCONINJE_TARGET_VOID_FRACTION": ("GCONINJE", "VOIDAGE_TARGET"),
             "WCONPROD_LIFT": ("WCONPROD", "ALQ"), "WELTARG_LIFT": ("WCONPROD", "ALQ")}   # the item is named differently from the enumerator
    kwitems = {}
    for rel in listed:
        base = rel.split("/")[-1]
        if base in ("WCONPROD", "WCONINJE", "GCONPROD", "GCONINJE"):
            try:
                d = load_kw_json(os.path.join(kwroot, rel))
            except Exception:
                continue
            for it in d.get("items", []):
                kwitems[(base, it["name"])] = it.get("dimension")
    from_tabs = {sysname: table("from_" + sysname)[0] for sysname in SYSTEMS}
    for ctl, (meas, ln) in sorted(ctl_measure.items()):
        if ctl in ALIAS:
            kw_it = ALIAS[ctl]
        else:
            kw_, _, it_ = ctl.partition("_")
            kw_it = ("WCONPROD" if kw_ == "WELTARG" else kw_, it_)
        if ctl.endswith("_LIFT"):
            chk.info(r_ud, "uda_dim(%s): the unit of the artificial lift quantity is decided by the ALQ type of the well's VFP table (ALQValue.set_dim), not by the keyword item; not compared" % ctl)
            continue
        if kw_it not in kwitems:
            chk.info(r_ud, "uda_dim: no keyword item found for control %s (looked for %s %s)" % (ctl, kw_it[0], kw_it[1]))
            continue
        kdim = kwitems[kw_it]
        if kdim is not None and isinstance(kdim, list):
            kdim = kdim[0]
        key = "uda_dim:%s" % ctl
        if meas is None or meas not in measures:
            raise core.AnalysisBroken("uda_dim: measure returned for %s not identified" % ctl)
        mi_ = measures.index(meas)
        diffs = []
        for sysname in SYSTEMS:
            fm = from_tabs[sysname][mi_]
            fmv = float(fm.get("fv", fm.get("v"))) if fm.get("fv", fm.get("v")) is not None else None
            fk = numfac(kdim, sysname) if kdim not in (None, "1") else 1.0
            if fmv is None or fk is None:
                raise core.AnalysisBroken("uda_dim: factors of %s / '%s' in %s not evaluated" % (meas, kdim, sysname))
            if abs(fmv - fk) > 1e-12 * max(abs(fmv), abs(fk)):
                diffs.append((sysname, fmv / fk))
        chk.instance(r_ud, key, sample=dict(control=ctl, measure=meas, keyword=kw_it[0], item=kw_it[1], item_dimension=kdim, systems_that_differ=[d_[0] for d_ in diffs]))
        if diffs:
            chk.violation(r_ud, "%s=%s|%s" % (key, meas, kdim), "UnitSystem::uda_dim(%s) is measure::%s, the item %s of %s has the dimension `%s`: in %s the factors differ (restart / original run = %s) - a UDQ-controlled %s means another target after a restart" % (ctl, meas, kw_it[1], kw_it[0], kdim, ", ".join(d_[0].upper() for d_ in diffs), ", ".join("%.6g" % d_[1] for d_ in diffs), kw_it[1]), ud["file"], ln)

    # ---- C02.propdim: the default dimension of a UDA-valued well target against the keyword item it is read from
    r_pd = chk.rule("C02.propdim", "WellProductionProperties / WellInjectionProperties: the dimension a UDAValue member is constructed with (units.getDimension(measure::M)) - the one that stays in force when the value is later updated in place by WELTARG or WCONHIST, or restored from a restart file - converts with the same factor, in every deck unit system, as the dimension of the keyword item the member is assigned from (this->OilRate = record.getItem(\"ORAT\").get<UDAValue>(0) in the WCONPROD / WCONINJE handlers); an item without a dimension means identity", floor=10)
    pdx = chk.facts(["opm/input/eclipse/Schedule/Well/WellProductionProperties.cpp", "opm/input/eclipse/Schedule/Well/WellInjectionProperties.cpp"])
    for cls, kwname in (("WellProductionProperties", "WCONPROD"), ("WellInjectionProperties", "WCONINJE")):
        ctor = [f for f in pdx.fns if f["n"] == cls and f.get("inits") and f["params"] and "UnitSystem" in (f["params"][0].get("t") or "")]
        if len(ctor) != 1:
            raise core.AnalysisBroken("%s(const UnitSystem&, name) not found" % cls)
        ctor = ctor[0]
        defaults = {}
        for i_ in ctor["inits"]:
            ms = [y["n"] for y in walk(i_["init"]) if y["k"] == "Ref" and y.get("d") == "Enum" and "measure" in (y.get("q") or "")]
            if len(ms) == 1 and any(x["k"] == "MCall" and x.get("m") == "getDimension" for x in walk(i_["init"])):
                defaults[i_["member"]] = (ms[0], (i_["init"].get("l") or ctor["l"]))
        items_of = {}
        for f in pdx.fns:
            if not f.get("body") or not (f.get("cls") or "").endswith(cls):
                continue
            for n in walk(f["body"]):
                if n["k"] in ("Bin", "OpCall") and n.get("op") == "=" and (n.get("asg") or n["k"] == "OpCall"):
                    l_, r_ = (n.get("c") or n.get("a"))
                    l_ = strip(l_)
                    if l_.get("k") == "Mem" and strip(l_.get("b") or {"k": "This"}).get("k") == "This" and l_["n"] in defaults:
                        rt = show(strip(r_))
                        m = re.fullmatch(r"\w+\.getItem\((?:const std::string\{)?\"(\w+)\"(?:, <default>\})?\)\.get\(0\)", rt)
                        if m:
                            items_of.setdefault(l_["n"], set()).add(m.group(1))
        if len(defaults) < 4 or len(items_of) < 3:
            raise core.AnalysisBroken("%s: default dimensions (%d) / item assignments (%d) not found" % (cls, len(defaults), len(items_of)))
        for mem, (meas, ln) in sorted(defaults.items()):
            for it_ in sorted(items_of.get(mem, ())):
                if (kwname, it_) not in kwitems:
                    continue
                kdim = kwitems[(kwname, it_)]
                if it_ == "ALQ":
                    continue
                mi_ = measures.index(meas)
                diffs = []
                for sysname in SYSTEMS:
                    fm = from_tabs[sysname][mi_]
                    fmv = float(fm.get("fv", fm.get("v")))
                    fk = numfac(kdim, sysname) if kdim not in (None, "1") else 1.0
                    if fk is None:
                        raise core.AnalysisBroken("C02.propdim: factor of '%s' in %s not evaluated" % (kdim, sysname))
                    if abs(fmv - fk) > 1e-12 * max(abs(fmv), abs(fk)):
                        diffs.append((sysname, fmv / fk))
                key = "%s::%s<-%s" % (cls, mem, it_)
                chk.instance(r_pd, key, sample=dict(member=mem, default_measure=meas, keyword=kwname, item=it_, item_dimension=kdim, systems_that_differ=[d_[0] for d_ in diffs]))
                if diffs:
                    chk.violation(r_pd, key, "%s::%s is constructed with measure::%s but assigned from item %s of %s, whose dimension is `%s`: in %s the factors differ (default / keyword = %s), so a target set in place (WELTARG, WCONHIST) or restored from a restart file has another SI value than the same number in %s" % (cls, mem, meas, it_, kwname, kdim, ", ".join(d_[0].upper() for d_ in diffs), ", ".join("%.6g" % d_[1] for d_ in diffs), kwname), ctor["file"], ln)

    # ---- C02.vfpunits: the hand-composed factors of the VFP table axes
    r_vf = chk.rule("C02.vfpunits", "VFPProdTable / VFPInjTable convert<Axis>ToSI and ALQDimension: the factor chosen for an axis type is the quotient its name says - rates (OIL, LIQ, WAT: liquid surface volume / time; GAS, GRAT: gas surface volume / time), ratios X over Y (WGR: liquid / gas, GOR and GLR, IGLR, TGLR: gas / liquid, OGR: liquid / gas), WOR and WCT and the types without a unit: 1 - with every local standing for the measure it is initialised from (a local called gas_surface_volume that is filled from measure::liquid_surface_volume makes the quotient 1 in every unit system)", floor=12)
    vfx = chk.facts(["opm/input/eclipse/Schedule/VFPProdTable.cpp", "opm/input/eclipse/Schedule/VFPInjTable.cpp"])
    Lq, Gs, Tm = syq = (sy.S("liquid_surface_volume"), sy.S("gas_surface_volume"), sy.S("time"))
    WANT_VFP = {"FLO_OIL": sy.div(Lq, Tm), "FLO_LIQ": sy.div(Lq, Tm), "FLO_WAT": sy.div(Lq, Tm), "FLO_GAS": sy.div(Gs, Tm),
                "WFR_WOR": sy.I(1), "WFR_WCT": sy.I(1), "WFR_WGR": sy.div(Lq, Gs),
                "GFR_GOR": sy.div(Gs, Lq), "GFR_GLR": sy.div(Gs, Lq), "GFR_OGR": sy.div(Lq, Gs),
                "ALQ_IGLR": sy.div(Gs, Lq), "ALQ_TGLR": sy.div(Gs, Lq), "ALQ_GRAT": sy.div(Gs, Tm), "ALQ_UNDEF": sy.I(1), "ALQ_PUMP": sy.I(1)}
    n_vf = 0
    for f in vfx.fns:
        if not f.get("body") or not re.search(r"convert\w+ToSI|ALQDimension", f["n"]):
            continue
        sws = [n for n in walk(f["body"]) if n["k"] == "Switch"]
        if len(sws) != 1:
            continue
        loc_meas = {}
        facv = None
        fac0 = None
        for n in stmt_list(f["body"]):
            if n["k"] == "Decl":
                for v in n["vars"]:
                    if isinstance(v.get("init"), dict):
                        ms = [y["n"] for y in walk(v["init"]) if y["k"] == "Ref" and y.get("d") == "Enum" and "measure" in (y.get("q") or "")]
                        if len(ms) == 1 and any(x["k"] == "MCall" and x.get("m") == "getSIScaling" for x in walk(v["init"])):
                            loc_meas[v["n"]] = ms[0]
                    if (v.get("t") or "") == "double" and v["n"] not in loc_meas:
                        facv = v["n"]
                        fac0 = show(v.get("init")) if isinstance(v.get("init"), dict) else None
        if facv is None:
            continue

        def meas_term(m_):
            return {"liquid_surface_rate": sy.div(Lq, Tm), "gas_surface_rate": sy.div(Gs, Tm)}.get(m_, sy.S(m_))

        def leaf_v(e):
            if e.get("k") == "Ref" and e.get("n") in loc_meas:
                return meas_term(loc_meas[e["n"]])
            if e.get("k") == "MCall" and e.get("m") == "getSIScaling":
                ms_ = [y["n"] for y in walk(e) if y["k"] == "Ref" and y.get("d") == "Enum" and "measure" in (y.get("q") or "")]
                if len(ms_) == 1:
                    return meas_term(ms_[0])
            return None
        evv = sy.Eval(leaf_v, {facv})
        pend = []
        for st_ in sws[0]["body"]["c"]:
            x = st_
            while x.get("k") == "Case":
                pend.append((strip(x["v"]).get("n"), x["l"]))
                x = x.get("sub") or {}
            if x.get("k") == "Bin" and x.get("asg") and x["op"] == "=" and strip(x["c"][0]).get("n") == facv:
                t = evv.term(x["c"][1], {})
                for lab, ln in pend:
                    pend_done = (lab, t, ln)
                    if lab in WANT_VFP:
                        n_vf += 1
                        key = "%s:%s" % (f["q"].split("::")[-2] + "::" + f["n"], lab)
                        chk.instance(r_vf, key, sample=dict(function=f["q"], type=lab, factor=sy.show_term(t), locals=loc_meas))
                        if t is None or not sy.same_ratio(t, WANT_VFP[lab]):
                            chk.violation(r_vf, key, "%s: the factor for %s is %s (locals resolved to the measures they are initialised from: %s); required %s" % (f["q"], lab, sy.show_term(t), loc_meas, sy.show_term(WANT_VFP[lab])), f["file"], x["l"])
                pend = []
            elif x.get("k") == "Break":
                for lab, ln in pend:
                    if lab in WANT_VFP:
                        n_vf += 1
                        key = "%s:%s" % (f["q"].split("::")[-2] + "::" + f["n"], lab)
                        ok1 = fac0 in ("1", "1.0") and WANT_VFP[lab] == sy.I(1)
                        chk.instance(r_vf, key, sample=dict(function=f["q"], type=lab, factor="initial value %s" % fac0))
                        if not ok1:
                            chk.violation(r_vf, key, "%s: %s keeps the initial factor %s; required %s" % (f["q"], lab, fac0, sy.show_term(WANT_VFP[lab])), f["file"], ln)
                pend = []
            elif x.get("k") in ("Throw", "Return"):
                pend = []

    # ---- output conversions
    r_io = chk.rule("C02.io", "convertFromSI / convertToSI of RestartValue and data::Solution are mirror images (from_si <-> to_si) and visit every entry", floor=4)
    for cls, file_ in (("Opm::RestartValue", "RestartValue.cpp"), ("Opm::data::Solution", "Solution.cpp")):
        a = fx.fn1(cls + "::convertFromSI")
        b = fx.fn1(cls + "::convertToSI")
        sa = show(a["body"])
        sb = show(b["body"])
        sa_m = sa.replace("from_si", "@").replace("convertFromSI", "#")
        sb_m = sb.replace("to_si", "@").replace("convertToSI", "#")
        if cls.endswith("Solution"):
            # the `si` flag flips: if (this.si) return  <->  if (!this.si) return ;  si = true <-> si = false
            sa_m = sa_m.replace("(!this.si)", "SI?").replace("this.si", "SI?").replace("false", "B").replace("true", "B")
            sb_m = sb_m.replace("(!this.si)", "SI?").replace("this.si", "SI?").replace("false", "B").replace("true", "B")
        chk.instance(r_io, cls + ":mirror", sample=dict(cls=cls, convertFromSI=sa[:160]))
        if sa_m != sb_m:
            chk.violation(r_io, cls + ":mirror", "%s::convertFromSI and convertToSI are not mirror images:\n  %s\n  %s" % (cls, sa, sb), a["file"], a["l"])
        for f, conv in ((a, "from_si"), (b, "to_si")):
            loops = [n for n in walk(f["body"]) if n["k"] == "ForRange"]
            convs = [n for n in walk(f["body"]) if n["k"] == "MCall" and n.get("m") == conv and n.get("cls") == "Opm::UnitSystem"]
            chk.instance(r_io, "%s:%s" % (cls, f["n"]), sample=dict(function=f["q"], loops=len(loops), conversions=len(convs)))
            if len(loops) != 1 or len(convs) != 1 or show(loops[0]["range"]) not in ("this.extra", "(*this)"):
                chk.violation(r_io, "%s:%s" % (cls, f["n"]), "%s must convert every entry with UnitSystem::%s exactly once" % (f["q"], conv), f["file"], f["l"])
        if cls.endswith("Solution"):
            # flag protocol: FromSI requires si, clears it; ToSI requires !si, sets it
            for f, guard, setv in ((a, "(!this.si)", "false"), (b, "this.si", "true")):
                body = stmt_list(f["body"])
                g = body[0] if body else None
                okg = g is not None and g["k"] == "If" and show(g["cond"]) == guard and stmt_list(g["then"])[-1]["k"] == "Return"
                sets = [show(n) for n in body if n["k"] == "Bin" and n["op"] == "="]
                chk.instance(r_io, "%s:%s:flag" % (cls, f["n"]), sample=dict(guard=show(g["cond"]) if g else None, sets=sets))
                if not okg or sets != ["(this.si = %s)" % setv]:
                    chk.violation(r_io, "%s:%s:flag" % (cls, f["n"]), "%s: the si flag protocol changed (guard %s, sets %s): a double or a missing conversion becomes possible" % (f["q"], show(g["cond"]) if g else None, sets), f["file"], f["l"])
    # ---- C02.cache: DeckItem keeps ONE buffer that is converted in place between deck units and SI
    r_ca = chk.rule("C02.cache", "the in-place deck-unit <-> SI conversions of DeckItem (getData<double>, getSIDoubleData, get<UDAValue>) choose between the default and the active dimension with the same predicate on the value status, index the dimensions the same way and apply mutually inverse conversions", floor=5)
    dx = chk.facts(["opm/input/eclipse/Deck/DeckItem.cpp"], files_re="^/repo/opm/input/eclipse/Deck/DeckItem")
    sites = {}
    for f in dx.fns:
        if f.get("cls") != "Opm::DeckItem" or not f.get("body"):
            continue
        if f["n"] not in ("getData", "getSIDoubleData", "get"):
            continue
        refs = {n["n"] for n in walk_fn(f) if n["k"] == "Mem" and n["n"] in ("default_dimensions", "active_dimensions")}
        if refs != {"default_dimensions", "active_dimensions"}:
            continue
        sel = []
        for n in walk_fn(f):
            if n["k"] == "If":
                c_, t_, e_ = n["cond"], n["then"], n.get("else")
            elif n["k"] == "Cond" and len(n.get("c", [])) == 3:
                c_, t_, e_ = n["c"]
            else:
                continue
            if e_ is None:
                continue
            tm = {x["n"] for x in walk(t_) if x["k"] == "Mem" and x["n"] in ("default_dimensions", "active_dimensions")}
            em = {x["n"] for x in walk(e_) if x["k"] == "Mem" and x["n"] in ("default_dimensions", "active_dimensions")}
            if tm == {"default_dimensions"} and em == {"active_dimensions"}:
                sel.append((show(strip(c_)), n["l"], c_, False))
            elif tm == {"active_dimensions"} and em == {"default_dimensions"}:
                sel.append(("!(" + show(strip(c_)) + ")", n["l"], c_, True))
        conv = sorted({meth(n)[0] for n in walk_fn(f) if (meth(n)[0] or "") in ("convertSiToRaw", "convertRawToSi")})
        idx = sorted({show(strip(x["c"][1] if x["k"] == "Idx" else x["a"][1])) for x in walk_fn(f)
                      if (x["k"] == "Idx" and strip(x["c"][0])["k"] == "Mem" and strip(x["c"][0])["n"] in ("default_dimensions", "active_dimensions")) or
                         (x["k"] == "OpCall" and x.get("op") == "[]" and len(x.get("a", [])) == 2 and strip(x["a"][0])["k"] == "Mem" and strip(x["a"][0])["n"] in ("default_dimensions", "active_dimensions"))})
        name = "%s%s" % (f["n"], "<%s>" % ",".join(f.get("targs") or []) if f.get("targs") else "")
        sites[name] = dict(sel=sel, conv=conv, idx=idx, f=f)
    if len(sites) < 3:
        raise core.AnalysisBroken("DeckItem: fewer than three functions choose between default_dimensions and active_dimensions (%s)" % sorted(sites))
    # semantic form of a selection predicate: the set of value::status enumerators for which it holds
    vx = chk.facts(["opm/input/eclipse/Deck/DeckItem.cpp"], files_re="^/repo/opm/input/eclipse/Deck/value_status.hpp")
    st_enum = vx.enums.get("Opm::value::status")
    st_all = frozenset(i_["n"] for i_ in st_enum["items"]) if st_enum else None
    st_fns = {f["n"]: f for f in vx.fns if f.get("body") and f["q"].startswith("Opm::value::")}

    def holds(e, depth=0):
        """set of statuses for which the boolean expression over one status value holds; None if not of that form"""
        e = strip(e)
        if st_all is None:
            return None
        if e["k"] == "Bin" and e.get("op") in ("||", "&&"):
            a, b = holds(e["c"][0], depth), holds(e["c"][1], depth)
            if a is None or b is None:
                return None
            return (a | b) if e["op"] == "||" else (a & b)
        if e["k"] == "Un" and e.get("op") == "!":
            a = holds(e["c"][0], depth)
            return None if a is None else (st_all - a)
        if e["k"] == "Bin" and e.get("op") in ("==", "!="):
            for x in (strip(e["c"][0]), strip(e["c"][1])):
                if x["k"] == "Ref" and x.get("d") == "Enum" and (x.get("q") or "").startswith("Opm::value::status"):
                    return frozenset({x["n"]}) if e["op"] == "==" else (st_all - {x["n"]})
            return None
        if e["k"] == "Call" and len(e.get("a", [])) == 1 and depth < 2:
            fn_ = st_fns.get((e.get("fn") or "").split("::")[-1])
            if fn_ is not None:
                rets = [x for x in walk_fn(fn_) if x["k"] == "Return"]
                if len(rets) == 1 and rets[0].get("e") is not None:
                    return holds(rets[0]["e"], depth + 1)
        return None
    import re as _re
    def norm_sel(t):
        # the predicate and what it is applied to, without the spelling of the index variable
        t = _re.sub(r"this\.value_status\[[^\]]*\]", "this.value_status[i]", t)
        return t.replace("Opm::", "")
    preds = {}
    for name, st in sorted(sites.items()):
        shown = []
        for t, l, ce, neg in st["sel"]:
            hs = holds(ce)
            if hs is not None:
                if neg:
                    hs = st_all - hs
                key_ = "status in {%s}" % ", ".join(sorted(hs))
            else:
                key_ = norm_sel(t)
            shown.append(key_)
            preds.setdefault(key_, []).append((name, l))
        chk.instance(r_ca, name + ":select", sample=dict(function=name, default_dimension_if=shown, conversions=st["conv"], dimension_index=st["idx"]))
        if not st["sel"]:
            chk.violation(r_ca, name + ":select", "DeckItem::%s uses both default_dimensions and active_dimensions but no two-way choice between them was recognised" % name, st["f"]["file"], st["f"]["l"])
    if len(preds) > 1:
        major = max(preds.items(), key=lambda kv: len(kv[1]))[0]
        for t, where in sorted(preds.items()):
            if t == major:
                continue
            for name, l in where:
                chk.violation(r_ca, name + ":predicate", "DeckItem::%s takes the default dimension when `%s`, the other conversions when `%s`: a value converted to SI with one dimension is converted back with another (defaulted items in FIELD/LAB/PVT-M decks change value)" % (name, t, major), sites[name]["f"]["file"], l)
    gd = [n for n in sites if n.startswith("getData")]
    gs = [n for n in sites if n.startswith("getSIDoubleData")]
    if not gd or not gs:
        raise core.AnalysisBroken("DeckItem::getData<double> / getSIDoubleData not found")
    chk.instance(r_ca, "inverse", sample=dict(getData=sites[gd[0]]["conv"], getSIDoubleData=sites[gs[0]]["conv"]))
    if sites[gd[0]]["conv"] != ["convertSiToRaw"] or sites[gs[0]]["conv"] != ["convertRawToSi"]:
        chk.violation(r_ca, "inverse", "getData<double> must apply convertSiToRaw only (has %s) and getSIDoubleData convertRawToSi only (has %s)" % (sites[gd[0]]["conv"], sites[gs[0]]["conv"]), sites[gd[0]]["f"]["file"], sites[gd[0]]["f"]["l"])
    def norm_idx(t):
        return _re.sub(r"\b[A-Za-z_]*[iI]ndex\b|\bindex\b", "i", t).replace("this.active_dimensions.size()", "n").replace("dim_size", "n")
    ia, ib = {norm_idx(x) for x in sites[gd[0]]["idx"]}, {norm_idx(x) for x in sites[gs[0]]["idx"]}
    chk.instance(r_ca, "index", sample=dict(getData=sorted(ia), getSIDoubleData=sorted(ib)))

    # ---- C02.fixedsys: conversions through a hard-coded unit system
    r_fs = chk.rule("C02.fixedsys", "a conversion through a freshly constructed fixed unit system (UnitSystem::newMETRIC() / newFIELD() / newLAB() / newPVT_M()) is only ever to_si of a compile-time default (the keyword defaults of the JSON definitions are METRIC numbers): never from_si, and never applied to a value that comes from the deck, the schedule state or a parameter - those are in the deck's own unit system, which only the run's UnitSystem object knows", floor=8)
    fsx = chk.facts(["opm/input/eclipse/Schedule/Well/WellKeywordHandlers.cpp", "opm/input/eclipse/Schedule/Network/Balance.cpp", "opm/output/eclipse/DoubHEAD.cpp",
                     "opm/input/eclipse/Schedule/Group/GroupKeywordHandlers.cpp", "opm/input/eclipse/Schedule/KeywordHandlers.cpp"])
    for f in fsx.fns:
        if not f.get("body") or not f["file"].startswith(core.REPO + "/opm/") or f["file"].endswith("UnitSystem.cpp"):
            continue
        for n in walk(f["body"]):
            if n.get("k") != "MCall" or n.get("m") not in ("to_si", "from_si") or not n.get("obj"):
                continue
            o = strip(n["obj"])
            while o.get("k") in ("Temp", "Bind", "Ctor") and len(o.get("a") or o.get("c") or []) == 1:
                o = strip((o.get("a") or o.get("c"))[0])
            if o.get("k") != "Call" or not re.search(r"UnitSystem::new(METRIC|FIELD|LAB|PVT_M)$", o.get("fn") or ""):
                continue
            key = "%s@%d" % (f["q"], n["l"])
            val = n["a"][1] if len(n.get("a") or []) > 1 else None
            runtime = [show(x) for x in walk(val)] if val is None else [show(x) for x in walk(val) if (x.get("k") == "Ref" and x.get("d") in ("Var", "Parm")) or x.get("k") in ("This",) or (x.get("k") == "Mem" and x.get("n") != "defaultValue")]
            chk.instance(r_fs, key, sample=dict(function=f["q"], call=show(n)[:160]))
            if n["m"] != "to_si":
                chk.violation(r_fs, key, "%s converts FROM SI through the hard-coded %s: the result is a number in that system's units, whatever the deck's unit system is (%s)" % (f["q"], (o.get("fn") or "").split("::")[-1], show(n)[:160]), f["file"], n["l"])
            elif runtime:
                chk.violation(r_fs, key, "%s converts the run-time value(s) %s through the hard-coded %s; only compile-time keyword defaults are known to be in that system" % (f["q"], runtime[:3], (o.get("fn") or "").split("::")[-1]), f["file"], n["l"])

    # ---- C02.paramused: a unit argument that is accepted is used
    r_pu = chk.rule("C02.paramused", "UnitSystem.cpp, Dimension.cpp, RestartValue.cpp, data/Solution.cpp: every named parameter whose type is UnitSystem::measure, UnitSystem or Dimension is referenced in the function that takes it - an overload that forwards to another one must pass the measure on (a forwarding overload that substitutes measure::identity stores the array as dimensionless, and the conversion on output silently does nothing)", floor=20)
    for f in fx.fns:
        if not f.get("body") or not f["file"].startswith(core.REPO + "/opm/") or not f["file"].endswith(".cpp"):
            continue
        ups = [p_ for p_ in f.get("params") or [] if p_.get("n") and re.search(r"\bmeasure\b|\bUnitSystem\b|\bDimension\b", p_.get("t") or "")]
        if not ups:
            continue
        parts_ = [f.get("body")] + [ci.get("init") for ci in (f.get("inits") or []) if isinstance(ci, dict)]
        refs = {x.get("n") for part in parts_ if isinstance(part, (dict, list)) for x in (walk(part) if isinstance(part, dict) else [y for q_ in part if isinstance(q_, dict) for y in walk(q_)]) if x.get("k") == "Ref"}
        for p_ in ups:
            key = "%s:%s@%d" % (f["q"], p_["n"], f["l"])
            chk.instance(r_pu, key, sample=dict(function=f["q"], parameter=p_["n"], type=p_.get("t"), used=p_["n"] in refs))
            if p_["n"] not in refs:
                chk.violation(r_pu, key, "%s takes `%s` (%s) and never uses it: whatever unit the caller names is ignored" % (f["q"], p_["n"], p_.get("t")), f["file"], f["l"])

    from verif import rawget
    rawget.run(chk, "C02", floor=6)
    from verif import fallthrough
    fallthrough.run(chk, "C02", floor=12)
    from verif import argorder
    argorder.run(chk, "C02", floor=35)

    chk.assumptions += [
        "tables/measure_dims.json and tables/physical_units.json are the independent oracle (SI definitions; Eclipse unit conventions)",
        "that each keyword item carries the physically right dimension is not decided",
    ]
