"""C20  Never crash: a result or an exception — the exception discipline.

Decides, on the call-graph closure of the parse / build / open entry points: everything thrown is a
std::exception (C20.throw); nothing terminates the process except the two exits the caller configured
(C20.term); no exception can escape a noexcept function or a destructor (C20.noexcept); the wrapping
catch sites are complete for std::exception (C20.wrap).  search-and-replace loops restart beyond the
inserted text (C20.search).  NOT decided: out-of-bounds reads, iterator arithmetic past the end, termination of loops in general,
undefined behaviour - these need sanitizers and fuzzing.
"""
import re

from verif import core
from verif.tree import walk, walk_fn, show, stmt_list, meth, strip

LEVEL = "other"

ENTRY = [
    r"^Opm::Parser::(parseFile|parseString|parse|parseDeck|parseDeckString)$",
    r"^Opm::EclipseState::EclipseState$", r"^Opm::Schedule::Schedule$", r"^Opm::SummaryConfig::SummaryConfig$",
    r"^Opm::EclIO::(EclFile|ERst|ESmry|ExtESmry|EGrid|ERft|EInit|ERsm)::\1$",
    r"^Opm::EclIO::(EclFile|ERst|ESmry|ExtESmry|EGrid|ERft)::(loadData|get|getRestartData|getRft|get_at_rstep|make_esmry_file)$",
]
TERMINATORS = ("exit", "abort", "_Exit", "quick_exit", "terminate", "_exit")
TERM_ALLOWED = {
    "Opm::ParseContext::handleError": "InputErrorAction::EXIT1: an exit the caller selected in the ParseContext",
    "Opm::ErrorGuard::terminate": "ErrorGuard::terminate(): called explicitly by the application after dumping the collected errors",
    "Opm::ErrorGuard::~ErrorGuard": "destructor of a guard that still holds errors: documented termination the application opted into",
}


def show_line(f, l):
    """Position of a report relative to its function (stable under edits elsewhere in the file)."""
    return "+%d" % (l - f["l"])


def run(chk):
    units = core.library_units()
    fx = chk.facts(units)
    by_q = {}
    for f in fx.fns:
        by_q.setdefault(f["q"], []).append(f)
    virt_by_name = {}
    for f in fx.fns:
        if f.get("virt"):
            virt_by_name.setdefault(f["n"], []).append(f["q"])
    ent = [re.compile(p) for p in ENTRY]
    roots = sorted({q for q in by_q if any(r.match(q) for r in ent)})
    r_ent = chk.rule("C20.entry", "entry points (parser, state constructors, result-file readers) found and call-graph closure built over all library units", floor=15)
    for q in roots:
        chk.instance(r_ent, q, sample=q)
    from verif.callgraph import hidden_constructors
    hidden = hidden_constructors(fx.fns)
    closure = set()
    work = list(roots)
    while work:
        q = work.pop()
        if q in closure:
            continue
        closure.add(q)
        for f in by_q.get(q, []):
            for c in list(f.get("callees", [])) + sorted(hidden.get(q, ())):
                if c not in closure:
                    if c in by_q:
                        work.append(c)
                    # virtual dispatch: any override of a virtual method of that name may run
                    short = c.split("::")[-1]
                    for v in virt_by_name.get(short, []):
                        if v not in closure:
                            work.append(v)
    chk.extra["closure_functions"] = len(closure)
    chk.extra["library_functions"] = len(by_q)
    if len(closure) < 1500:
        raise core.AnalysisBroken("call-graph closure of the entry points has only %d functions" % len(closure))

    # ---- C20.throw
    r_thr = chk.rule("C20.throw", "every throw expression reachable from the entry points throws a type derived from std::exception (or rethrows)", floor=600)
    outside = []
    for f in fx.fns:
        for t in f.get("throws", []):
            inside = f["q"] in closure
            if t.get("rethrow"):
                if inside:
                    chk.instance(r_thr, "%s@%s" % (f["q"], t["l"]), nontrivial=False)
                continue
            ok = t.get("std") or t.get("dep")
            if inside:
                chk.instance(r_thr, "%s@%s" % (f["q"], t["l"]), sample=dict(function=f["q"], type=t.get("t"), std=t.get("std")))
                if not ok:
                    chk.violation(r_thr, "%s:%s" % (f["q"], t.get("t")), "%s throws `%s`, which is not derived from std::exception: a caller catching std::exception is bypassed and the process terminates" % (f["q"], t.get("t")), t.get("file") or f["file"], t["l"])
            elif not ok:
                outside.append("%s throws %s (%s:%s)" % (f["q"], t.get("t"), (t.get("file") or f["file"]).replace(core.REPO + "/", ""), t["l"]))
    for o in outside[:20]:
        chk.info(r_thr, "outside the closure of the entry points: " + o)

    # catch (...) handlers must not replace the exception by a non-std one (covered by C20.throw) nor swallow into termination
    # ---- C20.term
    r_term = chk.rule("C20.term", "no call to exit/abort/terminate is reachable from the entry points except the two exits the caller configured", floor=2)
    for f in fx.fns:
        terms = [c for c in f.get("callees", []) if c.split("::")[-1] in TERMINATORS and (c.count("::") == 0 or c.startswith("std::"))]
        if not terms:
            continue
        inside = f["q"] in closure
        chk.instance(r_term, f["q"], sample=dict(function=f["q"], calls=terms, reachable_from_entry_points=inside, allowed=TERM_ALLOWED.get(f["q"])))
        if inside and f["q"] not in TERM_ALLOWED:
            chk.violation(r_term, f["q"], "%s calls %s and is reachable from the parse/build/open entry points: malformed input can terminate the process instead of raising" % (f["q"], ", ".join(terms)), f["file"], f["l"])
        elif not inside and f["q"] not in TERM_ALLOWED:
            chk.info(r_term, "%s calls %s (not reachable from the entry points: output path)" % (f["q"], ", ".join(terms)))
    for q in TERM_ALLOWED:
        if q not in by_q:
            chk.info(r_term, "allowed terminator %s no longer exists" % q)

    # ---- C20.noexcept
    r_ne = chk.rule("C20.noexcept", "noexcept functions and destructors in the closure contain no throw and call no repository function that throws directly (outside a try block)", floor=20)
    throwers = {q for q, fs in by_q.items() if any(any(not t.get("rethrow") for t in f.get("throws", [])) for f in fs)}
    for f in fx.fns:
        if not (f.get("noexcept") or f.get("dtor")) or not f.get("body"):
            continue
        if f["q"] not in closure and not f.get("dtor"):
            continue
        key = "%s@%s" % (f["q"], f["l"])
        direct = [t for t in f.get("throws", []) if not t.get("rethrow")]
        has_try = any(n["k"] == "Try" for n in walk_fn(f))
        calls = [c for c in f.get("callees", []) if c in throwers and c in by_q and not all(x.get("noexcept") for x in by_q[c])]
        chk.instance(r_ne, key, nontrivial=bool(direct or calls), sample=dict(function=f["q"], kind="destructor" if f.get("dtor") else "noexcept", throws=len(direct), calls_throwing=calls[:3]))
        if has_try:
            continue
        if direct:
            chk.violation(r_ne, key + ":throw", "%s is %s but contains `throw %s`: std::terminate is called instead of propagating the error" % (f["q"], "a destructor" if f.get("dtor") else "noexcept", direct[0].get("t")), f["file"], direct[0]["l"])
        if calls and f.get("noexcept") and not f.get("dtor"):
            chk.violation(r_ne, key + ":call", "%s is noexcept but calls %s, which throws" % (f["q"], ", ".join(calls[:3])), f["file"], f["l"])

    # ---- C20.wrap
    r_wrap = chk.rule("C20.wrap", "the wrapping sites convert every std::exception into the documented error type and rethrow their own", floor=3)
    sites = [("Opm::(anonymous namespace)::parseState", "Parser.cpp"), ("Opm::KeywordHandlers::handleKeyword", "KeywordHandlers.cpp"), ("Opm::Schedule::Schedule", "Schedule.cpp")]
    for q, file_ in sites:
        fs = [f for f in by_q.get(q, []) if f["file"].endswith(file_) and any(n["k"] == "Try" for n in walk_fn(f))]
        if not fs:
            fs = [f for f in fx.fns if f["n"] == q.split("::")[-1] and f["file"].endswith(file_) and any(n["k"] == "Try" for n in walk_fn(f))]
        if not fs:
            raise core.AnalysisBroken("wrapping site %s not found" % q)
        f = fs[0]
        trys = [n for n in walk_fn(f) if n["k"] == "Try"]
        for tr in trys:
            hs = tr["handlers"]
            types = [re.sub(r"^const\s+|\s*&$", "", h["t"]).replace("Opm::", "") for h in hs]
            covers_std = any(t in ("std::exception", "...") for t in types)
            outcome = []
            for h in hs:
                thr = [x for x in walk(h["body"]) if x["k"] == "Throw"]
                outcome.append("rethrow" if any(x.get("rethrow") for x in thr) else ("throw " + (thr[0].get("t") or "?")) if thr else ("handleError" if "handleError" in show(h["body"]) else "swallow"))
            key = "%s@%s" % (q, tr["l"])
            chk.instance(r_wrap, key, sample=dict(site=q, handlers=list(zip(types, outcome))))
            if not covers_std:
                chk.violation(r_wrap, key + ":cover", "%s: the try block has handlers for %s only: other std::exception types escape unwrapped (without file/line context)" % (q, types), f["file"], tr["l"])
            for t, o in zip(types, outcome):
                if o.startswith("throw ") and not any(s_ in o for s_ in ("OpmInputError", "std::", "runtime_error", "logic_error", "invalid_argument")):
                    chk.violation(r_wrap, key + ":type", "%s: handler for %s throws %s" % (q, t, o), f["file"], tr["l"])
    # ---- C20.search: search-and-replace loops make progress (a termination argument for the one loop shape that edits what it searches)
    r_sr = chk.rule("C20.search", "a loop that searches a string until npos and edits the string in its body restarts the search beyond the inserted text, unless the inserted text is a literal that cannot contain the search literal", floor=2)
    for f in fx.fns:
        if not f.get("body"):
            continue
        for lp in walk_fn(f):
            if lp["k"] not in ("While", "Do", "For") or lp.get("cond") is None or "npos" not in show(lp["cond"]):
                continue
            scope = [lp["cond"], lp["body"]]
            finds, edits = [], []
            for part in scope:
                for x in walk(part):
                    m, obj = meth(x)
                    if m in ("find", "find_first_of", "find_first_not_of", "rfind") and obj is not None:
                        finds.append((x, obj))
                    elif m in ("replace", "insert") and obj is not None:
                        edits.append((x, obj))
            if not finds and not edits:
                continue
            key = "%s@%d" % (f["q"], lp["l"])
            inside = f["q"] in closure
            if not edits:
                chk.instance(r_sr, key, nontrivial=False, sample=dict(function=f["q"], loop="search only", reachable=inside))
                continue
            ok, why = True, []
            for e, eobj in edits:
                args = e.get("a", [])
                repl = args[-1] if args else None
                rlit = [x["v"] for x in walk(repl) if x["k"] in ("Str",)] if repl is not None else []
                rname = strip(repl).get("n") if repl is not None and strip(repl)["k"] == "Ref" else None
                for fd, fobj in finds:
                    if show(strip(fobj)) != show(strip(eobj)):
                        continue
                    fa = fd.get("a", [])
                    needle = fa[0] if fa else None
                    nlit = [x["v"] for x in walk(needle) if x["k"] == "Str"] if needle is not None else []
                    start = fa[1] if len(fa) > 1 else None
                    if rlit and nlit and all(nl not in rl for nl in nlit for rl in rlit):
                        why.append("the inserted literal %r cannot contain the search literal %r" % (rlit[0], nlit[0]))
                        continue
                    adv = False
                    if start is not None:
                        for b in walk(start):
                            if b["k"] == "Bin" and b.get("op") == "+":
                                for side in b["c"]:
                                    m2, o2 = meth(strip(side))
                                    if m2 in ("size", "length") and o2 is not None and (rname is None or strip(o2).get("n") == rname):
                                        adv = True
                    if adv:
                        why.append("search restarts at `%s`" % show(start)[:60])
                    else:
                        ok = False
                        why.append("search restarts at `%s`, not beyond the text just inserted (`%s`)" % (show(start)[:60] if start is not None else "the beginning", show(repl)[:40] if repl is not None else "?"))
            chk.instance(r_sr, key, sample=dict(function=f["q"], reachable_from_entry_points=inside, argument=why))
            if not ok:
                chk.violation(r_sr, key, "%s: %s - when the replacement contains the search string the loop never ends (%s)" % (f["q"], "; ".join(w for w in why if "not beyond" in w), "reachable from the parse entry points" if inside else "library utility"), f["file"], lp["l"])
    # ---- C20.cstr: C functions that read up to a NUL terminator
    r_cs = chk.rule("C20.cstr", "a C library function that reads a NUL-terminated string (strto*, ato*, strlen, strcmp, sscanf) never gets the data() of a std::vector<char> or of a std::string_view, which carry no terminator", floor=6)
    CSTR = ("strtof", "strtod", "strtold", "strtol", "strtoul", "strtoll", "strtoull", "atof", "atoi", "atol", "strlen", "strcmp", "strncmp", "strcpy", "strcat", "sscanf", "strchr", "strstr")
    for f in fx.fns:
        if not f.get("body") or f["q"] not in closure:
            continue
        for n in walk_fn(f):
            if n["k"] != "Call" or (n.get("fn") or "").replace("std::", "") not in CSTR or not n.get("a"):
                continue
            for ai, a in enumerate(n["a"][:2]):
                a0 = strip(a)
                t_ = (a0.get("t") or "")
                m_, o_ = meth(a0)
                if not (m_ in ("data", "c_str") and o_ is not None):
                    continue
                ot = (strip(o_).get("t") or "")
                key = "%s:%s@%s:%d" % (f["q"], (n.get("fn") or "").replace("std::", ""), show_line(f, n["l"]), ai)
                unterminated = m_ == "data" and ("vector<char" in ot or "string_view" in ot or "basic_string_view" in ot or "array<char" in ot)
                chk.instance(r_cs, key, sample=dict(function=f["q"], call=(n.get("fn") or ""), argument="%s() of %s" % (m_, ot[:60]), terminated=not unterminated))
                if unterminated:
                    chk.violation(r_cs, key, "%s passes the data() of a %s to %s, which reads until it finds a terminator: the read runs past the end of the buffer" % (f["q"], ot.replace("std::", "")[:40], (n.get("fn") or "")), f["file"], n["l"])

    # ---- C20.rawdata: the raw data vector of a deck item has whatever length the input record gave it
    r_rd = chk.rule("C20.rawdata", "a container taken from DeckItem::getData (its length is decided by the input record) is dereferenced with front()/back()/[k] only in a function that tests its size or emptiness", floor=2)
    for f in fx.fns:
        if not f.get("body") or f["q"] not in closure:
            continue
        srcs = {}
        for n in walk_fn(f):
            if n["k"] == "Decl":
                for v in n["vars"]:
                    i = v.get("init")
                    if i is not None and any((meth(x)[0] or "") == "getData" for x in walk(i)):
                        srcs[v["n"]] = n["l"]
        if not srcs:
            continue
        tested = set()
        for n in walk_fn(f):
            m, o = meth(n)
            if m in ("empty", "size") and o is not None and strip(o)["k"] == "Ref" and strip(o)["n"] in srcs:
                tested.add(strip(o)["n"])
        for n in walk_fn(f):
            m, o = meth(n)
            use = None
            if m in ("front", "back") and o is not None and strip(o)["k"] == "Ref" and strip(o)["n"] in srcs:
                use = (strip(o)["n"], m + "()")
            else:
                b_ = i_ = None
                if n["k"] == "Idx":
                    b_, i_ = n["c"]
                elif n["k"] == "OpCall" and n.get("op") == "[]" and len(n.get("a", [])) == 2:
                    b_, i_ = n["a"]
                if b_ is not None and strip(b_)["k"] == "Ref" and strip(b_)["n"] in srcs and strip(i_)["k"] == "Int":
                    use = (strip(b_)["n"], "[%s]" % strip(i_)["v"])
            if use:
                key = "%s:%s.%s@%s" % (f["q"], use[0], use[1], show_line(f, n["l"]))
                chk.instance(r_rd, key, sample=dict(function=f["q"], data=use[0], use=use[1], size_tested=use[0] in tested))
                if use[0] not in tested:
                    chk.violation(r_rd, key, "%s takes `%s` from the raw data of a deck item and calls %s on it without testing that the record supplied a value: an input record that ends early makes this undefined behaviour (crash)" % (f["q"], use[0], use[1]), f["file"], n["l"])

    # ---- C20.cursor: token cursors of the hand-written scanners stay inside their token vector
    from rules import c20_cursor as cc
    r_cu = chk.rule("C20.cursor", "token cursors (an index compared with V.size(), used in V[idx] and advanced by the code): every V[idx] is preceded on every path by a test that establishes idx < V.size() since the last advance; where the end is tested with equality the cursor is never advanced from a state that may already be the end", floor=40)
    n_cursors = 0
    for f in fx.fns:
        if not f.get("body") or f["q"] not in closure:
            continue
        for idx, cont, eq in cc.local_cursors(f):
            cur = cc.Cursor(idx, cont)
            an = cc.Analysis(cur, f, eq)
            an.nonempty = cc.nonempty_prefix(f["body"], cur)
            an.run(f["body"], False)
            n_cursors += 1
            for kind, l, text, ok in an.instances:
                chk.instance(r_cu, "%s:%s@%d:%s" % (f["q"], idx, l, kind), sample=dict(function=f["q"], cursor=idx, container=cont, event=kind, expr=text, in_bounds_known=bool(ok), end_tested_with_equality=eq))
            for kind, l, text in an.reports:
                chk.violation(r_cu, "%s:%s:%s@%s" % (f["q"], idx, kind, show_line(f, l)), "%s: %s" % (f["q"], text), f["file"], l)
    by_cls = {}
    for f in fx.fns:
        if f.get("body") and f.get("cls") and f["q"] in closure:
            by_cls.setdefault(f["cls"], []).append(f)
    for cls, idx, cont, eq, roles, fns in cc.member_cursors(by_cls):
        n_cursors += 1
        chk.info(r_cu, "member cursor %s::%s into %s: advance=%s fetch=%s at-end=%s%s" % (cls, idx, cont, sorted(roles["advance"]), sorted(roles["fetch"]), sorted(roles["atend"]), " (end tested with equality)" if eq else ""))
        # assumption behind the token facts: fetching at the end yields the `end` token (so token.type != end <=> in bounds)
        for ff in fns:
            if ff["n"] in roles["fetch"] or ff["n"] in roles["advance"]:
                gives_end = False
                for n in walk_fn(ff):
                    if n["k"] == "If":
                        c_txt = show(n["cond"])
                        at_end = (idx in c_txt and cont in c_txt and ("==" in c_txt or ">=" in c_txt)) or any(a_ + "()" in c_txt for a_ in roles["atend"])
                        if at_end and any(x["k"] == "Return" and x.get("e") is not None and any(y["k"] == "Ref" and y.get("d") == "Enum" and y["n"] == "end" for y in walk(x["e"])) for x in walk(n["then"])):
                            gives_end = True
                fetches_directly = any(cc.subscript(n) for n in walk_fn(ff))
                if fetches_directly and not gives_end:
                    chk.fail_broken("C20.cursor: %s::%s reads %s[%s] but does not return the `end` token under an at-end test: the token-type facts of the analysis do not apply" % (cls, ff["n"], cont, idx))
        for f, an in cc.analyse_member(cls, idx, cont, eq, roles, fns):
            for kind, l, text, ok in an.instances:
                chk.instance(r_cu, "%s:%s@%d:%s" % (f["q"], idx, l, kind), sample=dict(function=f["q"], cursor=idx, container=cont, event=kind, expr=text, in_bounds_known=bool(ok), end_tested_with_equality=eq))
            for kind, l, text in an.reports:
                chk.violation(r_cu, "%s:%s:%s@%s" % (f["q"], idx, kind, show_line(f, l)), "%s: %s" % (f["q"], text), f["file"], l)
    chk.extra["cursors_analysed"] = n_cursors
    if n_cursors < 4:
        raise core.AnalysisBroken("only %d token cursors found (UDQParser, Action::Parser, Action::Condition, make_udq_tokens are four on the pinned tree)" % n_cursors)
    chk.assumptions += [
        "C20.cursor: a token fetched at the cursor has type `end` exactly when the cursor is at the end (checked: the fetch returns the end token under its at-end test); predicates P(token.type) are false for `end`",
        "call graph from resolved callee names (overloads merged, every override of a same-named virtual method included): an over-approximation of reachability",
        "memory safety, hangs and undefined behaviour are not analysed",
    ]
